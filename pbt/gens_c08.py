"""System generator for C08 (load(dump(x)) = x).  Everything produced is JSON-able.

A *system dict* is
   {'cell': <gens cell dict>, 'pbc': [3 bool], 'rel': [[3 float]]*natoms  (relative coordinates),
    'atype': [int]*natoms, 'ntypes': int (>= max(atype)), 'symbols': None | [str|None]*ntypes,
    'props': [{'name': str, 'shape': [..], 'dtype': 'f'|'i', 'q': quantity-or-None, 'values': nested list}]}
Positions are kept as relative coordinates s; the Cartesian snapshot is s.V + o (pure numpy, ``snapshot``).

The atom-style table below is written from the LAMMPS ``read_data`` / ``atom_style`` manual pages (which
per-atom columns a style has) with atomman's property names for them; it is used to *build* systems that carry
what a style needs and to know which properties a data file carries -- never to predict file text.
"""
import functools

import numpy as np
from hypothesis import strategies as st

from . import gens

UNIT_STYLES = ('metal', 'real', 'si', 'cgs', 'electron', 'micro', 'nano', 'lj')
# a float format is offered for a unit style only when half a printed digit of a length is <= ~1e-3 of the
# smallest cell edge generated (0.5 A): metres and centimetres with 8 fixed decimals cannot represent an atomic cell
FORMATS = {u: ('%.13f', '%.8f', '%.5e', '%.16e') for u in UNIT_STYLES}
FORMATS['si'] = ('%.13f', '%.5e', '%.16e', '%.10e')
FORMATS['cgs'] = ('%.13f', '%.5e', '%.16e', '%.10e')

# (property name, shape, dtype, quantity) per atom_style, columns other than id/type/x/y/z
STYLE_PROPS = {
    'angle': [('m_id', (), 'i', None)],
    'atomic': [],
    'body': [('bflag', (), 'i', None), ('mass', (), 'f', 'mass')],
    'bond': [('m_id', (), 'i', None)],
    'charge': [('charge', (), 'f', 'charge')],
    'dipole': [('charge', (), 'f', 'charge'), ('mu', (3,), 'f', 'dipole')],
    'electron': [('charge', (), 'f', 'charge'), ('espin', (), 'i', None), ('eradius', (), 'f', 'length')],
    'ellipsoid': [('eflag', (), 'i', None), ('density', (), 'f', 'density')],
    'full': [('m_id', (), 'i', None), ('charge', (), 'f', 'charge')],
    'line': [('m_id', (), 'i', None), ('lflag', (), 'i', None), ('density', (), 'f', 'density')],
    'meso': [('rho', (), 'f', None), ('e', (), 'f', None), ('cv', (), 'f', None)],
    'molecular': [('m_id', (), 'i', None)],
    'peri': [('volume', (), 'f', 'volume'), ('density', (), 'f', 'density')],
    'smd': [('m_id', (), 'i', None), ('volume', (), 'f', 'volume'), ('mass', (), 'f', 'mass'),
            ('kradius', (), 'f', 'length'), ('cradius', (), 'f', 'length')],
    'sphere': [('diameter', (), 'f', 'length'), ('density', (), 'f', 'density')],
    'template': [('m_id', (), 'i', None), ('m_template', (), 'i', None), ('a_template', (), 'i', None)],
    'tri': [('m_id', (), 'i', None), ('tflag', (), 'i', None), ('density', (), 'f', 'density')],
    'wavepacket': [('charge', (), 'f', 'charge'), ('espin', (), 'i', None), ('eradius', (), 'f', 'length'),
                   ('e_id', (), 'i', None), ('cs_re', (), 'f', None), ('cs_im', (), 'f', None)],
}
# extra columns of the Velocities section
VEL_PROPS = {
    'electron': [('eradial_velocity', (), 'f', 'velocity')],
    'ellipsoid': [('ang_momentum', (3,), 'f', 'ang-mom')],
    'sphere': [('ang_velocity', (3,), 'f', 'ang-vel')],
}
BASE_STYLES = tuple(sorted(STYLE_PROPS))
# `units electron` defines no density unit in LAMMPS: styles with a density column are outside that unit style
DENSITY_STYLES = frozenset(s for s, pl in STYLE_PROPS.items() if any(p[3] == 'density' for p in pl))
VOLUME_STYLES = frozenset(s for s, pl in STYLE_PROPS.items() if any(p[3] == 'volume' for p in pl))

# standard per-atom quantities of `dump custom` that atomman converts by unit style: (name, shape, dtype, quantity)
DUMP_STD = [('velocity', (3,), 'f', 'velocity'), ('force', (3,), 'f', 'force'), ('charge', (), 'f', 'charge'),
            ('mass', (), 'f', 'mass'), ('radius', (), 'f', 'length'), ('torque', (3,), 'f', 'torque'),
            ('m_id', (), 'i', None), ('mu', (3,), 'f', 'dipole')]
# free extras (no unit): names without blanks, several ranks; asymmetric shapes catch transposed reshapes
EXTRAS = [('c_pe', (), 'f', None), ('flag', (), 'i', None), ('disp', (3,), 'f', None), ('pair', (2,), 'i', None),
          ('stress', (3, 3), 'f', None), ('f_ave', (2, 3), 'f', None), ('c_t', (2, 2, 2), 'f', None)]

# free extras whose per-atom shape has a unit dimension.  Even indices: exactly one component but not scalar
# ((1,), (1,1), (1,1,1): ONE table column that must still come back as (natoms,)+shape); odd indices: several
# components with a unit dimension ((1,3) vs (3,1) vs (3,) differ only by where the unit axis sits).  All of them
# round-trip on the unchanged code through the writer's prop_info (table and atom_dump), for natoms = 1 too.
UNIT_EXTRAS = [('w1', (1,), 'f', None), ('r13', (1, 3), 'f', None), ('o11', (1, 1), 'f', None),
               ('c31', (3, 1), 'f', None), ('n1', (1,), 'i', None), ('p21', (2, 1), 'i', None),
               ('t111', (1, 1, 1), 'f', None), ('m121', (1, 2, 1), 'f', None)]
_nunit = st.sampled_from([0, 1, 1, 2])
_kunit = st.integers(0, len(UNIT_EXTRAS) - 1)

ELEMENTS = ('Al', 'Cu', 'Fe', 'O', 'H', 'Ni', 'Si', 'U')


def style_props(style):
    """columns (beyond id/type/x/y/z) and velocity extras of a possibly hybrid style, in LAMMPS hybrid order"""
    if style.startswith('hybrid'):
        subs = style.split()[1:]
    else:
        subs = [style]
    seen, out, vout = set(), [], []
    for s in subs:
        for p in STYLE_PROPS[s]:
            if p[0] not in seen:
                seen.add(p[0]); out.append(p)
        for p in VEL_PROPS.get(s, []):
            if p[0] not in seen:
                seen.add(p[0]); vout.append(p)
    return out, vout


def _fill(rng, n, shape, dtype, q):
    shp = (n,) + tuple(shape)
    if dtype == 'i':
        lo, hi = (1, 9) if q == 'posint' else (-3, 40)
        return rng.integers(lo, hi + 1, size=shp).tolist()
    if q in ('mass', 'density', 'volume', 'length'):
        a = np.round(rng.uniform(0.05, 60.0, size=shp), 4)
    else:
        a = np.round(rng.uniform(-100.0, 100.0, size=shp), 4)
        # a few special magnitudes: exact zero, small, large, integer-valued floats
        m = rng.integers(0, 12, size=shp)
        a = np.where(m == 0, 0.0, a)
        a = np.where(m == 1, np.round(a * 1e-4, 8), a)
        a = np.where(m == 2, np.round(a * 1e3, 1), a)
        a = np.where(m == 3, np.round(a), a)
    return a.tolist()


_seed = st.integers(0, 2 ** 32 - 1)
_natoms = st.integers(1, 12)
_ntypes = st.sampled_from([2, 1, 3, 2, 4, 3])
_symmode = st.sampled_from(['none', 'all', 'all', 'partial'])
_bool = st.booleans()
_CELLS_LAMMPS = gens.cells(rotated=False)
_CELLS_ANY = gens.cells(rotated=True)
_REL = {n: gens.relpoints(n, n) for n in range(1, 13)}
_idperm = st.permutations(list(range(12)))
_idbase = st.integers(1, 50)
_idstep = st.integers(1, 7)


@st.composite
def systems(draw, lammps=True, want=(), n_extras=(0, 3), atom_id=False, unit_extras=False):
    """want: list of (name, shape, dtype, quantity) the system must carry; extras drawn from EXTRAS;
    unit_extras: additionally 0-2 properties from UNIT_EXTRAS (drawn last: the other draws are unaffected)"""
    cell = draw(_CELLS_LAMMPS if lammps else _CELLS_ANY)
    n = draw(_natoms)
    rel = draw(_REL[n])
    T = draw(_ntypes)
    # used types: a non-empty subset of 1..T (gaps inside and at the end)
    used = [t for t in range(1, T + 1) if draw(_bool)] or [draw(st.integers(1, T))]
    atype = [used[draw(st.integers(0, len(used) - 1))] for _ in range(n)]
    mode = draw(_symmode)
    if mode == 'none':
        symbols, ntypes = None, max(atype)
    else:
        ntypes = T
        k0 = draw(st.integers(0, len(ELEMENTS) - 1))
        symbols = [ELEMENTS[(k0 + 3 * i) % len(ELEMENTS)] for i in range(T)]
        if mode == 'partial' and T > 1:
            symbols[draw(st.integers(0, T - 1))] = None
    rng = np.random.default_rng(draw(_seed))
    props = []
    for name, shape, dt, q in want:
        props.append({'name': name, 'shape': list(shape), 'dtype': dt, 'q': q, 'values': _fill(rng, n, shape, dt, q)})
    ne = draw(st.integers(*n_extras))
    if ne:
        k0 = draw(st.integers(0, len(EXTRAS) - 1))
        names = {p['name'] for p in props}
        for i in range(ne):
            name, shape, dt, q = EXTRAS[(k0 + 2 * i + i * i) % len(EXTRAS)]
            if name not in names:
                names.add(name)
                props.append({'name': name, 'shape': list(shape), 'dtype': dt, 'q': q,
                              'values': _fill(rng, n, shape, dt, q)})
    if atom_id and draw(st.integers(0, 3)):
        perm = [k for k in draw(_idperm) if k < n]
        b, s = draw(_idbase), draw(_idstep)
        props.append({'name': 'atom_id', 'shape': [], 'dtype': 'i', 'q': None, 'values': [b + s * k for k in perm]})
    pbc = draw(gens.pbcs)
    if unit_extras:
        nu = draw(_nunit)
        if nu:
            # step 3 over a list of 8: two picks are distinct and have different parity (one single-column shape each)
            k0 = draw(_kunit)
            at = len(props) - 1 if props and props[-1]['name'] == 'atom_id' else len(props)
            for i in range(nu):
                name, shape, dt, q = UNIT_EXTRAS[(k0 + 3 * i) % len(UNIT_EXTRAS)]
                props.insert(at + i, {'name': name, 'shape': list(shape), 'dtype': dt, 'q': q,
                                      'values': _fill(rng, n, shape, dt, q)})
    return {'cell': cell, 'pbc': pbc, 'rel': rel, 'atype': atype, 'ntypes': ntypes, 'symbols': symbols,
            'props': props}


@functools.lru_cache(maxsize=None)
def systems_for(lammps, want, n_extras, atom_id, unit_extras=False):
    return systems(lammps=lammps, want=want, n_extras=n_extras, atom_id=atom_id, unit_extras=unit_extras)


def snapshot(sysd):
    """independent numpy snapshot of the system: V, o, s (relative), pos (Cartesian), atype, props{name: array}"""
    V = gens.cell_vects(sysd['cell'])
    o = gens.cell_origin(sysd['cell'])
    s = np.array(sysd['rel'], dtype=float).reshape(-1, 3)
    props = {}
    for p in sysd['props']:
        props[p['name']] = np.array(p['values'], dtype=('int64' if p['dtype'] == 'i' else 'float64')).reshape(
            (len(s),) + tuple(p['shape']))
    return {'V': V, 'o': o, 's': s, 'pos': s @ V + o, 'atype': np.array(sysd['atype'], dtype='int64'),
            'pbc': [bool(b) for b in sysd['pbc']], 'symbols': sysd['symbols'], 'ntypes': sysd['ntypes'],
            'props': props, 'meta': {p['name']: p for p in sysd['props']}}


def make_system(am, snap):
    """a fresh atomman System built from copies of the snapshot (the writer may wrap it in place)"""
    prop = {'atype': snap['atype'].copy(), 'pos': snap['pos'].copy()}
    for k, v in snap['props'].items():
        prop[k] = v.copy()
    atoms = am.Atoms(prop=prop)
    box = am.Box(vects=snap['V'].copy(), origin=snap['o'].copy())
    return am.System(atoms=atoms, box=box, pbc=list(snap['pbc']),
                     symbols=None if snap['symbols'] is None else list(snap['symbols']))


@functools.lru_cache(maxsize=None)
def _styles():
    hyb = st.tuples(st.sampled_from(BASE_STYLES), st.sampled_from(BASE_STYLES)).filter(lambda t: t[0] != t[1]) \
        .map(lambda t: 'hybrid %s %s' % t)
    return st.one_of(st.sampled_from(BASE_STYLES), st.sampled_from(BASE_STYLES), hyb)


def atom_styles():
    return _styles()


def style_allowed(style, units):
    subs = style.split()[1:] if style.startswith('hybrid') else [style]
    return not (units == 'electron' and any(s in DENSITY_STYLES for s in subs))


# ============================================================================= column descriptions (round 3)
# The writers and loaders of the 'table' and 'atom_dump' formats take the description of the columns either as a
# `prop_info` list of dicts ('prop_name' + optional 'table_name', 'shape', 'unit', 'dtype') or as the separate lists
# prop_name / table_name / shape / unit / dtype, where whole lists may be left out and `unit` / `dtype` may hold None
# entries ("no conversion" / "infer").  A *truth* is my own list of
#     {'name': str, 'shape': tuple, 'unit': None | 'scaled' | unit string, 'dtype': None | 'int64' | 'float64'}
# and ``describe`` renders it through one of the documented routes, leaving out only what the docstrings say is then
# filled in with the same meaning (rules re-derived from the docstrings, see the comments inside).

# LAMMPS `dump custom` keywords of the standard per-atom quantities (LAMMPS manual, dump command) under atomman's names
LAMMPS_NAMES = {'atom_id': ['id'], 'atype': ['type'], 'pos': ['x', 'y', 'z'], 'spos': ['xs', 'ys', 'zs'],
                'upos': ['xu', 'yu', 'zu'], 'supos': ['xsu', 'ysu', 'zsu'], 'velocity': ['vx', 'vy', 'vz'],
                'force': ['fx', 'fy', 'fz'], 'charge': ['q'], 'mass': ['mass'], 'radius': ['radius'],
                'torque': ['tqx', 'tqy', 'tqz'], 'm_id': ['mol'], 'mu': ['mux', 'muy', 'muz']}
ROUTES_DUMP = ('lists', 'lists', 'prop_info')
ROUTES_LOAD = ('lists', 'lists', 'prop_info', 'returned')
FLAVOURS = ('default', 'lammps', 'prefixed')


def default_names(name, shape):
    """name[i][j].. in C order (the documented default column names of a property)"""
    out = [name]
    for dim in shape:
        out = [x + '[%d]' % i for x in out for i in range(dim)]
    return out


def column_names(e, flavour, side):
    """column names of one truth entry: documented default, LAMMPS keyword or a free prefixed name ('id' for the ids
    in the last two: that is how the loaders know that ids are present)"""
    name, shape = e['name'], tuple(e['shape'])
    if name == 'atom_id' and flavour != 'default':
        return ['id']
    ncol = int(np.prod(shape)) if shape else 1
    if flavour == 'lammps' and name in LAMMPS_NAMES and len(LAMMPS_NAMES[name]) == ncol:
        return list(LAMMPS_NAMES[name])
    if flavour == 'prefixed':
        return ['c_' + x.replace('[', '_').replace(']', '') for x in default_names(name, shape)]
    return default_names(name, shape)


def _shape_from_count(shape):
    """is `shape` what the documented inference from the number of column names gives (1 -> (), n -> (n,))?"""
    shape = tuple(shape)
    return shape == () or (len(shape) == 1 and shape[0] >= 2)


def describe(kind, side, via, truth, mask, flavour):
    """keyword arguments that describe the columns `truth` to dump/load of format `kind` ('table' | 'atom_dump').
    via 'lists': prop_name + those of table_name / shape / unit / dtype that the bits of `mask` do not leave out;
    via 'prop_info': one dict per property, keys left out per property by the bits of `mask`.
    Leaving out is only done where the docstrings give the left-out item the same meaning:
      dtype      - always ("Values of None will infer the data type ... If not given, all values will be None")
      unit       - table only and only a None ("If not given, all unit values will be set to None"); for atom_dump the
                   two docstrings disagree on what a missing unit list means (standard LAMMPS units vs none), so the
                   unit is always stated there
      shape      - when table_name is given and the shape is () or (k>=2,) ("will be inferred from the length of each
                   table_name value")
      table_name - when the shape is given ("based on the prop_name (and shape) values")
      both       - lists, dump side (shapes are taken from the system); load('atom_dump') lists for LAMMPS-named
                   quantities ("will be taken from standard LAMMPS parameter names") and scalars ("left at ()");
                   a prop_info dict of a scalar
    returns (kwargs, labels, id_named) - id_named: the description calls the atom_id column 'id' (explicitly, or
    through the LAMMPS keyword that atom_dump's lists route supplies), i.e. the loader is told that ids are present"""
    labs = set()
    n = len(truth)
    names = [column_names(e, flavour, side) for e in truth]
    has_id = any(e['name'] == 'atom_id' for e in truth)
    std_lists = kind == 'atom_dump' and via == 'lists'

    def lammps_named(e):
        return std_lists and e['name'] in LAMMPS_NAMES and _shape_from_count(e['shape']) and \
            len(LAMMPS_NAMES[e['name']]) == (int(np.prod(e['shape'])) if tuple(e['shape']) else 1)

    if via == 'lists':
        o_dtype, o_tn, o_shape, o_unit = bool(mask & 1), bool(mask & 2), bool(mask & 4), bool(mask & 8)
        if o_unit and not (kind == 'table' and all(e['unit'] is None for e in truth)):
            o_unit = False
        if o_tn and o_shape:
            ok = side == 'dump' or all(lammps_named(e) or tuple(e['shape']) == () for e in truth)
            if not ok:
                o_shape = False
        if o_tn and not o_shape:
            # atom_dump lists route: a LAMMPS-named property takes the keyword names, whose count must fit the shape
            if std_lists and any(e['name'] in LAMMPS_NAMES and not lammps_named(e) for e in truth):
                o_tn = False
        if o_shape and not o_tn and not all(_shape_from_count(e['shape']) for e in truth):
            o_shape = False
        kw = {'prop_name': [e['name'] for e in truth]}
        if not o_tn:
            # a single column may be named by a plain string
            kw['table_name'] = [nm[0] if len(nm) == 1 and (mask >> (5 + i)) & 1 else list(nm) for i, nm in enumerate(names)]
        if not o_shape:
            kw['shape'] = [tuple(e['shape']) for e in truth]
        if not o_unit:
            kw['unit'] = [e['unit'] for e in truth]
        if not o_dtype:
            kw['dtype'] = [e['dtype'] for e in truth]
        for flag, lab in ((o_tn, 'no_table_name'), (o_shape, 'no_shape'), (o_unit, 'no_unit'), (o_dtype, 'no_dtype')):
            if flag:
                labs.add(lab)
        id_named = has_id and (std_lists if o_tn else any(e['name'] == 'atom_id' and nm == ['id'] for e, nm in zip(truth, names)))
        return kw, labs, id_named
    pinfo = []
    id_named = False
    for i, e in enumerate(truth):
        b = (mask >> (4 * (i % 7))) & 15
        o_dtype, o_tn, o_shape, o_unit = bool(b & 1), bool(b & 2), bool(b & 4), bool(b & 8)
        shape = tuple(e['shape'])
        if o_unit and not (kind == 'table' and e['unit'] is None):
            o_unit = False
        if o_dtype and e['dtype'] is not None:
            o_dtype = False
        if o_tn and o_shape and shape != ():
            o_shape = False
        if o_shape and not o_tn and not _shape_from_count(shape):
            o_shape = False
        d = {'prop_name': e['name']}
        if not o_tn:
            d['table_name'] = names[i][0] if len(names[i]) == 1 and (mask >> (29 + i % 3)) & 1 else list(names[i])
            if e['name'] == 'atom_id' and names[i] == ['id']:
                id_named = True
        if not o_shape:
            d['shape'] = shape
        if not o_unit:
            d['unit'] = e['unit']
        if not o_dtype:
            d['dtype'] = e['dtype']
        if o_tn or o_shape or o_unit or o_dtype:
            labs.add('dict_keys_left_out')
        pinfo.append(d)
    return {'prop_info': pinfo}, labs, id_named


_mask = st.integers(0, 2 ** 32 - 1)
_dvia = st.sampled_from(ROUTES_DUMP)
_lvia = st.sampled_from(ROUTES_LOAD)
_flav = st.sampled_from(FLAVOURS)
_dt3 = st.integers(0, 2)


@st.composite
def column_routes(draw, names):
    """how the columns are described on the two sides + an explicit-or-None dtype choice per property"""
    return {'dvia': draw(_dvia), 'dmask': draw(_mask), 'dflav': draw(_flav),
            'lvia': draw(_lvia), 'lmask': draw(_mask), 'lflav': draw(_flav),
            'dtypes': [draw(_dt3) == 0 for _ in names]}


# ============================================================================= working-unit configurations (round 4)
# atomman.unitconvert.reset_units sets PROCESS-GLOBAL working units.  A *configuration* is
#     {'kind': 'named', 'units': {...}} | {'kind': 'seed', 'seed': n} | {'kind': 'SI'}
# (named choices always contain a length unit and never all of length+mass+time+energy: what reset_units does with the
# other combinations is C09's subject).  A *unit plan* of a round-trip case is None (the process is left as it is: default
# units) or {'pre': None | cfg, 'W': cfg, 'R': None | cfg}: the judged dump runs under W, the loads under R (W when None;
# honoured only where the file itself names the unit of every dimensional column), after the same dump + load was run and
# judged under `pre` in the same process.  The snapshot numbers are angstrom / ps / amu / eV / e numbers; under a plan the
# system is that PHYSICAL system expressed in the working units (factors: products of numericalunits attributes, my own
# arithmetic, not uc.set_in_units).
DEFAULT_UNITS = {'length': 'angstrom', 'mass': 'amu', 'energy': 'eV', 'charge': 'e'}
DEFAULT_CFG = {'kind': 'named', 'units': dict(DEFAULT_UNITS)}
_NAMED = {'length': ['nm', 'nm', 'pm', 'm', 'cm', 'aBohr', 'um', 'angstrom'], 'mass': ['kg', 'g', 'amu'],
          'time': ['ns', 'ps', 'fs', 's'], 'energy': ['J', 'eV', 'kcal'], 'charge': ['C', 'e']}
_SUBSETS = [('length',), ('length', 'time'), ('length', 'time'), ('length', 'mass'), ('length', 'energy'), ('length', 'charge'),
            ('length', 'mass', 'time'), ('length', 'mass', 'energy'), ('length', 'time', 'energy'),
            ('length', 'mass', 'time', 'charge'), ('length', 'mass', 'energy', 'charge'), ('length', 'time', 'energy', 'charge')]
_S_SUBSET = st.sampled_from(_SUBSETS)
_S_Q = {q: st.sampled_from(v) for q, v in _NAMED.items()}


_S_KIND = st.sampled_from(['named', 'named', 'named', 'named', 'seed', 'seed', 'SI', 'default'])
_S_SEED31 = st.integers(0, 2 ** 31 - 1)
_QS = ('length', 'mass', 'time', 'energy', 'charge')


@st.composite
def _cfg(draw):
    """one configuration; ALWAYS the same number of draws (see unit_plans)"""
    kind, sub, seed = draw(_S_KIND), draw(_S_SUBSET), draw(_S_SEED31)
    picks = {q: draw(_S_Q[q]) for q in _QS}
    if kind == 'named':
        return {'kind': 'named', 'units': {q: picks[q] for q in sub}}
    if kind == 'seed':
        return {'kind': 'seed', 'seed': seed}
    return {'kind': 'SI'} if kind == 'SI' else DEFAULT_CFG


S_CFG = _cfg()
_ALT_CFG = [{'kind': 'named', 'units': {'length': 'nm', 'time': 'ns'}}, {'kind': 'named', 'units': {'length': 'pm', 'mass': 'kg', 'energy': 'J'}}]
# order of the choices: Hypothesis shrinks towards the FIRST element.  A failure that needs the history of the process (a
# factor remembered from an earlier configuration) also shows in plan-less cases that merely run after other cases of the
# shard; the simplest choice is therefore a self-contained plan (same dump + load under the default units, then under
# reset_units(length='nm')) so that the shrunk replay file reproduces in a fresh process.
_plan_on = st.sampled_from([True, False, True, False, False])
_pre_kind = st.sampled_from(['default', 'none', 'default', 'other', 'none'])
_cross_on = st.sampled_from([False, True, True, False, True])


def _other_than(cfg, ref):
    """Hypothesis favours its simplest choices: make two configurations differ by construction"""
    return cfg if cfg != ref else [a for a in _ALT_CFG if a != ref][0]


@st.composite
def unit_plans(draw, cross=True):
    # every choice is drawn whether it is used or not: the Hypothesis shrinker prefers SHORTER choice sequences, and a
    # plan-less case must not be "simpler" than the self-contained plan (see the comment above _plan_on)
    on, W, pk, P, cr, R = draw(_plan_on), draw(S_CFG), draw(_pre_kind), draw(S_CFG), draw(_cross_on), draw(S_CFG)
    if not on:
        return None
    if pk == 'default':
        W = _other_than(W, DEFAULT_CFG)
        pre = DEFAULT_CFG
    elif pk == 'other':
        pre = _other_than(P, W)
    else:
        pre = None
    return {'pre': pre, 'W': W, 'R': _other_than(R, W) if cross and cr else None}


S_PLAN = unit_plans(True)
S_PLAN_NOCROSS = unit_plans(False)


def apply_units(uc, cfg):
    if cfg['kind'] == 'named':
        uc.reset_units(**cfg['units'])
    elif cfg['kind'] == 'seed':
        uc.reset_units(seed=int(cfg['seed']))
    else:
        uc.reset_units(seed='SI')


def restore_units(uc):
    uc.reset_units(length='angstrom', mass='amu', energy='eV', charge='e')


def unit_factors():
    """size in the CURRENT working units of the angstrom / ps / amu / eV / e unit of every quantity the snapshots carry"""
    import numericalunits as nu
    L, M, T, E, Q = nu.angstrom, nu.amu, nu.ps, nu.eV, nu.e
    return {'length': L, 'mass': M, 'velocity': L / T, 'force': E / L, 'charge': Q, 'torque': E, 'dipole': Q * L,
            'density': M / L ** 3, 'volume': L ** 3, 'ang-mom': M * L * L / T, 'ang-vel': 1.0 / T}


def own_unit_size(u):
    """size in the CURRENT working units of the unit strings the column descriptions use (own arithmetic on numericalunits
    attributes); None for a string not in the table"""
    import numericalunits as nu
    t = {'nm': nu.nm, 'angstrom': nu.angstrom, 'pm': nu.pm, 'm/s': nu.m / nu.s, 'angstrom/ps': nu.angstrom / nu.ps,
         'eV/angstrom': nu.eV / nu.angstrom, 'nN': nu.nN, 'e': nu.e, 'amu': nu.amu, 'g/mol': nu.g / nu.mol, 'eV': nu.eV,
         'kcal/mol': nu.kcal / nu.mol, 'e*angstrom': nu.e * nu.angstrom, 'GPa': nu.GPa, 'mJ/m^2': nu.mJ / nu.m ** 2}
    return t.get(u)


def physical(raw, rescale=None):
    """the snapshot `raw` (angstrom / ps / amu / eV / e numbers) as the same physical system in the current working units;
    rescale: {name: factor} for dimensionless-by-declaration properties that a file carries in an explicit unit"""
    f = unit_factors()
    L = f['length']
    S = dict(raw)
    S['V'], S['o'], S['pos'] = raw['V'] * L, raw['o'] * L, raw['pos'] * L
    props = {}
    for k, v in raw['props'].items():
        m = raw['meta'][k]
        if m['dtype'] == 'f' and m['q'] is not None:
            v = v * f[m['q']]
        elif m['dtype'] == 'f' and rescale and k in rescale:
            v = v * rescale[k]
        props[k] = v
    S['props'] = props
    S['raw'] = raw
    return S
