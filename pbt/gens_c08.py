"""System generator for C08 (load(dump(x)) = x).  Everything produced is JSON-able.

A *system dict* is
   {'cell': <gens cell dict>, 'pbc': [3 bool], 'rel': [[3 float]]*natoms  (relative coordinates),
    'atype': [int]*natoms, 'ntypes': int (>= max(atype)), 'symbols': None | [str|None]*ntypes,
    'props': [{'name': str, 'shape': [..], 'dtype': 'f'|'i', 'q': quantity-or-None, 'values': nested list}]}
Positions are kept as relative coordinates s; the Cartesian snapshot is s.V + o (pure numpy, ``snapshot``).

The atom-style table below is written from the LAMMPS ``read_data`` / ``atom_style`` manual pages (which
per-atom columns a style has) with atomman's property names for them; it is used to *build* systems that carry
what a style needs and to know which properties a data file carries -- never to predict file text.
"""
import functools

import numpy as np
from hypothesis import strategies as st

from . import gens

UNIT_STYLES = ('metal', 'real', 'si', 'cgs', 'electron', 'micro', 'nano', 'lj')
# a float format is offered for a unit style only when half a printed digit of a length is <= ~1e-3 of the
# smallest cell edge generated (0.5 A): metres and centimetres with 8 fixed decimals cannot represent an atomic cell
FORMATS = {u: ('%.13f', '%.8f', '%.5e', '%.16e') for u in UNIT_STYLES}
FORMATS['si'] = ('%.13f', '%.5e', '%.16e', '%.10e')
FORMATS['cgs'] = ('%.13f', '%.5e', '%.16e', '%.10e')

# (property name, shape, dtype, quantity) per atom_style, columns other than id/type/x/y/z
STYLE_PROPS = {
    'angle': [('m_id', (), 'i', None)],
    'atomic': [],
    'body': [('bflag', (), 'i', None), ('mass', (), 'f', 'mass')],
    'bond': [('m_id', (), 'i', None)],
    'charge': [('charge', (), 'f', 'charge')],
    'dipole': [('charge', (), 'f', 'charge'), ('mu', (3,), 'f', 'dipole')],
    'electron': [('charge', (), 'f', 'charge'), ('espin', (), 'i', None), ('eradius', (), 'f', 'length')],
    'ellipsoid': [('eflag', (), 'i', None), ('density', (), 'f', 'density')],
    'full': [('m_id', (), 'i', None), ('charge', (), 'f', 'charge')],
    'line': [('m_id', (), 'i', None), ('lflag', (), 'i', None), ('density', (), 'f', 'density')],
    'meso': [('rho', (), 'f', None), ('e', (), 'f', None), ('cv', (), 'f', None)],
    'molecular': [('m_id', (), 'i', None)],
    'peri': [('volume', (), 'f', 'volume'), ('density', (), 'f', 'density')],
    'smd': [('m_id', (), 'i', None), ('volume', (), 'f', 'volume'), ('mass', (), 'f', 'mass'),
            ('kradius', (), 'f', 'length'), ('cradius', (), 'f', 'length')],
    'sphere': [('diameter', (), 'f', 'length'), ('density', (), 'f', 'density')],
    'template': [('m_id', (), 'i', None), ('m_template', (), 'i', None), ('a_template', (), 'i', None)],
    'tri': [('m_id', (), 'i', None), ('tflag', (), 'i', None), ('density', (), 'f', 'density')],
    'wavepacket': [('charge', (), 'f', 'charge'), ('espin', (), 'i', None), ('eradius', (), 'f', 'length'),
                   ('e_id', (), 'i', None), ('cs_re', (), 'f', None), ('cs_im', (), 'f', None)],
}
# extra columns of the Velocities section
VEL_PROPS = {
    'electron': [('eradial_velocity', (), 'f', 'velocity')],
    'ellipsoid': [('ang_momentum', (3,), 'f', 'ang-mom')],
    'sphere': [('ang_velocity', (3,), 'f', 'ang-vel')],
}
BASE_STYLES = tuple(sorted(STYLE_PROPS))
# `units electron` defines no density unit in LAMMPS: styles with a density column are outside that unit style
DENSITY_STYLES = frozenset(s for s, pl in STYLE_PROPS.items() if any(p[3] == 'density' for p in pl))
VOLUME_STYLES = frozenset(s for s, pl in STYLE_PROPS.items() if any(p[3] == 'volume' for p in pl))

# standard per-atom quantities of `dump custom` that atomman converts by unit style: (name, shape, dtype, quantity)
DUMP_STD = [('velocity', (3,), 'f', 'velocity'), ('force', (3,), 'f', 'force'), ('charge', (), 'f', 'charge'),
            ('mass', (), 'f', 'mass'), ('radius', (), 'f', 'length'), ('torque', (3,), 'f', 'torque'),
            ('m_id', (), 'i', None), ('mu', (3,), 'f', 'dipole')]
# free extras (no unit): names without blanks, several ranks; asymmetric shapes catch transposed reshapes
EXTRAS = [('c_pe', (), 'f', None), ('flag', (), 'i', None), ('disp', (3,), 'f', None), ('pair', (2,), 'i', None),
          ('stress', (3, 3), 'f', None), ('f_ave', (2, 3), 'f', None), ('c_t', (2, 2, 2), 'f', None)]

# free extras whose per-atom shape has a unit dimension.  Even indices: exactly one component but not scalar
# ((1,), (1,1), (1,1,1): ONE table column that must still come back as (natoms,)+shape); odd indices: several
# components with a unit dimension ((1,3) vs (3,1) vs (3,) differ only by where the unit axis sits).  All of them
# round-trip on the unchanged code through the writer's prop_info (table and atom_dump), for natoms = 1 too.
UNIT_EXTRAS = [('w1', (1,), 'f', None), ('r13', (1, 3), 'f', None), ('o11', (1, 1), 'f', None),
               ('c31', (3, 1), 'f', None), ('n1', (1,), 'i', None), ('p21', (2, 1), 'i', None),
               ('t111', (1, 1, 1), 'f', None), ('m121', (1, 2, 1), 'f', None)]
_nunit = st.sampled_from([0, 1, 1, 2])
_kunit = st.integers(0, len(UNIT_EXTRAS) - 1)

ELEMENTS = ('Al', 'Cu', 'Fe', 'O', 'H', 'Ni', 'Si', 'U')


def style_props(style):
    """columns (beyond id/type/x/y/z) and velocity extras of a possibly hybrid style, in LAMMPS hybrid order"""
    if style.startswith('hybrid'):
        subs = style.split()[1:]
    else:
        subs = [style]
    seen, out, vout = set(), [], []
    for s in subs:
        for p in STYLE_PROPS[s]:
            if p[0] not in seen:
                seen.add(p[0]); out.append(p)
        for p in VEL_PROPS.get(s, []):
            if p[0] not in seen:
                seen.add(p[0]); vout.append(p)
    return out, vout


def _fill(rng, n, shape, dtype, q):
    shp = (n,) + tuple(shape)
    if dtype == 'i':
        lo, hi = (1, 9) if q == 'posint' else (-3, 40)
        return rng.integers(lo, hi + 1, size=shp).tolist()
    if q in ('mass', 'density', 'volume', 'length'):
        a = np.round(rng.uniform(0.05, 60.0, size=shp), 4)
    else:
        a = np.round(rng.uniform(-100.0, 100.0, size=shp), 4)
        # a few special magnitudes: exact zero, small, large, integer-valued floats
        m = rng.integers(0, 12, size=shp)
        a = np.where(m == 0, 0.0, a)
        a = np.where(m == 1, np.round(a * 1e-4, 8), a)
        a = np.where(m == 2, np.round(a * 1e3, 1), a)
        a = np.where(m == 3, np.round(a), a)
    return a.tolist()


_seed = st.integers(0, 2 ** 32 - 1)
_natoms = st.integers(1, 12)
_ntypes = st.sampled_from([2, 1, 3, 2, 4, 3])
_symmode = st.sampled_from(['none', 'all', 'all', 'partial'])
_bool = st.booleans()
_CELLS_LAMMPS = gens.cells(rotated=False)
_CELLS_ANY = gens.cells(rotated=True)
_REL = {n: gens.relpoints(n, n) for n in range(1, 13)}
_idperm = st.permutations(list(range(12)))
_idbase = st.integers(1, 50)
_idstep = st.integers(1, 7)


@st.composite
def systems(draw, lammps=True, want=(), n_extras=(0, 3), atom_id=False, unit_extras=False):
    """want: list of (name, shape, dtype, quantity) the system must carry; extras drawn from EXTRAS;
    unit_extras: additionally 0-2 properties from UNIT_EXTRAS (drawn last: the other draws are unaffected)"""
    cell = draw(_CELLS_LAMMPS if lammps else _CELLS_ANY)
    n = draw(_natoms)
    rel = draw(_REL[n])
    T = draw(_ntypes)
    # used types: a non-empty subset of 1..T (gaps inside and at the end)
    used = [t for t in range(1, T + 1) if draw(_bool)] or [draw(st.integers(1, T))]
    atype = [used[draw(st.integers(0, len(used) - 1))] for _ in range(n)]
    mode = draw(_symmode)
    if mode == 'none':
        symbols, ntypes = None, max(atype)
    else:
        ntypes = T
        k0 = draw(st.integers(0, len(ELEMENTS) - 1))
        symbols = [ELEMENTS[(k0 + 3 * i) % len(ELEMENTS)] for i in range(T)]
        if mode == 'partial' and T > 1:
            symbols[draw(st.integers(0, T - 1))] = None
    rng = np.random.default_rng(draw(_seed))
    props = []
    for name, shape, dt, q in want:
        props.append({'name': name, 'shape': list(shape), 'dtype': dt, 'q': q, 'values': _fill(rng, n, shape, dt, q)})
    ne = draw(st.integers(*n_extras))
    if ne:
        k0 = draw(st.integers(0, len(EXTRAS) - 1))
        names = {p['name'] for p in props}
        for i in range(ne):
            name, shape, dt, q = EXTRAS[(k0 + 2 * i + i * i) % len(EXTRAS)]
            if name not in names:
                names.add(name)
                props.append({'name': name, 'shape': list(shape), 'dtype': dt, 'q': q,
                              'values': _fill(rng, n, shape, dt, q)})
    if atom_id and draw(st.integers(0, 3)):
        perm = [k for k in draw(_idperm) if k < n]
        b, s = draw(_idbase), draw(_idstep)
        props.append({'name': 'atom_id', 'shape': [], 'dtype': 'i', 'q': None, 'values': [b + s * k for k in perm]})
    pbc = draw(gens.pbcs)
    if unit_extras:
        nu = draw(_nunit)
        if nu:
            # step 3 over a list of 8: two picks are distinct and have different parity (one single-column shape each)
            k0 = draw(_kunit)
            at = len(props) - 1 if props and props[-1]['name'] == 'atom_id' else len(props)
            for i in range(nu):
                name, shape, dt, q = UNIT_EXTRAS[(k0 + 3 * i) % len(UNIT_EXTRAS)]
                props.insert(at + i, {'name': name, 'shape': list(shape), 'dtype': dt, 'q': q,
                                      'values': _fill(rng, n, shape, dt, q)})
    return {'cell': cell, 'pbc': pbc, 'rel': rel, 'atype': atype, 'ntypes': ntypes, 'symbols': symbols,
            'props': props}


@functools.lru_cache(maxsize=None)
def systems_for(lammps, want, n_extras, atom_id, unit_extras=False):
    return systems(lammps=lammps, want=want, n_extras=n_extras, atom_id=atom_id, unit_extras=unit_extras)


def snapshot(sysd):
    """independent numpy snapshot of the system: V, o, s (relative), pos (Cartesian), atype, props{name: array}"""
    c = sysd['cell']
    if 'V' in c:
        V = np.array(c['V'], dtype=float)             # exactly structured cell (round 5), given explicitly
    else:
        V = gens.cell_vects(c)
        if c.get('tiny') and not c.get('rot'):
            # the cell a Box holds after its documented clean-up: components up to 1e-9 of the largest one are zero
            V = V.copy()
            V[np.abs(V) / np.abs(V).max() <= CLEAN_RUNG] = 0.0
    o = gens.cell_origin(c)
    s = np.array(sysd['rel'], dtype=float).reshape(-1, 3)
    props = {}
    for p in sysd['props']:
        props[p['name']] = np.array(p['values'], dtype=('int64' if p['dtype'] == 'i' else 'float64')).reshape(
            (len(s),) + tuple(p['shape']))
    return {'V': V, 'o': o, 's': s, 'pos': s @ V + o, 'atype': np.array(sysd['atype'], dtype='int64'),
            'pbc': [bool(b) for b in sysd['pbc']], 'symbols': sysd['symbols'], 'ntypes': sysd['ntypes'],
            'props': props, 'meta': {p['name']: p for p in sysd['props']}}


def make_system(am, snap):
    """a fresh atomman System built from copies of the snapshot (the writer may wrap it in place)"""
    st_ = snap.get('store') or {}
    prop = {'atype': _formed(snap['atype'], *st_.get('atype', ('i8', 'copy'))),
            'pos': _formed(snap['pos'], *st_.get('pos', ('f8', 'copy')))}
    for k, v in snap['props'].items():
        prop[k] = _formed(v, *st_.get(k, ('f8', 'copy')))
    atoms = am.Atoms(prop=prop)
    box = am.Box(vects=snap['V'].copy(), origin=snap['o'].copy())
    return am.System(atoms=atoms, box=box, pbc=list(snap['pbc']),
                     symbols=None if snap['symbols'] is None else list(snap['symbols']))


@functools.lru_cache(maxsize=None)
def _styles():
    hyb = st.tuples(st.sampled_from(BASE_STYLES), st.sampled_from(BASE_STYLES)).filter(lambda t: t[0] != t[1]) \
        .map(lambda t: 'hybrid %s %s' % t)
    return st.one_of(st.sampled_from(BASE_STYLES), st.sampled_from(BASE_STYLES), hyb)


def atom_styles():
    return _styles()


def style_allowed(style, units):
    subs = style.split()[1:] if style.startswith('hybrid') else [style]
    return not (units == 'electron' and any(s in DENSITY_STYLES for s in subs))


# ============================================================================= column descriptions (round 3)
# The writers and loaders of the 'table' and 'atom_dump' formats take the description of the columns either as a
# `prop_info` list of dicts ('prop_name' + optional 'table_name', 'shape', 'unit', 'dtype') or as the separate lists
# prop_name / table_name / shape / unit / dtype, where whole lists may be left out and `unit` / `dtype` may hold None
# entries ("no conversion" / "infer").  A *truth* is my own list of
#     {'name': str, 'shape': tuple, 'unit': None | 'scaled' | unit string, 'dtype': None | 'int64' | 'float64'}
# and ``describe`` renders it through one of the documented routes, leaving out only what the docstrings say is then
# filled in with the same meaning (rules re-derived from the docstrings, see the comments inside).

# LAMMPS `dump custom` keywords of the standard per-atom quantities (LAMMPS manual, dump command) under atomman's names
LAMMPS_NAMES = {'atom_id': ['id'], 'atype': ['type'], 'pos': ['x', 'y', 'z'], 'spos': ['xs', 'ys', 'zs'],
                'upos': ['xu', 'yu', 'zu'], 'supos': ['xsu', 'ysu', 'zsu'], 'velocity': ['vx', 'vy', 'vz'],
                'force': ['fx', 'fy', 'fz'], 'charge': ['q'], 'mass': ['mass'], 'radius': ['radius'],
                'torque': ['tqx', 'tqy', 'tqz'], 'm_id': ['mol'], 'mu': ['mux', 'muy', 'muz']}
ROUTES_DUMP = ('lists', 'lists', 'prop_info')
ROUTES_LOAD = ('lists', 'lists', 'prop_info', 'returned')
FLAVOURS = ('default', 'lammps', 'prefixed')


def default_names(name, shape):
    """name[i][j].. in C order (the documented default column names of a property)"""
    out = [name]
    for dim in shape:
        out = [x + '[%d]' % i for x in out for i in range(dim)]
    return out


def column_names(e, flavour, side):
    """column names of one truth entry: documented default, LAMMPS keyword or a free prefixed name ('id' for the ids
    in the last two: that is how the loaders know that ids are present)"""
    name, shape = e['name'], tuple(e['shape'])
    if name == 'atom_id' and flavour != 'default':
        return ['id']
    ncol = int(np.prod(shape)) if shape else 1
    if flavour == 'lammps' and name in LAMMPS_NAMES and len(LAMMPS_NAMES[name]) == ncol:
        return list(LAMMPS_NAMES[name])
    if flavour == 'prefixed':
        return ['c_' + x.replace('[', '_').replace(']', '') for x in default_names(name, shape)]
    return default_names(name, shape)


def _shape_from_count(shape):
    """is `shape` what the documented inference from the number of column names gives (1 -> (), n -> (n,))?"""
    shape = tuple(shape)
    return shape == () or (len(shape) == 1 and shape[0] >= 2)


def describe(kind, side, via, truth, mask, flavour):
    """keyword arguments that describe the columns `truth` to dump/load of format `kind` ('table' | 'atom_dump').
    via 'lists': prop_name + those of table_name / shape / unit / dtype that the bits of `mask` do not leave out;
    via 'prop_info': one dict per property, keys left out per property by the bits of `mask`.
    Leaving out is only done where the docstrings give the left-out item the same meaning:
      dtype      - always ("Values of None will infer the data type ... If not given, all values will be None")
      unit       - table only and only a None ("If not given, all unit values will be set to None"); for atom_dump the
                   two docstrings disagree on what a missing unit list means (standard LAMMPS units vs none), so the
                   unit is always stated there
      shape      - when table_name is given and the shape is () or (k>=2,) ("will be inferred from the length of each
                   table_name value")
      table_name - when the shape is given ("based on the prop_name (and shape) values")
      both       - lists, dump side (shapes are taken from the system); load('atom_dump') lists for LAMMPS-named
                   quantities ("will be taken from standard LAMMPS parameter names") and scalars ("left at ()");
                   a prop_info dict of a scalar
    returns (kwargs, labels, id_named) - id_named: the description calls the atom_id column 'id' (explicitly, or
    through the LAMMPS keyword that atom_dump's lists route supplies), i.e. the loader is told that ids are present"""
    labs = set()
    n = len(truth)
    names = [column_names(e, flavour, side) for e in truth]
    has_id = any(e['name'] == 'atom_id' for e in truth)
    std_lists = kind == 'atom_dump' and via == 'lists'

    def lammps_named(e):
        return std_lists and e['name'] in LAMMPS_NAMES and _shape_from_count(e['shape']) and \
            len(LAMMPS_NAMES[e['name']]) == (int(np.prod(e['shape'])) if tuple(e['shape']) else 1)

    if via == 'lists':
        o_dtype, o_tn, o_shape, o_unit = bool(mask & 1), bool(mask & 2), bool(mask & 4), bool(mask & 8)
        if o_unit and not (kind == 'table' and all(e['unit'] is None for e in truth)):
            o_unit = False
        if o_tn and o_shape:
            ok = side == 'dump' or all(lammps_named(e) or tuple(e['shape']) == () for e in truth)
            if not ok:
                o_shape = False
        if o_tn and not o_shape:
            # atom_dump lists route: a LAMMPS-named property takes the keyword names, whose count must fit the shape
            if std_lists and any(e['name'] in LAMMPS_NAMES and not lammps_named(e) for e in truth):
                o_tn = False
        if o_shape and not o_tn and not all(_shape_from_count(e['shape']) for e in truth):
            o_shape = False
        kw = {'prop_name': [e['name'] for e in truth]}
        if not o_tn:
            # a single column may be named by a plain string
            kw['table_name'] = [nm[0] if len(nm) == 1 and (mask >> (5 + i)) & 1 else list(nm) for i, nm in enumerate(names)]
        if not o_shape:
            kw['shape'] = [tuple(e['shape']) for e in truth]
        if not o_unit:
            kw['unit'] = [e['unit'] for e in truth]
        if not o_dtype:
            kw['dtype'] = [e['dtype'] for e in truth]
        for flag, lab in ((o_tn, 'no_table_name'), (o_shape, 'no_shape'), (o_unit, 'no_unit'), (o_dtype, 'no_dtype')):
            if flag:
                labs.add(lab)
        id_named = has_id and (std_lists if o_tn else any(e['name'] == 'atom_id' and nm == ['id'] for e, nm in zip(truth, names)))
        return kw, labs, id_named
    pinfo = []
    id_named = False
    for i, e in enumerate(truth):
        b = (mask >> (4 * (i % 7))) & 15
        o_dtype, o_tn, o_shape, o_unit = bool(b & 1), bool(b & 2), bool(b & 4), bool(b & 8)
        shape = tuple(e['shape'])
        if o_unit and not (kind == 'table' and e['unit'] is None):
            o_unit = False
        if o_dtype and e['dtype'] is not None:
            o_dtype = False
        if o_tn and o_shape and shape != ():
            o_shape = False
        if o_shape and not o_tn and not _shape_from_count(shape):
            o_shape = False
        d = {'prop_name': e['name']}
        if not o_tn:
            d['table_name'] = names[i][0] if len(names[i]) == 1 and (mask >> (29 + i % 3)) & 1 else list(names[i])
            if e['name'] == 'atom_id' and names[i] == ['id']:
                id_named = True
        if not o_shape:
            d['shape'] = shape
        if not o_unit:
            d['unit'] = e['unit']
        if not o_dtype:
            d['dtype'] = e['dtype']
        if o_tn or o_shape or o_unit or o_dtype:
            labs.add('dict_keys_left_out')
        pinfo.append(d)
    return {'prop_info': pinfo}, labs, id_named


_mask = st.integers(0, 2 ** 32 - 1)
_dvia = st.sampled_from(ROUTES_DUMP)
_lvia = st.sampled_from(ROUTES_LOAD)
_flav = st.sampled_from(FLAVOURS)
_dt3 = st.integers(0, 2)


@st.composite
def column_routes(draw, names):
    """how the columns are described on the two sides + an explicit-or-None dtype choice per property"""
    return {'dvia': draw(_dvia), 'dmask': draw(_mask), 'dflav': draw(_flav),
            'lvia': draw(_lvia), 'lmask': draw(_mask), 'lflav': draw(_flav),
            'dtypes': [draw(_dt3) == 0 for _ in names]}


# ============================================================================= working-unit configurations (round 4)
# atomman.unitconvert.reset_units sets PROCESS-GLOBAL working units.  A *configuration* is
#     {'kind': 'named', 'units': {...}} | {'kind': 'seed', 'seed': n} | {'kind': 'SI'}
# (named choices always contain a length unit and never all of length+mass+time+energy: what reset_units does with the
# other combinations is C09's subject).  A *unit plan* of a round-trip case is None (the process is left as it is: default
# units) or {'pre': None | cfg, 'W': cfg, 'R': None | cfg}: the judged dump runs under W, the loads under R (W when None;
# honoured only where the file itself names the unit of every dimensional column), after the same dump + load was run and
# judged under `pre` in the same process.  The snapshot numbers are angstrom / ps / amu / eV / e numbers; under a plan the
# system is that PHYSICAL system expressed in the working units (factors: products of numericalunits attributes, my own
# arithmetic, not uc.set_in_units).
DEFAULT_UNITS = {'length': 'angstrom', 'mass': 'amu', 'energy': 'eV', 'charge': 'e'}
DEFAULT_CFG = {'kind': 'named', 'units': dict(DEFAULT_UNITS)}
_NAMED = {'length': ['nm', 'nm', 'pm', 'm', 'cm', 'aBohr', 'um', 'angstrom'], 'mass': ['kg', 'g', 'amu'],
          'time': ['ns', 'ps', 'fs', 's'], 'energy': ['J', 'eV', 'kcal'], 'charge': ['C', 'e']}
_SUBSETS = [('length',), ('length', 'time'), ('length', 'time'), ('length', 'mass'), ('length', 'energy'), ('length', 'charge'),
            ('length', 'mass', 'time'), ('length', 'mass', 'energy'), ('length', 'time', 'energy'),
            ('length', 'mass', 'time', 'charge'), ('length', 'mass', 'energy', 'charge'), ('length', 'time', 'energy', 'charge')]
_S_SUBSET = st.sampled_from(_SUBSETS)
_S_Q = {q: st.sampled_from(v) for q, v in _NAMED.items()}


_S_KIND = st.sampled_from(['named', 'named', 'named', 'named', 'seed', 'seed', 'SI', 'default'])
_S_SEED31 = st.integers(0, 2 ** 31 - 1)
_QS = ('length', 'mass', 'time', 'energy', 'charge')


@st.composite
def _cfg(draw):
    """one configuration; ALWAYS the same number of draws (see unit_plans)"""
    kind, sub, seed = draw(_S_KIND), draw(_S_SUBSET), draw(_S_SEED31)
    picks = {q: draw(_S_Q[q]) for q in _QS}
    if kind == 'named':
        return {'kind': 'named', 'units': {q: picks[q] for q in sub}}
    if kind == 'seed':
        return {'kind': 'seed', 'seed': seed}
    return {'kind': 'SI'} if kind == 'SI' else DEFAULT_CFG


S_CFG = _cfg()
_ALT_CFG = [{'kind': 'named', 'units': {'length': 'nm', 'time': 'ns'}}, {'kind': 'named', 'units': {'length': 'pm', 'mass': 'kg', 'energy': 'J'}}]
# order of the choices: Hypothesis shrinks towards the FIRST element.  A failure that needs the history of the process (a
# factor remembered from an earlier configuration) also shows in plan-less cases that merely run after other cases of the
# shard; the simplest choice is therefore a self-contained plan (same dump + load under the default units, then under
# reset_units(length='nm')) so that the shrunk replay file reproduces in a fresh process.
_plan_on = st.sampled_from([True, False, True, False, False])
_pre_kind = st.sampled_from(['default', 'none', 'default', 'other', 'none'])
_cross_on = st.sampled_from([False, True, True, False, True])


def _other_than(cfg, ref):
    """Hypothesis favours its simplest choices: make two configurations differ by construction"""
    return cfg if cfg != ref else [a for a in _ALT_CFG if a != ref][0]


@st.composite
def unit_plans(draw, cross=True):
    # every choice is drawn whether it is used or not: the Hypothesis shrinker prefers SHORTER choice sequences, and a
    # plan-less case must not be "simpler" than the self-contained plan (see the comment above _plan_on)
    on, W, pk, P, cr, R = draw(_plan_on), draw(S_CFG), draw(_pre_kind), draw(S_CFG), draw(_cross_on), draw(S_CFG)
    if not on:
        return None
    if pk == 'default':
        W = _other_than(W, DEFAULT_CFG)
        pre = DEFAULT_CFG
    elif pk == 'other':
        pre = _other_than(P, W)
    else:
        pre = None
    return {'pre': pre, 'W': W, 'R': _other_than(R, W) if cross and cr else None}


S_PLAN = unit_plans(True)
S_PLAN_NOCROSS = unit_plans(False)


def apply_units(uc, cfg):
    if cfg['kind'] == 'named':
        uc.reset_units(**cfg['units'])
    elif cfg['kind'] == 'seed':
        uc.reset_units(seed=int(cfg['seed']))
    else:
        uc.reset_units(seed='SI')


def restore_units(uc):
    uc.reset_units(length='angstrom', mass='amu', energy='eV', charge='e')


def unit_factors():
    """size in the CURRENT working units of the angstrom / ps / amu / eV / e unit of every quantity the snapshots carry"""
    import numericalunits as nu
    L, M, T, E, Q = nu.angstrom, nu.amu, nu.ps, nu.eV, nu.e
    return {'length': L, 'mass': M, 'velocity': L / T, 'force': E / L, 'charge': Q, 'torque': E, 'dipole': Q * L,
            'density': M / L ** 3, 'volume': L ** 3, 'ang-mom': M * L * L / T, 'ang-vel': 1.0 / T}


def own_unit_size(u):
    """size in the CURRENT working units of the unit strings the column descriptions use (own arithmetic on numericalunits
    attributes); None for a string not in the table"""
    import numericalunits as nu
    t = {'nm': nu.nm, 'angstrom': nu.angstrom, 'pm': nu.pm, 'm/s': nu.m / nu.s, 'angstrom/ps': nu.angstrom / nu.ps,
         'eV/angstrom': nu.eV / nu.angstrom, 'nN': nu.nN, 'e': nu.e, 'amu': nu.amu, 'g/mol': nu.g / nu.mol, 'eV': nu.eV,
         'kcal/mol': nu.kcal / nu.mol, 'e*angstrom': nu.e * nu.angstrom, 'GPa': nu.GPa, 'mJ/m^2': nu.mJ / nu.m ** 2}
    return t.get(u)


def physical(raw, rescale=None):
    """the snapshot `raw` (angstrom / ps / amu / eV / e numbers) as the same physical system in the current working units;
    rescale: {name: factor} for dimensionless-by-declaration properties that a file carries in an explicit unit"""
    f = unit_factors()
    L = f['length']
    S = dict(raw)
    S['V'], S['o'], S['pos'] = raw['V'] * L, raw['o'] * L, raw['pos'] * L
    props = {}
    for k, v in raw['props'].items():
        m = raw['meta'][k]
        if m['dtype'] == 'f' and m['q'] is not None:
            v = v * f[m['q']]
        elif m['dtype'] == 'f' and rescale and k in rescale:
            v = v * rescale[k]
        props[k] = v
    S['props'] = props
    S['raw'] = raw
    return S


# ============================================================================= generator classes carried over (round 5)
# Eight generator classes that caught seeded regressions in other properties (see the module docstring of checks/c08.py).  The
# ones that change the SYSTEM are drawn as one fixed-size byte string (cheap; Hypothesis fills the tail of about half of its
# examples with zero bytes, so an all-zero string decodes to "nothing", and the rates below are about twice the wanted shares)
# and decoded by ``decode_x`` into a readable dict x:
#   x['cell']  None | {'kind': 'tiny', 't': [[mode, exponent, sign] * 3]}   almost orthogonal: tilt / length = +-10**[-12,-3]
#                   | {'kind': 'sym', 'form': .., 'p': .., 's': .., 'eq': .., 'centre': ..}   exactly structured cell
#   x['near']  None | [[atom, axis, base, exponent, sign] ...]     atoms 10**[-12,-3] (box-relative) off a face / the centre
#   x['vals']  None | {'mode': 'decades', 'k0': ..} | {'mode': 'near', 'e': .., 'k0': ..}   values of the float properties
#   x['posdec'] bool   rows of relative coordinates scaled by 10**-k (table / dump file only)
#   x['store'] None | [byte * 8]   storage dtype + memory layout of pos, atype and each property (see ``stored``)
#   x['dt']    None | [byte * 6]   loader-side dtype entries of explicitly described columns (see ``dtype_token``)
#   x['post']  [..]  what the caller does after the judged dump + load ('sin', 'sout', 'redump', 'other'; see checks/c08.py)
# ``apply_x`` puts cell / near / vals / posdec into the system dict (so the case shows the final numbers); store, dt and post
# are interpreted by the oracle.
XLEN = 28
CLEAN_RUNG = 1e-9
SYM_FORMS_ANY = ('perm', 'perm', 'upper', 'lower', 'cyclic', 'perm')
_NEAR_BASES = (0.0, 1.0, 0.5, 0.0, 1.0, -1.0, 2.0, 1.0)
POST_OPS = ('sin', 'sout', 'redump', 'other')


def decode_x(b):
    b = list(b)
    x = {'cell': None, 'near': None, 'vals': None, 'posdec': False, 'store': None, 'dt': None, 'post': []}
    c = b[0]
    if 1 <= c < 72:
        t = []
        for i in range(3):
            v = b[1 + i]
            t.append([(0, 1, 2, 2, 2)[v % 5], -12.0 + 9.0 * ((v * 37 + c) % 256) / 255.0, 1.0 if (v >> 3) & 1 else -1.0])
        x['cell'] = {'kind': 'tiny', 't': t}
    elif 72 <= c < 128:
        x['cell'] = {'kind': 'sym', 'form': c % 6, 'p': b[1] % 6, 's': b[2] % 8, 'eq': b[3] % 4 == 1, 'centre': b[3] % 3 == 1,
                     'half': b[3] % 8}
    if 1 <= b[4] < 72:
        x['near'] = [[b[5 + 2 * i], b[6 + 2 * i] % 3, _NEAR_BASES[(b[6 + 2 * i] >> 2) % 8],
                      -12.0 + 9.0 * ((b[5 + 2 * i] * 53 + b[4]) % 256) / 255.0, 1.0 if b[6 + 2 * i] & 128 else -1.0]
                     for i in range(1 + b[4] % 3)]
    v = b[11]
    if 1 <= v < 56:
        x['vals'] = {'mode': 'decades', 'k0': b[12] % 17}
    elif 56 <= v < 96:
        x['vals'] = {'mode': 'near', 'e': -12.0 + 9.0 * b[12] / 255.0, 'k0': b[12] % 5}
    x['posdec'] = 96 <= v < 128
    if 1 <= b[13] < 112:
        x['store'] = [int(q) for q in b[14:22]]
    if 1 <= b[22] < 128:
        x['dt'] = [int(q) for q in b[23:27]] + [int(b[22]), int(b[23] ^ 0x5a)]
    p = b[27]
    x['post'] = [op for k, op in enumerate(POST_OPS) if (p >> (2 * k)) & 3 == 1 or (p >> (2 * k)) & 3 == 2 and k != 3]
    return x


S_X = st.binary(min_size=XLEN, max_size=XLEN).map(decode_x)
X_NONE = decode_x(bytes(XLEN))


def _tiny_cell(c, t):
    """tilt factors that are tiny but not zero: per factor (mode, exponent, sign); mode 0 keeps the cell's value, 1 sets zero,
    2 sets sign * 10**exponent * length; at least one factor is made tiny; ratios within 10 % of the rung of Box's documented
    clean-up (components up to 1e-9 of the largest are zeroed) are moved off it"""
    c = dict(c)
    t = [list(q) for q in t]
    if not any(q[0] == 2 for q in t):
        t[int(abs(t[0][1]) * 7) % 3][0] = 2
    for key, lk, (mode, ex, sg) in zip(('xy', 'xz', 'yz'), ('lx', 'lx', 'ly'), t):
        if mode == 1:
            c[key] = 0.0
        elif mode == 2:
            c[key] = sg * 10.0 ** ex * c[lk]
    vmax = max(abs(c[k]) for k in ('lx', 'ly', 'lz', 'xy', 'xz', 'yz'))
    for key in ('xy', 'xz', 'yz'):
        r = abs(c[key]) / vmax
        if 0.9 * CLEAN_RUNG < r < 1.1 * CLEAN_RUNG:
            c[key] = c[key] * 2.0
    c['tiny'] = True
    return c


_PERMS3 = ((0, 1, 2), (1, 2, 0), (2, 0, 1), (0, 2, 1), (2, 1, 0), (1, 0, 2))


def _sym_cell(c, sx, lammps):
    """exactly structured cell from the lengths of `c`: LAMMPS formats keep the lower-triangular form with positive diagonal
    and get tilts that are exact halves / negatives / sums that cancel; the other formats also get signed permutations of the
    axes, upper-triangular cells with negative entries and cyclically relabelled triangular cells (all entries exact)"""
    lx, ly, lz = (float(round(c[k] * 8) / 8) or 0.5 for k in ('lx', 'ly', 'lz'))     # multiples of 1/8
    if sx['eq']:
        ly = lz = lx
    h = sx['half']
    sg = [1.0 if (sx['s'] >> k) & 1 else -1.0 for k in range(3)]
    # tilts: exact halves of the lengths with signs; h picks which vanish / cancel (xy + xz == 0 exactly for h == 1)
    xy, xz, yz = sg[0] * lx / 2, sg[1] * lx / 2, sg[2] * ly / 2
    if h == 1:
        xz = -xy
    elif h == 2:
        xz = 0.0
    elif h == 3:
        xy = 0.0
    elif h == 4:
        yz = 0.0
    elif h == 5:
        xy = sg[0] * lx                      # a tilt of a whole box length
    elif h == 6:
        xy = xz = yz = 0.0
    L = np.array([[lx, 0.0, 0.0], [xy, ly, 0.0], [xz, yz, lz]])
    form = 'lower' if lammps else SYM_FORMS_ANY[sx['form']]
    if form == 'lower':
        V = L
    elif form == 'upper':
        V = L.T * np.array(sg)[:, None]                      # upper triangular, vectors reversed by the signs
    elif form == 'cyclic':
        p = _PERMS3[sx['p'] % 3]
        V = L[list(p)][:, list(p)]                           # the same cell with the axes AND the vectors relabelled cyclically
    else:
        p = _PERMS3[sx['p']]
        V = (np.diag([lx, ly, lz])[list(p)] if h % 2 else L[:, list(p)]) * np.array(sg)[:, None]
    V = V + 0.0
    o = np.array(c['origin'], dtype=float)
    if sx['centre']:
        o = -(V.sum(axis=0)) / 2                              # cell centred on the Cartesian origin (exact halves)
    c2 = {'lx': lx, 'ly': ly, 'lz': lz, 'xy': float(L[1, 0]), 'xz': float(L[2, 0]), 'yz': float(L[2, 1]),
          'origin': [float(q) for q in o], 'rot': None, 'lefthanded': False, 'V': V.tolist(), 'sym': form}
    return c2


def apply_x(sysd, x, lammps, posdec_ok=False):
    """the system dict with the cell / near-face / value classes of x put in (a new dict; nothing else is touched)"""
    if x['cell'] is None and x['near'] is None and x['vals'] is None and not (x['posdec'] and posdec_ok):
        return sysd
    sysd = dict(sysd)
    cx = x['cell']
    if cx is not None:
        if cx['kind'] == 'tiny':
            sysd['cell'] = _tiny_cell(sysd['cell'], cx['t'])
        else:
            sysd['cell'] = _sym_cell(sysd['cell'], cx, lammps)
    n = len(sysd['rel'])
    rel = [list(r) for r in sysd['rel']]
    if x['posdec'] and posdec_ok:
        # rows of relative coordinates over many decades (judged per element with the exponent formats)
        for i in range(n):
            k = (3 * i + 1) % 9
            rel[i] = [float('%.4e' % (q * 10.0 ** -k)) for q in rel[i]]
        sysd['posdec'] = True
    if x['near'] is not None:
        for a, ax, base, ex, sg in x['near']:
            rel[a % n][ax] = base + sg * 10.0 ** ex
        sysd['near'] = True
    sysd['rel'] = rel
    vx = x['vals']
    if vx is not None:
        props = []
        j = 0
        for p in sysd['props']:
            if p['dtype'] != 'f':
                props.append(p)
                continue
            a = np.array(p['values'], dtype=float)
            flat = a.reshape(-1).copy()
            positive = p['q'] in ('mass', 'density', 'volume', 'length')
            if vx['mode'] == 'decades':
                for i in range(len(flat)):
                    m = abs(flat[i]) or 1.0
                    m = m / 10.0 ** np.floor(np.log10(m))
                    k = (vx['k0'] + 5 * (i + j)) % 17 - 8
                    flat[i] = float('%.4e' % ((1.0 if positive or flat[i] >= 0 else -1.0) * m * 10.0 ** k))
            else:
                for i in range(len(flat)):
                    w = (i + j + vx['k0']) % 5
                    d = 10.0 ** (vx['e'] + ((i * 7) % 5) * 0.37)
                    if w == 0:
                        flat[i] = (round(flat[i]) or 1.0) + (d if positive or i % 2 else -d)      # almost an integer
                    elif w == 1:
                        flat[i] = d if positive or i % 2 else -d                                   # almost zero
                    elif w == 2:
                        flat[i] = float(round(flat[i])) or (1.0 if positive else 0.0)              # integer-valued float
            j += len(flat)
            props.append(dict(p, values=flat.reshape(a.shape).tolist()))
        sysd['props'] = props
        sysd['vals'] = vx['mode']
    return sysd


def x_labels(sysd):
    labs = set()
    c = sysd['cell']
    if c.get('tiny'):
        labs.add('tiny_tilt')
        vmax = max(abs(c[k]) for k in ('lx', 'ly', 'lz', 'xy', 'xz', 'yz'))
        r = [abs(c[k]) / vmax for k in ('xy', 'xz', 'yz') if c[k]]
        r = [q for q in r if q < 2e-3]
        if any(q <= CLEAN_RUNG for q in r):
            labs.add('tiny_cleaned')
        if any(CLEAN_RUNG < q <= 1e-6 for q in r):
            labs.add('tiny_1e-9_1e-6')
        if any(q > 1e-6 for q in r):
            labs.add('tiny_1e-6_1e-3')
    if c.get('sym'):
        labs.add('sym')
        labs.add('sym_' + c['sym'])
    if sysd.get('near'):
        labs.add('near_face')
    if sysd.get('posdec'):
        labs.add('pos_decades')
    if sysd.get('vals'):
        labs.add('vals_' + sysd['vals'])
    return labs


def cell_labels(c):
    """gens.cell_labels for the cell dicts of this module (an explicit 'V' wins)"""
    if 'V' not in c:
        return gens.cell_labels(c)
    V = np.array(c['V'], dtype=float)
    labs = set()
    if (V != np.diag(np.diag(V))).any() and np.count_nonzero(V) > 3:
        labs.add('tilted')
    if (np.triu(V, 1) != 0).any() or (np.diag(V) <= 0).any():
        labs.add('rotated')                  # not in the LAMMPS orientation
    if any(c['origin']):
        labs.add('origin')
    if np.linalg.det(V) < 0:
        labs.add('lefthanded')
    return labs


# ----------------------------------------------------------------------------- storage dtypes and memory layouts
_ST_POS = ('f8', 'f8', 'f4', '>f8', 'f8', 'f4')
_ST_ATYPE = ('i8', 'i1', 'u1', 'i2', '>i4', 'u8', 'i4', 'u2')
_ST_FLOAT = ('f8', 'f4', 'f2', '>f8', '>f4', 'f4', 'f2', 'f8')
_ST_INT = ('i8', 'i1', 'i2', 'u1', 'u2', '>i4', 'i4', '?', '>i2', 'u4', 'i1', 'u1')
_LAYOUTS = ('copy', 'list', 'F', 'strided', 'readonly', 'copy', 'tuple', 'strided')
BOOL_OK = ('flag', 'pair', 'n1', 'p21')


def _fits(a, dt):
    """is every value of the float64 / int64 array `a` exactly representable in dtype dt?"""
    with np.errstate(all='ignore'):
        b = a.astype(dt)
        return bool(np.all(np.isfinite(b.astype(float))) and np.array_equal(b.astype(a.dtype), a))


def stored(S, store, narrow_float=True, limits=True, readonly=True):
    """the snapshot as it is STORED in the system: per array a storage dtype and a memory layout (S['store'] = {name: [dtype,
    layout]}, used by make_system).  Float arrays given a narrow dtype are rounded to it first (the rounded numbers ARE the
    system: exactly representable values by construction; float16 only inside its normal range); integer arrays get the
    narrowest offered dtype that holds them and, for `limits`, the dtype's extreme values in their first / last entry."""
    if store is None:
        return S
    S = dict(S)
    S['props'] = dict(S['props'])
    st_ = {}
    changed = False
    n = len(S['pos'])

    def layout(b, rank2):
        lay = _LAYOUTS[(b >> 4) % 8]
        if lay == 'readonly' and not readonly:
            lay = 'copy'
        if lay == 'F' and not rank2:
            lay = 'copy'
        return lay

    def narrow(a, dt):
        with np.errstate(all='ignore'):
            r = a.astype(dt).astype(float)
        nz = r[a != 0]
        tiny = np.finfo(np.dtype(dt).newbyteorder('=')).tiny
        if not np.all(np.isfinite(r)) or (nz.size and np.abs(nz).min() < tiny) or np.any((r == 0) != (a == 0)):
            return None
        return r

    b = store[0]
    dt = _ST_POS[b % len(_ST_POS)]
    if dt == 'f4' and narrow_float:
        r = narrow(S['pos'], 'f4')
        if r is not None:
            S['pos'] = r
            S['s'] = (r - S['o']) @ np.linalg.inv(S['V'])
            changed = True
        else:
            dt = 'f8'
    elif dt == 'f4':
        dt = 'f8'
    st_['pos'] = [dt, layout(b, True)]
    b = store[1]
    dt = _ST_ATYPE[b % len(_ST_ATYPE)]
    st_['atype'] = [dt, layout(b, False)]
    for j, (k, v) in enumerate(S['props'].items()):
        b = store[2 + j % 6]
        meta = S['meta'][k]
        if meta['dtype'] == 'f':
            dt = _ST_FLOAT[b % len(_ST_FLOAT)]
            if dt[-2:] in ('f4', 'f2'):
                r = narrow(v, dt) if narrow_float else None
                if r is None and dt[-2:] == 'f2' and narrow_float:
                    dt = 'f4'
                    r = narrow(v, dt)
                if r is None:
                    dt = 'f8'
                else:
                    S['props'][k] = v = r
                    changed = True
        else:
            dt = _ST_INT[b % len(_ST_INT)]
            if dt == '?' and k not in BOOL_OK:
                dt = 'i1'
            if dt == '?':
                S['props'][k] = v = v % 2
                changed = True
            else:
                info = np.iinfo(np.dtype(dt))
                if limits and (b >> 7) and n >= 2 and k != 'atom_id':
                    v = v.copy()
                    v.reshape(n, -1)[0, 0] = info.max
                    v.reshape(n, -1)[-1, -1] = info.min
                    S['props'][k] = v
                    changed = True
                elif limits and (b >> 7) and k == 'atom_id' and info.max > v.max():
                    v = v.copy()
                    v[int(np.argmax(v))] = info.max
                    S['props'][k] = v
                    changed = True
                if v.min() < info.min or v.max() > info.max:
                    dt = 'i8'
        st_[k] = [dt, layout(b, v.ndim >= 2)]
    S['store'] = st_
    S['restored'] = changed           # the stored numbers are no longer the raw numbers times the unit factors (see rescaled)
    return S


def rescaled(S, f0, f1, rescale=None):
    """the snapshot S, expressed under the working units with factors f0 (unit_factors()), as the same physical system under
    the working units with factors f1 (used instead of physical(raw) when the stored numbers were rounded to a storage dtype)"""
    rL = f1['length'] / f0['length']
    S2 = dict(S)
    S2['V'], S2['o'], S2['pos'] = S['V'] * rL, S['o'] * rL, S['pos'] * rL
    props = {}
    for k, v in S['props'].items():
        m = S['meta'][k]
        if m['dtype'] == 'f' and m['q'] is not None:
            v = v * (f1[m['q']] / f0[m['q']])
        elif m['dtype'] == 'f' and rescale and k in rescale:
            v = v * rescale[k]
        props[k] = v
    S2['props'] = props
    return S2


def _formed(a, dt, lay):
    """the array `a` (float64 / int64) in storage dtype dt and memory layout lay; falls back to the plain array when a value
    is not exactly representable (nothing is ever rounded here)"""
    if dt not in ('f8', 'i8') and _fits(a, dt):
        a = a.astype(dt)
    else:
        a = a.copy()
    if lay == 'list':
        return a.tolist()
    if lay == 'tuple':
        return tuple(a.tolist())
    if lay == 'F' and a.ndim >= 2:
        return np.asfortranarray(a)
    if lay == 'strided':
        big = np.zeros((a.shape[0],) + tuple(2 * d for d in a.shape[1:]) if a.ndim >= 2 else (2 * a.shape[0],), dtype=a.dtype)
        view = big[(slice(None),) + tuple(slice(None, None, 2) for _ in a.shape[1:])] if a.ndim >= 2 else big[::2]
        view[...] = a
        return view
    if lay == 'readonly':
        a.setflags(write=False)
    return a


def store_labels(S):
    labs = set()
    st_ = S.get('store')
    if not st_:
        return labs
    labs.add('store')
    for k, (dt, lay) in st_.items():
        if dt[-2:] in ('f4', 'f2'):
            labs.add('store_narrow_float')
            if k == 'pos':
                labs.add('store_pos_f4')
        elif dt == '?':
            labs.add('store_bool')
        elif dt[0] == '>':
            labs.add('store_bigendian')
        elif dt[0] == 'u':
            labs.add('store_unsigned')
        elif dt in ('i1', 'i2', 'i4'):
            labs.add('store_narrow_int')
        if lay in ('F', 'strided'):
            labs.add('store_strided')
        elif lay == 'readonly':
            labs.add('store_readonly')
        elif lay in ('list', 'tuple'):
            labs.add('store_list')
    return labs


# loader-side dtype entries of explicitly described columns: how the docstrings let a data type be "explicitly given"
_DT_FLOAT = (None, 'float32', 'float64', '<f8', 'py:float', 'np:float32', 'f4', 'np:float64')
_DT_INT = (None, 'int32', 'int16', 'int64', 'py:int', 'np:int32', '<i8', 'uint16', 'int8', 'np:int64')


def dtype_token(byte, kind, lo, hi):
    """(what is handed to atomman, the numpy dtype it means) for one column; None = keep the entry the case already has"""
    name = (_DT_FLOAT if kind == 'f' else _DT_INT)[byte % (len(_DT_FLOAT) if kind == 'f' else len(_DT_INT))]
    if name is None:
        return None
    if name.startswith('py:'):
        t = float if name == 'py:float' else int
        return t, np.dtype(t)
    dt = np.dtype(name[3:] if name.startswith('np:') else name)
    if dt.kind in 'iu':
        info = np.iinfo(dt)
        if lo < info.min or hi > info.max:
            return None
    return (dt if name.startswith('np:') else name), dt
