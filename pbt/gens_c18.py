"""Strategies for C18 (gamma surfaces, Peierls-Nabarro profiles).  Everything produced is JSON-able.

Surface case
  {'box': None | {'family','abc':[a,b,c,al,be,ga],'rot': None|[axis,angle]},
   'a1vect': [3 | 4 numbers], 'a2vect': [...], 'a1v3': [3], 'a2v3': [3]       (3-index form kept for the oracle)
   'n1','n2', 'dup': bool, 'shuffle': int|None, 'kind': 'fourier'|'random', 'E': n1 x n2 table, 'D': table|None,
   'lk': k, 'ej': j}

Scales.  Every case carries an overall length scale 10^lk (k = 0 in about 40 % of the cases, otherwise -12..+4: the
cell edges / Cartesian shift vectors, positions, x grids, disregistries, Burgers vectors, plane separations are
multiplied by it when the oracle builds the objects - 1e-10 is a cell given in metres, atomman's SI working units) and an
independent energy-per-area scale 10^ej (j = 0 in about 40 %, otherwise -8..+8: E_gsf values; K_tensor and tau by
10^(j-k), beta by 10^j, alpha by 10^(j-2k)).  The tables, lengths ... in the case stay the unscaled ones.
"""
import functools
import math

import numpy as np
from hypothesis import strategies as st

from . import gens

_bool = st.booleans()
_seed = st.integers(0, 2 ** 31 - 1)
_ivec = st.lists(st.integers(-2, 2), min_size=3, max_size=3)
_boxkind = st.sampled_from(['none', 'none', 'cubic', 'hexagonal', 'orthorhombic', 'any', 'any'])
_n_grid = st.integers(4, 15)
_n_small = st.integers(4, 9)
_kind = st.sampled_from(['fourier', 'random'])
_escale = st.sampled_from([1.0, 1.0, 0.05, 20.0])
_theta = st.one_of(st.just(90.0), gens.nice(40.0, 140.0, 2))
_len = gens.nice(1.5, 8.0, 3)
_rot = gens.rotations(min_angle=1.0)
_sym_beta = gens.sym3(0.5)
# exponents of the length scale and of the energy-per-area scale (0 first: shrinks to the unscaled problem)
_lk = st.sampled_from([0] * 12 + [-12, -11, -10, -10, -10, -9, -8, -7, -6, -5, -4, -3, -2, -1, 1, 2, 3, 4])
_ej = st.sampled_from([0] * 11 + [-8, -7, -6, -5, -4, -3, -2, -1, 1, 2, 3, 4, 5, 6, 7, 8])
# Cartesian shift vectors: generic, exactly structured, near a special case (see surfaces)
_shape = st.sampled_from(['gen'] * 4 + ['sym'] * 3 + ['near'] * 3)
_near_k = st.integers(3, 12)
_sign = st.sampled_from([1.0, -1.0])
# solve: the minimisers of scipy.optimize take trial steps of absolute size 1 (Powell's line search bracket, the initial
# simplex of Nelder-Mead), i.e. 10^-k Burgers vectors - GammaSurface wraps a fractional coordinate by subtracting 1 in a
# loop, so that cells of numerically small size make one energy evaluation take hours (speed is not part of the property);
# k = -2 still runs at the usual speed
_lk_solve = st.sampled_from([0] * 4 + [-2, -2, -1, 1, 2, 2])


def pow10(k):
    """10^k as the correctly rounded decimal literal (exactly 1.0 for k = 0 / None)"""
    return float('1e%d' % int(k or 0))


def int_scale(k):
    """length-scale exponent for a case that hands over whole numbers integer-typed: whole numbers of the scaled
    quantities exist only for 10^k >= 1.  Odd negative exponents are mirrored; the even ones (among them -10, metres)
    stay: the integer forms then degrade to float arrays for the scaled quantities (fractional coordinates stay whole)"""
    return min(4, -k) if (k < 0 and k % 2) else k


def box_vects(bx, scale=1.0):
    """row-vector matrix of a box description (identity for None: Cartesian shift vectors carry the length scale
    themselves), edge lengths multiplied by scale"""
    if bx is None:
        return np.eye(3)
    a, b, c, al, be, ga = bx['abc']
    lx, ly, lz, xy, xz, yz = gens.abc_to_lammps(a * scale, b * scale, c * scale, al, be, ga)
    V = np.array([[lx, 0.0, 0.0], [xy, ly, 0.0], [xz, yz, lz]])
    if bx.get('rot'):
        V = V @ gens.rotation_matrix(*bx['rot']).T
    return V


def _well_conditioned(A1, A2):
    l1, l2 = np.linalg.norm(A1), np.linalg.norm(A2)
    if l1 < 1e-6 or l2 < 1e-6:
        return False
    s = np.linalg.norm(np.cross(A1, A2)) / (l1 * l2)
    return s >= 0.3 and max(l1, l2) / min(l1, l2) <= 5.0


def table(seed, n1, n2, kind, scale):
    """n1 x n2 table of periodic samples: low-order Fourier sum or independent random values (6 decimals)"""
    rng = np.random.default_rng(seed)
    if kind == 'random':
        T = rng.uniform(0.0, 1.0, (n1, n2))
    else:
        i = np.arange(n1)[:, None] / n1
        j = np.arange(n2)[None, :] / n2
        T = np.full((n1, n2), 1.0)
        for _ in range(3):
            p, q = rng.integers(-2, 3, 2)
            T = T + rng.uniform(0.1, 0.5) * np.cos(2 * np.pi * (p * i + q * j) + rng.uniform(0, 2 * np.pi))
    return [[round(float(scale * T[a, b]), 6) for b in range(n2)] for a in range(n1)]


@st.composite
def surfaces(draw, small=False):
    kind = draw(_boxkind)
    rot = draw(_rot) if draw(_bool) else None
    shape = 'gen'
    if kind == 'none':
        bx = None
        th = math.radians(draw(_theta))
        l1, l2 = draw(_len), draw(_len)
        if not (l1 / l2 <= 5.0 and l2 / l1 <= 5.0):
            l2 = l1
        # shape of the pair: generic | exactly structured ('sym': signed axis directions s1*l1*e_i, s2*l2*e_j, no rotation -
        # the inputs an "already in normal form" shortcut would take) | near a special case ('near': the angle 10^-k degrees
        # off a right angle and / or the lengths 10^-k (relative) off equality, k = 3..12; never rounded)
        shape = draw(_shape)
        nk = [draw(_near_k), draw(_near_k), draw(_bool), draw(_bool), draw(st.integers(0, 2))]
        sg = [draw(_sign), draw(_sign)]
        if shape == 'sym':
            th = math.radians(90.0)
            rot = None
        elif shape == 'near':
            if nk[4] != 1:
                th = math.radians(90.0 + (1.0 if nk[2] else -1.0) * 10.0 ** (-nk[0]))
            if nk[4] != 0:
                l2 = l1 * (1.0 + (1.0 if nk[3] else -1.0) * 10.0 ** (-nk[1]))
        A1 = np.array([l1, 0.0, 0.0])
        A2 = np.array([l2 * math.cos(th), l2 * math.sin(th), 0.0])
        if shape == 'sym':
            A1, A2 = np.array([sg[0] * l1, 0.0, 0.0]), np.array([0.0, sg[1] * l2, 0.0])
        P = draw(st.sampled_from([[0, 1, 2], [2, 0, 1], [1, 2, 0], [0, 2, 1]]))      # which Cartesian plane
        A1, A2 = A1[P], A2[P]
        if rot:
            R = gens.rotation_matrix(*rot)
            A1, A2 = R @ A1, R @ A2
        if shape == 'near':
            a1 = [float(t) for t in A1]
            a2 = [float(t) for t in A2]
        else:
            a1 = [round(float(t), 6) + 0.0 for t in A1]
            a2 = [round(float(t), 6) + 0.0 for t in A2]
        a1v, a2v = a1, a2
    else:
        fam = kind if kind != 'any' else None
        fp = draw(gens.family_params(fam))
        bx = {'family': fp['family'], 'abc': fp['abc'], 'rot': rot}
        V = box_vects(bx)
        for _ in range(8):
            a1, a2 = draw(_ivec), draw(_ivec)
            if _well_conditioned(np.array(a1, float) @ V, np.array(a2, float) @ V):
                break
        else:
            a1, a2 = [1, 0, 0], [0, 1, 0]
            if not _well_conditioned(np.array(a1, float) @ V, np.array(a2, float) @ V):
                a1, a2 = [1, 0, 0], [0, 0, 1]
        half = draw(st.integers(0, 3)) == 0                      # half-integer partial shift vectors
        a1 = [float(t) / (2.0 if half else 1.0) for t in a1]
        a2 = [float(t) for t in a2]
        a1v, a2v = a1, a2
        if bx['family'] == 'hexagonal' and draw(_bool):
            # Miller-Bravais [UVTW] of [uvw]: U=(2u-v)/3, V=(2v-u)/3, T=-(u+v)/3, W=w
            def four(v):
                u_, v_, w_ = v
                return [(2 * u_ - v_) / 3.0, (2 * v_ - u_) / 3.0, -(u_ + v_) / 3.0, w_]
            a1v, a2v = four(a1), four(a2)
    n1 = draw(_n_small if small else _n_grid)
    n2 = draw(_n_small if small else _n_grid)
    knd = draw(_kind)
    sc = draw(_escale)
    E = table(draw(_seed), n1, n2, knd, sc)
    D = table(draw(_seed), n1, n2, 'fourier', 0.3) if draw(_bool) else None
    return {'box': bx, 'a1vect': a1v, 'a2vect': a2v, 'a1v3': a1, 'a2v3': a2, 'n1': n1, 'n2': n2,
            'dup': draw(_bool), 'shuffle': draw(_seed) if draw(_bool) else None, 'kind': knd, 'E': E, 'D': D,
            'lk': draw(_lk), 'ej': draw(_ej), 'shape': shape}


_coord = st.one_of(gens.nice(-3.0, 3.0, 4), gens.nice(0.0, 1.0, 4))
_npts = st.sampled_from([1, 2, 3, 3, 7])
_kint = st.integers(-3, 3)
# order of the interpolation modes queried on the one object (the first entry is the historical order)
_modes = st.sampled_from([[True, False], [True, False], [False, True], [False, True, False], [True, False, True, False]])


@st.composite
def queries(draw, n=None):
    n = draw(_npts) if n is None else n
    return [[draw(_coord), draw(_coord)] for _ in range(n)]


# ---- object history of a GammaSurface: other data loaded into the existing object (set / model), queried again
_route = st.sampled_from(['set', 'set', 'model_str', 'model_dm', 'model_file'])
_small_surfaces = surfaces(small=True)


@st.composite
def reload_history(draw):
    """None (half of the cases) or: load a second surface into the same object, optionally load the first one back"""
    if draw(_bool):
        return None
    return {'surf2': draw(_small_surfaces), 'route': draw(_route), 'back': draw(_bool), 'back_route': draw(_route)}


_qstep = st.fixed_dictionaries({'smooth': _bool,
                                'reload': st.sampled_from([None, None, 'self_set', 'self_model', 'swap_set', 'swap_model'])})


@st.composite
def query_history(draw):
    """None (half of the cases) or 1-3 further rounds of the same queries on the same object: other interpolation mode,
    the held data loaded again (set / model), the other surface loaded into the object (and back on the next swap)"""
    if draw(_bool):
        return None
    seq = draw(st.lists(_qstep, min_size=1, max_size=3))
    s2 = draw(_small_surfaces) if any((t['reload'] or '').startswith('swap') for t in seq) else None
    return {'seq': seq, 'surf2': s2}


# ---- near-threshold and exactly structured query coordinates: a special value of the fractional coordinate (an integer
# line, a sample i/n, the mid-line (i+1/2)/n between two samples where the nearest mode switches, the ends +-1/(2n) and
# 1-1/(2n) of the zone in which the smooth mode blends across the cell edge, a half-integer) exactly ('exact') or 10^-k
# beside it, k = 3..12 (the oracles exempt a band of 1e-9 .. 1e-7 around the lines where the answer is discontinuous)
_base_kind = st.sampled_from(['int', 'sample', 'mid', 'blend', 'half'])
_near_eps = st.sampled_from([0, 0, 3, 4, 5, 6, 6, 7, 8, 9, 10, 11, 12])


def special_coord(kind, i, n, k, sign):
    if kind == 'int':
        b = float(i % 7 - 3)
    elif kind == 'sample':
        b = float(i % 7 - 3) + (i % n) / n
    elif kind == 'mid':
        b = float(i % 5 - 2) + ((i % n) + 0.5) / n
    elif kind == 'blend':
        b = float(i % 5 - 2) + (0.5 / n, -0.5 / n, 1.0 - 0.5 / n)[i % 3]
    else:
        b = (i % 13 - 6) / 2.0
    return b + (sign * 10.0 ** (-k) if k else 0.0)


@st.composite
def special_queries(draw, n1, n2, n=None):
    n = draw(_npts) if n is None else n
    out = []
    for _ in range(n):
        out.append([special_coord(draw(_base_kind), draw(_seed), n1, draw(_near_eps), draw(_sign)),
                    special_coord(draw(_base_kind), draw(_seed), n2, draw(_near_eps), draw(_sign))])
    return out


_qkind = st.sampled_from(['plain', 'plain', 'plain', 'special', 'special'])


@functools.lru_cache(maxsize=None)
def _special(n1, n2, n=None):
    return special_queries(n1, n2, n)


# ---- working-unit configurations (atomman.unitconvert.reset_units sets PROCESS-GLOBAL working units).  A configuration is
#     {'kind': 'named', 'units': {...}} | {'kind': 'seed', 'seed': n} | {'kind': 'SI'};  a unit plan of a case is None (the
# process is left in the default units angstrom / amu / eV / e) or {'pre': bool, 'W': cfg}: the case is judged under W - the
# PHYSICAL system (angstrom, eV/angstrom^2 numbers times the 10^k scales) expressed in the working units by my own products
# of numericalunits attributes - after, when pre is set, the same case was run and judged under the default units in the
# same process (anything remembered from the first use of a unit shows).  Named choices always contain a length unit and
# never all of length + mass + time + energy (what reset_units does with the other combinations is C09's subject).
DEFAULT_UNITS = {'length': 'angstrom', 'mass': 'amu', 'energy': 'eV', 'charge': 'e'}
_NAMED = {'length': ['nm', 'nm', 'pm', 'm', 'cm', 'um', 'angstrom'], 'mass': ['kg', 'g', 'amu'],
          'time': ['ns', 'ps', 'fs', 's'], 'energy': ['J', 'eV', 'mJ'], 'charge': ['C', 'e']}
_SUBSETS = [('length',), ('length', 'time'), ('length', 'mass'), ('length', 'energy'), ('length', 'energy'), ('length', 'charge'),
            ('length', 'mass', 'time'), ('length', 'mass', 'energy'), ('length', 'time', 'energy'),
            ('length', 'mass', 'time', 'charge'), ('length', 'mass', 'energy', 'charge'), ('length', 'time', 'energy', 'charge')]
_S_SUBSET = st.sampled_from(_SUBSETS)
_S_Q = {q: st.sampled_from(v) for q, v in _NAMED.items()}
_S_KIND = st.sampled_from(['named', 'named', 'named', 'named', 'seed', 'seed', 'SI'])
_QS = ('length', 'mass', 'time', 'energy', 'charge')
_plan_on = st.sampled_from([False, False, True, False])
_plan_on_half = st.sampled_from([False, True])


@st.composite
def unit_plans(draw, half=False):
    """None (three quarters of the cases; half of them with half=True) or a plan; always the same number of draws"""
    on, kind, sub, seed, pre = draw(_plan_on_half if half else _plan_on), draw(_S_KIND), draw(_S_SUBSET), draw(_seed), draw(_bool)
    picks = {q: draw(_S_Q[q]) for q in _QS}
    if not on:
        return None
    if kind == 'named':
        W = {'kind': 'named', 'units': {q: picks[q] for q in sub}}
        if W['units'] == {'length': 'angstrom'}:
            W['units'] = {'length': 'nm'}
    elif kind == 'seed':
        W = {'kind': 'seed', 'seed': seed}
    else:
        W = {'kind': 'SI'}
    return {'pre': pre, 'W': W}


S_PLAN = unit_plans()
S_PLAN_HALF = unit_plans(True)       # (PN cases: the integer-typed forms, 40 % of them, cancel the plan)


def apply_units(uc, cfg):
    if cfg['kind'] == 'named':
        uc.reset_units(**cfg['units'])
    elif cfg['kind'] == 'seed':
        uc.reset_units(seed=int(cfg['seed']))
    else:
        uc.reset_units(seed='SI')


def restore_units(uc):
    uc.reset_units(length='angstrom', mass='amu', energy='eV', charge='e')


# ---- storage / input dtypes ('nd:<dtype>': the values as an ndarray of that dtype when every value is exactly
# representable in it, otherwise widened f2 -> f4 -> f8, i1 -> i2 -> i4 -> i8, u1 -> u2 -> u4 -> i8; 'fortran': Fortran-ordered
# 2-D array / reversed-stride 1-D view).  The generators make the values representable (whole numbers, multiples of 1/8).
NARROW = ('nd:f4', 'nd:f2', 'nd:i1', 'nd:i2', 'nd:u1', 'nd:u2', 'nd:>f8', 'nd:>i4', 'fortran')


INT_NARROW = ('nd:i1', 'nd:i2', 'nd:u1', 'nd:u2', 'nd:>i4')


def is_narrow(f):
    return isinstance(f, str) and (f.startswith('nd:') or f == 'fortran')


@st.composite
def interp_cases(draw):
    return {'surf': draw(surfaces()), 'aslist': draw(_bool), 'probe': draw(st.integers(0, 10 ** 6)),
            'hist': draw(reload_history())}


@st.composite
def periodic_cases(draw):
    s = draw(surfaces())
    qk = draw(_qkind)
    q = draw(queries()) if qk == 'plain' else draw(_special(s['n1'], s['n2']))
    return {'surf': s, 'q': q, 'k': [[draw(_kint), draw(_kint)] for _ in q],
            'scalar': draw(_bool), 'aslist': draw(_bool), 'modes': draw(_modes), 'qkind': qk}


_pq = st.integers(-2, 2)
# form in which coordinates / positions / vectors are handed to the conversion methods: 'plain' = float ndarray or list
# (field 'aslist'), read-only ndarray, non-contiguous view, nested tuple, numpy scalars for single values, integer-typed
# (whole-number fractional and plotting coordinates, whole-number crystal vectors)
_cform = st.sampled_from(['plain', 'plain', 'plain', 'ro', 'strided', 'tuple', 'npscalar', 'int'])
_narrow = st.sampled_from(NARROW)
# Cartesian positions / the plotting axis a relative 10^-k OUT of the fault plane (None: exactly in plane as computed):
# far inside the tolerances of the in-plane tests (1e-6 and 1e-8 relative), so the answers move by no more than that
_off_k = st.sampled_from([None, None, None, 9, 10, 11, 12, 13])
_eighth = st.integers(-24, 24)


def dyadic_surface(s):
    """Cartesian shift vectors rounded to multiples of 1/4 (positions of dyadic fractional coordinates are then exactly
    representable in float32): only without a box, only when the pair stays well conditioned"""
    if s['box'] is not None:
        return s
    a1 = [round(t * 4.0) / 4.0 + 0.0 for t in s['a1vect']]
    a2 = [round(t * 4.0) / 4.0 + 0.0 for t in s['a2vect']]
    if not _well_conditioned(np.array(a1), np.array(a2)):
        return s
    return dict(s, a1vect=a1, a2vect=a2, a1v3=a1, a2v3=a2, shape='gen' if s.get('shape') == 'near' else s.get('shape'))


@st.composite
def coords_cases(draw, narrow=False):
    """narrow=True (clause coords_dtypes): every case hands its arrays over in a storage dtype"""
    s = draw(surfaces())
    qk = draw(_qkind)
    q = draw(queries()) if qk == 'plain' else draw(_special(s['n1'], s['n2']))
    form = draw(_cform)
    nd = draw(_narrow)
    q8 = [[draw(_eighth), draw(_eighth)] for _ in q]
    off = {'pos': draw(_off_k), 'xvect': draw(_off_k), 'sign': draw(_sign)}
    plan = draw(S_PLAN)
    if narrow:
        form = 'narrow'
    if form == 'int':
        plan = None               # (whole numbers of working units exist only in the default units)
        q = [[float(round(a)), float(round(b))] for a, b in q]
        s = dict(s, lk=int_scale(s['lk']))            # whole-number plotting coordinates / Cartesian vectors
    elif form == 'narrow':
        plan = None
        # storage dtypes: fractional coordinates in eighths (|q| <= 3), dyadic Cartesian vectors, a whole-number length scale
        form = nd
        q = [[a / 8.0, b / 8.0] for a, b in q8]
        if nd in INT_NARROW:
            # whole coordinates up to the limits of the dtype (capped at 2000: GammaSurface wraps by subtracting 1 in a loop)
            lim = {'nd:i1': (-128, 127), 'nd:u1': (0, 255), 'nd:i2': (-2000, 2000), 'nd:u2': (0, 2000), 'nd:>i4': (-2000, 2000)}[nd]
            pick = lambda t: float((lim[0], lim[1], t % 7 - 3 if lim[0] < 0 else t % 4, lim[1] - 1)[abs(t) % 4])
            q = [[pick(a), pick(b)] for a, b in q8]
        qk = 'plain'
        s = dyadic_surface(dict(s, lk=max(0, int_scale(s['lk']))))
        off = {'pos': None, 'xvect': None, 'sign': 1.0}
    # an in-plane plotting x axis p*A1 + q*A2 (None = default), alternative in-plane shift vectors (integer combinations)
    xv = None
    if draw(_bool):
        xv = [draw(_pq), draw(_pq)]
        if xv == [0, 0]:
            xv = [1, 1]
    alt = None
    if draw(_bool):
        M = [[draw(_pq), draw(_pq)], [draw(_pq), draw(_pq)]]
        if M[0][0] * M[1][1] - M[0][1] * M[1][0] == 0:
            M = [[1, 1], [0, 1]]
        alt = M
    # explicit plotting x axis used in the enumeration of all keyword combinations (always drawn)
    xvc = [draw(_pq), draw(_pq)]
    if xvc == [0, 0]:
        xvc = [1, -1]
    hist = draw(query_history())
    if form == 'int' and hist and hist['surf2']:
        hist['surf2'] = dict(hist['surf2'], lk=int_scale(hist['surf2']['lk']))
    if is_narrow(form) and hist and hist['surf2']:
        hist['surf2'] = dyadic_surface(dict(hist['surf2'], lk=max(0, int_scale(hist['surf2']['lk']))))
    return {'surf': s, 'q': q, 'scalar': draw(_bool), 'aslist': draw(_bool), 'xv': xv, 'alt': alt,
            'smooth': draw(_bool), 'hist': hist, 'form': form, 'xvc': xvc, 'qkind': qk, 'off': off, 'units': plan,
            # whole-number alternative crystal vectors are handed over integer-typed ([1, 1, 0] as one types them)
            'altint': draw(_bool)}


@st.composite
def model_cases(draw):
    return {'surf': draw(surfaces(small=draw(_bool))), 'q': draw(queries(7)), 'fmt': draw(st.sampled_from(['json', 'xml'])),
            'eunit': draw(st.sampled_from([None, 'mJ/m^2', 'eV/angstrom^2', 'J/m^2'])),
            'lunit': draw(st.sampled_from([None, 'angstrom', 'nm'])),
            'via': draw(st.sampled_from(['str', 'dm', 'file'])),
            # load into an object that already holds (and has answered queries on) other data
            'into': draw(_small_surfaces) if draw(_bool) else None, 'units': draw(S_PLAN)}


# ----------------------------------------------------------------------------- Peierls-Nabarro

_frames = st.sampled_from([['x', 'y'], ['x', 'y'], ['z', 'x'], ['y', 'z'], ['x', 'z'], ['vec', 'vec']])
_sperm = st.integers(0, 23)


def signed_permutation(k):
    """the k-th (0..23) proper rotation that maps the axes onto signed axes"""
    import itertools
    mats = []
    for p in itertools.permutations(range(3)):
        for sg in itertools.product((1.0, -1.0), repeat=3):
            M = np.zeros((3, 3))
            for i in range(3):
                M[i, p[i]] = sg[i]
            if np.linalg.det(M) > 0:
                mats.append(M)
    return mats[int(k) % 24]


def rotation_of(r):
    """rotation matrix of a frame / crystal-rotation description: [axis, angle] or {'sperm': k}"""
    if isinstance(r, dict):
        return signed_permutation(r['sperm'])
    return gens.rotation_matrix(*r)
_b = gens.nice(2.0, 4.0, 3)
_phi = st.one_of(st.sampled_from([0.0, 90.0]), gens.nice(-180.0, 180.0, 1))
_kkind = st.sampled_from(['hand', 'hand', 'iso', 'stroh'])
_mod = gens.nice(0.2, 1.2, 4)          # eV/A^3 (32 .. 190 GPa)
_nu = gens.nice(0.05, 0.45, 3)
_aniso = st.one_of(gens.nice(0.4, 0.8, 3), gens.nice(1.3, 3.0, 3))
_eig = gens.nice(0.2, 1.2, 4)
_npn = st.one_of(st.integers(7, 60), st.integers(21, 120), st.integers(121, 401))
_kstep = st.integers(4, 20)
_amp = st.one_of(st.just(0.0), gens.nice(-0.3, 0.3, 3))
_tauc = st.one_of(st.just(0.0), gens.nice(-0.02, 0.02, 5))
_alpha = st.lists(gens.nice(-0.05, 0.05, 4), min_size=0, max_size=3)
_cut = st.sampled_from([None, 1000.0, 250.0, 1.0e4, 0.5])
_w = gens.nice(0.3, 3.0, 3)


@st.composite
def pn_systems(draw, nmax=401, real_ok=True):
    """dislocation frame, energy coefficient tensor, Burgers vector, gamma surface whose plane is the slip plane"""
    frame = draw(_frames)
    rotf = draw(_rot) if frame[0] == 'vec' else None
    T = draw(_rot) if draw(_bool) else None
    # exactly structured frames (a fifth of the cases): m, n given as VECTORS that are signed axis directions (m = -y,
    # n = x ...), the crystal rotation a signed permutation of the axes - what a "frame is already aligned" shortcut takes
    sp = [draw(_sperm), draw(_sperm), draw(st.integers(0, 4))]
    if sp[2] == 0:
        frame, rotf = ['vec', 'vec'], {'sperm': sp[0]}
        if T is not None:
            T = {'sperm': sp[1]}
    kk = draw(_kkind) if real_ok else 'hand'
    if kk == 'hand':
        # symmetric positive definite: Q diag(e) Q^T
        Kd = {'kind': 'hand', 'eig': [draw(_eig), draw(_eig), draw(_eig)],
              'rot': draw(_rot) if draw(_bool) else None}
    elif kk == 'iso':
        Kd = {'kind': 'iso', 'mu': draw(_mod), 'nu': draw(_nu)}
    else:
        Kd = {'kind': 'stroh', 'C44': draw(_mod), 'A': draw(_aniso), 'nu': draw(_nu)}
    b = draw(_b)
    phi = draw(_phi)
    # gamma surface: shift vectors p*m + q*xi (in the dislocation frame), a1 along the Burgers vector or generic
    th = math.radians(draw(_theta))
    l2 = draw(_len)
    along_b = draw(_bool)
    g = {'a1len': b if along_b else draw(_len), 'a1ang': phi if along_b else draw(_phi), 'a2len': l2,
         'a2rel': round(math.degrees(th), 2), 'n1': draw(_n_small), 'n2': draw(_n_small), 'dup': draw(_bool),
         'Eseed': draw(_seed), 'scale': draw(st.sampled_from([0.05, 0.02, 0.1]))}
    return {'frame': frame, 'rotf': rotf, 'T': T, 'K': Kd, 'b': b, 'phi': phi, 'gamma': g,
            'lk': draw(_lk), 'ej': draw(_ej)}


# form in which x / the disregistry are handed to the SDVPN object (arguments, keywords, setters, solve): float ndarray,
# list, nested tuple, read-only ndarray, non-contiguous view, integer-typed ndarray / list of ints.  The integer forms
# need whole numbers: 'xint' = grid x0 + i*dx of whole angstroms, 'round' = disregistry rounded to whole angstroms (a
# staircase from 0 to about b, the kind of guess one types by hand).
_aform = st.sampled_from(['arr', 'arr', 'arr', 'list', 'tuple', 'ro', 'strided', 'int', 'int', 'intlist'])
# storage dtypes of x / the disregistry (clause pn_dtypes only: both in a drawn narrow dtype, or one of them): whole-angstrom
# grids and staircase disregistries, as for the integer forms
_nform = st.sampled_from(NARROW)
_nwhich = st.sampled_from(['both', 'both', 'both', 'x', 'd', 'd', None])
# disregistry kinds: 'arctan' (plus perturbations) | 'decades': rows growing geometrically over 9 decades (each density row
# is judged relative to its own magnitude)
_pkind = st.sampled_from(['arctan'] * 7 + ['decades'])
# a tiny out-of-plane disregistry component 10^-k b (k = 11..15; at most 1e-10 working units): far inside the tolerance of
# the "y component not supported" test, the energies move by no more than that
_dy_k = st.sampled_from([None, None, None, 11, 12, 13, 15])


@st.composite
def pn_profiles(draw, nmin=7, nmax=401, narrow=False):
    n = draw(_npn)
    n = max(nmin, min(nmax, n))
    fx, fd = draw(_aform), draw(_aform)
    nw, nf1, nf2 = draw(_nwhich), draw(_nform), draw(_nform)
    if not narrow:
        nw = None
    if nw in ('both', 'x'):
        fx = nf1
    if nw in ('both', 'd'):
        fd = nf2 if nw == 'd' or draw(_bool) else nf1
    whole_x = fx in ('int', 'intlist') or is_narrow(fx)
    xint = {'x0': draw(st.integers(-9, 4)), 'dx': draw(st.sampled_from([1, 1, 2]))} if whole_x else None
    if xint and fx in ('nd:u1', 'nd:u2'):
        xint['x0'] = abs(xint['x0'])
    return {'N': n, 'kstep': draw(_kstep), 'x0': draw(st.sampled_from([None, None, 0.0, 3.7, -11.25])),
            'w': draw(_w), 'center': draw(gens.nice(-2.0, 2.0, 2)),
            'pert': [[draw(_amp), draw(st.integers(1, 4))], [draw(_amp), draw(st.integers(1, 4))]],
            'ramp': [draw(_amp), draw(_amp)], 'fx': fx, 'fd': fd, 'xint': xint,
            'round': fd in ('int', 'intlist') or is_narrow(fd), 'kind': draw(_pkind), 'dy': draw(_dy_k)}


@functools.lru_cache(maxsize=None)
def _profiles(nmax, narrow=False):
    return pn_profiles(nmax=nmax, narrow=narrow)


@st.composite
def pn_settings(draw):
    tau = [[0.0] * 3 for _ in range(3)]
    if draw(st.integers(0, 3)) > 0:
        for (i, j) in ((0, 0), (1, 1), (2, 2), (0, 1), (0, 2), (1, 2)):
            tau[i][j] = tau[j][i] = draw(_tauc)
    beta = draw(_sym_beta) if draw(_bool) else [[0.0] * 3 for _ in range(3)]
    alpha = draw(st.one_of(st.just(None), st.just(0.0), gens.nice(-0.05, 0.05, 4), _alpha))
    return {'tau': tau, 'alpha': alpha, 'beta': beta, 'cutoff': draw(_cut),
            'fullstress': draw(_bool), 'cdiffelastic': draw(_bool), 'cdiffsurface': draw(_bool),
            'cdiffstress': draw(_bool), 'stored': draw(_bool), 'via_solve_kw': draw(_bool),
            # form of the tau / beta arrays handed to the constructor and the setters
            'tbform': draw(st.sampled_from(['arr', 'arr', 'list', 'tuple', 'ro', 'strided']))}


_INTFORMS = ('int', 'intlist') + NARROW


def _uses_int(pr):
    return pr['fx'] in _INTFORMS or pr['fd'] in _INTFORMS


def fix_int_scale(c):
    """whole-angstrom grids / disregistries handed over integer-typed need a length scale 10^k >= 1 (and the default
    working units: no unit plan)"""
    h = c.get('hist')
    steps = h if isinstance(h, list) else ([h] if h else [])
    if any(_uses_int(p) for p in [c['prof']] + [t['prof'] for t in steps]):
        c['sys']['lk'] = int_scale(c['sys']['lk'])
        c['units'] = None
    return c


@st.composite
def pn_cases(draw, nmax=401, narrow=False):
    return fix_int_scale({'sys': draw(pn_systems()), 'prof': draw(_profiles(nmax, narrow)), 'set': draw(pn_settings()),
                          'shiftc': [draw(gens.nice(-10.0, 10.0, 3)), draw(gens.nice(-10.0, 10.0, 3))],
                          's': draw(st.sampled_from([2.0, -1.0, 0.5, 3.0])),
                          # lists / tuples go to the energy methods as ARGUMENTS in these cases only (everywhere through the setters)
                          'listargs': draw(st.integers(0, 4)) == 0, 'units': draw(S_PLAN_HALF)})


# ---- object history of an SDVPN: further evaluations on the same object
# grid of a step relative to the evaluation before it: 'spacing' same number of points, other spacing; 'length' other
# number of points; 'same' the same x, other disregistry; 'shift' same points and spacing, translated; 'back' the first
# (x, disregistry) again.  via: how (x, disregistry) reach the object.  chg: settings changed through the setters first.
_grid_kind = st.sampled_from(['spacing', 'spacing', 'spacing', 'length', 'same', 'shift', 'back', 'back'])
_via = st.sampled_from(['args', 'args', 'kw', 'setter', 'x_arg', 'd_arg'])
_chg_keys = st.lists(st.sampled_from(['tau', 'alpha', 'beta', 'cutoff', 'fullstress', 'cdiffelastic', 'cdiffsurface',
                                      'cdiffstress']), min_size=1, max_size=3, unique=True)
_nsteps = st.sampled_from([1, 2, 2, 3, 3])


@st.composite
def pn_steps(draw, nmax=401, narrow=False):
    steps = []
    for _ in range(draw(_nsteps)):
        chg = None
        if draw(st.integers(0, 2)) == 0:
            full = draw(pn_settings())
            chg = {k: full[k] for k in draw(_chg_keys)}
        steps.append({'grid': draw(_grid_kind), 'prof': draw(_profiles(nmax, narrow)), 'via': draw(_via), 'chg': chg})
    return steps


@st.composite
def pn_hist_cases(draw, narrow=False):
    """pn_cases plus, for half of them, 1-3 further evaluations on the same SDVPN object (narrow=True, clause pn_dtypes: x
    and / or the disregistry of most profiles in a storage dtype)"""
    c = draw(pn_cases(nmax=120, narrow=True)) if narrow else draw(pn_cases())
    c['hist'] = draw(pn_steps(120 if narrow else 200, narrow)) if draw(_bool) else []
    return fix_int_scale(c)


_method = st.sampled_from(['Powell', 'Powell', 'Powell', 'Nelder-Mead', 'L-BFGS-B'])
_pre_grid = st.sampled_from(['spacing', 'spacing', 'spacing', 'length', 'same', 'shift'])


@st.composite
def solve_cases(draw):
    c = draw(pn_cases(nmax=21))
    c['units'] = None          # (speed, see _lk_solve: the working-unit configurations are covered by pn_terms / pn_total)
    c['prof']['N'] = draw(st.integers(5, 21))
    c['prof']['kind'], c['prof']['dy'] = 'arctan', None
    if c['prof']['xint']:
        # a whole-angstrom grid for the solve keeps the spacing at b/4 (coarser grids let the line searches run away):
        # 4 angstrom Burgers vector, 1 angstrom spacing
        c['prof']['xint']['dx'] = 1
        if c['sys']['gamma']['a1len'] == c['sys']['b']:
            c['sys']['gamma']['a1len'] = 4.0
        c['sys']['b'] = 4.0
        # (and a central-difference elastic term is blind to a saw-tooth disregistry, which a b/4 grid resolves poorly:
        # Powell's line searches wander for minutes along it)
        c['set']['cdiffelastic'] = False
    meth = draw(_method)
    if meth == 'Powell':
        opt = {'maxiter': draw(st.integers(1, 2)), 'maxfev': 600}
    elif meth == 'Nelder-Mead':
        opt = {'maxiter': draw(st.integers(20, 150))}
    else:
        opt = {'maxiter': draw(st.integers(1, 4))}
    # keep the total energy bounded below, otherwise the line searches run away (and GammaSurface wraps a coordinate of
    # 1e17 by subtracting 1.0 in a loop): alpha >= 0, beta with non-negative row sums, no stress when the elastic term
    # uses central differences (it is then blind to a saw-tooth disregistry, along which the stress term is linear)
    se = c['set']
    if isinstance(se['alpha'], list):
        se['alpha'] = [abs(a) for a in se['alpha']]
    elif se['alpha'] is not None:
        se['alpha'] = abs(se['alpha'])
    be = [list(r) for r in se['beta']]
    for i in range(3):
        rs = sum(be[i])
        if rs < 0:
            be[i][i] = round(be[i][i] - rs, 5)
    se['beta'] = be
    if se['cdiffelastic']:
        se['tau'] = [[0.0] * 3 for _ in range(3)]
    c['method'] = meth
    c['options'] = opt
    c['default_method'] = meth == 'Powell' and draw(_bool)
    # history around the solve (two thirds of the cases): an energy evaluation with another (x, disregistry) given as
    # arguments before the solve (after or before the solve's own x/disregistry are stored), the same again after it;
    # the settings reach the object through the constructor, the attribute setters or solve's keyword arguments
    c['hist'] = None
    if draw(st.integers(0, 2)) > 0:
        c['hist'] = {'grid': draw(_pre_grid), 'prof': dict(draw(_profiles(21)), kind='arctan', dy=None), 'stored_first': draw(st.integers(0, 2)) > 0,
                     'post': draw(_bool), 'settings_via': draw(st.sampled_from(['ctor', 'setters', 'solve_kw']))}
    c['sys']['lk'] = draw(_lk_solve)
    if se['cdiffelastic']:
        # the elastic kernel carries ln(|i-j| dx): with central differences the sum of the densities is not fixed by the
        # end rows and for a spacing > 1 (scaled-up lengths) the term -ln(dx) K (sum rho dx)^2 is unbounded below
        c['sys']['lk'] = min(c['sys']['lk'], 0)
    return fix_int_scale(c)


@st.composite
def halfwidth_cases(draw):
    b = draw(_b)
    char = draw(st.sampled_from(['edge', 'screw']))
    K = draw(_mod)
    xi_over_b = draw(gens.nice(0.8, 1.3, 3))                 # classical half-width in units of b
    return {'b': b, 'char': char, 'Kbb': K, 'Kother': [draw(_eig), draw(_eig)], 'xi_over_b': xi_over_b,
            'kstep': draw(st.integers(10, 12)), 'n1': draw(st.integers(10, 15)), 'n2': draw(st.integers(4, 6)),
            'c': draw(_len), 'frame': draw(st.sampled_from([['x', 'y'], ['z', 'x'], ['y', 'z']])),
            'cdiffelastic': draw(_bool), 'lk': draw(_lk), 'ej': draw(_ej)}


_xmode = st.sampled_from(['x', 'xmax+xstep', 'xmax+xnum', 'xstep+xnum', 'all3'])
_xform = st.sampled_from(['arr', 'arr', 'arr', 'list', 'tuple', 'ro', 'strided', 'int', 'intlist', 'narrow', 'narrow'])


@st.composite
def arctan_cases(draw):
    n = draw(st.integers(3, 80))
    step = draw(gens.nice(0.05, 2.0, 4))
    bk = draw(st.sampled_from(['vec', 'vec', 'default', 'float']))
    bv = [draw(gens.nice(-4.0, 4.0, 3)) for _ in range(3)]
    if not any(bv):
        bv = [1.0, 0.0, 0.0]
    c = {'n': n, 'step': step, 'xmode': draw(_xmode), 'x0': draw(gens.nice(-5.0, 5.0, 2)),
         'bkind': bk, 'b': bv, 'bmag': draw(_b), 'center': draw(st.one_of(st.just(0.0), gens.nice(-3.0, 3.0, 2))),
         'w': draw(_w), 'normalize': draw(_bool), 'shift': draw(_bool), 'aslist': draw(_bool), 'lk': draw(_lk)}
    # form of an explicitly given x (mode 'x'): float ndarray, list, tuple, read-only, non-contiguous, integer-typed, storage
    # dtypes (the grid is then x0/4 + i*step with step a multiple of 1/8: exactly representable)
    c['xform'] = draw(_xform)
    if c['xform'] == 'narrow':
        c['xform'] = draw(_nform)
    else:
        draw(_nform)
    k16, wmul = draw(st.integers(1, 16)), draw(st.sampled_from([1.0, 4.0, 6.0, 10.0]))
    if c['xmode'] != 'x':
        c['xform'] = 'arr'
    if c['xform'] in ('int', 'intlist') or is_narrow(c['xform']):
        whole = c['xform'] in ('int', 'intlist', 'nd:i1', 'nd:i2', 'nd:u1', 'nd:u2', 'nd:>i4')
        c['step'] = float(k16) / (1.0 if whole else 8.0)
        c['w'] = c['w'] if wmul == 1.0 else c['step'] * wmul        # (a half-width of several steps: the derivative is judged too)
        c['x0'] = float(round(c['x0']))
        if c['xform'] in ('nd:u1', 'nd:u2'):
            c['x0'] = abs(c['x0'])
        c['lk'] = max(0, int_scale(c['lk']))
    # many decades in one call (mode 'x' only): x = center + s * halfwidth * 10^e, e from -6 to +6, both signs
    c['xdec'] = draw(_seed) if (draw(st.integers(0, 5)) == 0 and c['xmode'] == 'x') else None
    # xmax a relative 10^-k off xstep (xnum - 1) / 2 (k = 7..12: far inside the tolerance of the compatibility test)
    c['xnear'] = draw(st.sampled_from([None, None, None, 7, 8, 10, 12]))
    c['xnear_sign'] = draw(_sign)
    c['units'] = draw(S_PLAN)
    return c


# ----------------------------------------------------------------------------- many decades in one call (clause decades)
_mant = gens.nice(1.0, 9.99, 3)
_dec_lo = st.integers(-9, -8)
_dec_hi = st.integers(0, 2)
_dec_mid = st.integers(-7, 0)
_nrows = st.integers(8, 12)


@st.composite
def decades_cases(draw):
    """a surface and ONE array of query points whose rows span 8-11 orders of magnitude (|a1|, |a2| from 1e-9 to 1e2 cells;
    larger coordinates would only measure how long GammaSurface takes to wrap them, one subtraction of 1.0 at a time)"""
    s = draw(surfaces(small=True))
    n = draw(_nrows)
    ex = [draw(_dec_lo), draw(_dec_hi)] + [draw(_dec_mid) for _ in range(n - 2)]
    order = draw(st.permutations(list(range(n))))
    q = []
    for i in order:
        e = ex[i]
        # both coordinates of a row have the magnitude of the row (the row is judged relative to it)
        q.append([draw(_sign) * draw(_mant) * 10.0 ** e, draw(_sign) * draw(_mant) * 10.0 ** e])
    xv = None
    if draw(_bool):
        xv = [draw(_pq), draw(_pq)]
        if xv == [0, 0]:
            xv = [1, 1]
    return {'surf': s, 'q': q, 'xv': xv, 'smooth': draw(_bool), 'form': draw(st.sampled_from(['arr', 'arr', 'list', 'ro', 'strided', 'fortran']))}


# ----------------------------------------------------------------------------- result ledger and caller-side mutation
# form in which the caller holds the arrays it hands to GammaSurface(...) / set(...): float64 ndarray (twice: the only form
# np.asarray does not copy), non-contiguous view, reversed-stride / Fortran, read-only, list, tuple, storage dtypes
_held_form = st.sampled_from(['arr', 'arr', 'arr', 'strided', 'fortran', 'ro', 'list', 'tuple', 'nd:f4', 'nd:>f8', 'nd:i2'])
_gop = st.sampled_from(['call_same', 'call_other', 'build_other', 'reload_other', 'overwrite_in', 'overwrite_in', 'overwrite_in',
                        'box', 'box', 'overwrite_out', 'overwrite_query'])
_box_how = st.sampled_from(['vects', 'set_vectors', 'set_abc', 'set_lengths', 'origin'])
_in_which = st.sampled_from(['a1vect', 'a2vect', 'a1vect', 'a2vect', 'a1', 'a2', 'E_gsf', 'delta'])
_fac = st.sampled_from([2.0, -1.0, 0.5, 3.0])


@st.composite
def ledger_cases(draw):
    """two surfaces built from arrays / a Box that the caller keeps, queries whose results are kept in a ledger, and 2-6
    operations: more calls on the same / the other object, another object built from the re-used arrays, the other object
    reloaded, the caller's input arrays overwritten in place, the caller's Box re-defined through its setters, the returned
    arrays and the query arrays overwritten"""
    s = draw(surfaces(small=True))
    s2 = draw(_small_surfaces)
    forms = {k: draw(_held_form) for k in ('a1vect', 'a2vect', 'a1', 'a2', 'E_gsf', 'delta')}
    nops = draw(st.integers(2, 6))
    ops = []
    for _ in range(nops):
        ops.append({'op': draw(_gop), 'which': draw(_in_which), 'how': draw(_box_how), 'f': draw(_fac),
                    'q': draw(queries(3)), 'smooth': draw(_bool), 'route': draw(_route)})
    return {'surf': s, 'surf2': s2, 'forms': forms, 'q': draw(queries(3)), 'ops': ops, 'via_set': draw(_bool),
            'share_box': draw(_bool), 'order': draw(_seed)}


_pop = st.sampled_from(['eval_same', 'eval_other_obj', 'solve_other_obj', 'overwrite_in', 'overwrite_in', 'overwrite_in', 'overwrite_out',
                        'overwrite_out', 'setters_other_obj', 'overwrite_args'])
_pn_which = st.sampled_from(['x', 'disregistry', 'x', 'disregistry', 'tau', 'beta'])
_pn_held = st.sampled_from(['arr', 'arr', 'arr', 'strided', 'ro', 'list', 'nd:>f8', 'fortran'])


@st.composite
def ledger_pn_cases(draw):
    """an SDVPN whose x / disregistry / tau / beta arrays the caller keeps, a second SDVPN on the same gamma surface,
    evaluations kept in a ledger and 2-6 operations (see ledger_cases)"""
    c = draw(pn_cases(nmax=40))
    c['units'] = None
    c['prof'] = dict(c['prof'], fx='arr', fd='arr', xint=None, round=False, kind='arctan', dy=None, N=min(c['prof']['N'], 40))
    c['sys'] = dict(c['sys'], lk=draw(_lk_solve))
    c['listargs'] = False
    c['held'] = {k: draw(_pn_held) for k in ('x', 'disregistry', 'tau', 'beta')}
    c['stored'] = draw(_bool)
    ops = []
    for _ in range(draw(st.integers(2, 6))):
        ops.append({'op': draw(_pop), 'which': draw(_pn_which), 'f': draw(_fac), 'prof': dict(draw(_profiles(40)), fx='arr', fd='arr', xint=None, round=False, kind='arctan', dy=None),
                    'cdiff': draw(_bool)})
    c['ops'] = ops
    c['prof2'] = dict(draw(_profiles(21)), fx='arr', fd='arr', xint=None, round=False, kind='arctan', dy=None)
    return c


# ----------------------------------------------------------------------------- enumerated option combinations (clause pn_options)
FLAGS = ('fullstress', 'cdiffelastic', 'cdiffsurface', 'cdiffstress')


def option_cases(tier):
    """every combination of the four finite-difference / stress flags, reached in every way: given to the constructor; from
    every OTHER combination through the attribute setters, the changed flags set in every order (the intermediate
    combinations are evaluated too); through solve()'s keywords.  One case = one starting combination + one target
    combination + one order of the setters; a few fixed systems (more in the thorough tier)"""
    import itertools
    combos = list(itertools.product((False, True), repeat=4))
    nsys = 1 if tier == 'quick' else 4
    cases = []
    for k in range(nsys):
        for a in combos:
            cases.append({'sys': k, 'start': list(a), 'target': list(a), 'order': [], 'via': 'ctor'})
            for b in combos:
                changed = [i for i in range(4) if a[i] != b[i]]
                if not changed:
                    continue
                for order in itertools.permutations(changed):
                    cases.append({'sys': k, 'start': list(a), 'target': list(b), 'order': list(order), 'via': 'setters'})
                cases.append({'sys': k, 'start': list(a), 'target': list(b), 'order': changed, 'via': 'solve_kw'})
    return cases
