"""Strategies for C18 (gamma surfaces, Peierls-Nabarro profiles).  Everything produced is JSON-able.

Surface case
  {'box': None | {'family','abc':[a,b,c,al,be,ga],'rot': None|[axis,angle]},
   'a1vect': [3 | 4 numbers], 'a2vect': [...], 'a1v3': [3], 'a2v3': [3]       (3-index form kept for the oracle)
   'n1','n2', 'dup': bool, 'shuffle': int|None, 'kind': 'fourier'|'random', 'E': n1 x n2 table, 'D': table|None,
   'lk': k, 'ej': j}

Scales.  Every case carries an overall length scale 10^lk (k = 0 in about 40 % of the cases, otherwise -12..+4: the
cell edges / Cartesian shift vectors, positions, x grids, disregistries, Burgers vectors, plane separations are
multiplied by it when the oracle builds the objects - 1e-10 is a cell given in metres, atomman's SI working units) and an
independent energy-per-area scale 10^ej (j = 0 in about 40 %, otherwise -8..+8: E_gsf values; K_tensor and tau by
10^(j-k), beta by 10^j, alpha by 10^(j-2k)).  The tables, lengths ... in the case stay the unscaled ones.
"""
import functools
import math

import numpy as np
from hypothesis import strategies as st

from . import gens

_bool = st.booleans()
_seed = st.integers(0, 2 ** 31 - 1)
_ivec = st.lists(st.integers(-2, 2), min_size=3, max_size=3)
_boxkind = st.sampled_from(['none', 'none', 'cubic', 'hexagonal', 'orthorhombic', 'any', 'any'])
_n_grid = st.integers(4, 15)
_n_small = st.integers(4, 9)
_kind = st.sampled_from(['fourier', 'random'])
_escale = st.sampled_from([1.0, 1.0, 0.05, 20.0])
_theta = st.one_of(st.just(90.0), gens.nice(40.0, 140.0, 2))
_len = gens.nice(1.5, 8.0, 3)
_rot = gens.rotations(min_angle=1.0)
_sym_beta = gens.sym3(0.5)
# exponents of the length scale and of the energy-per-area scale (0 first: shrinks to the unscaled problem)
_lk = st.sampled_from([0] * 12 + [-12, -11, -10, -10, -10, -9, -8, -7, -6, -5, -4, -3, -2, -1, 1, 2, 3, 4])
_ej = st.sampled_from([0] * 11 + [-8, -7, -6, -5, -4, -3, -2, -1, 1, 2, 3, 4, 5, 6, 7, 8])
# solve: the minimisers of scipy.optimize take trial steps of absolute size 1 (Powell's line search bracket, the initial
# simplex of Nelder-Mead), i.e. 10^-k Burgers vectors - GammaSurface wraps a fractional coordinate by subtracting 1 in a
# loop, so that cells of numerically small size make one energy evaluation take hours (speed is not part of the property);
# k = -2 still runs at the usual speed
_lk_solve = st.sampled_from([0] * 4 + [-2, -2, -1, 1, 2, 2])


def pow10(k):
    """10^k as the correctly rounded decimal literal (exactly 1.0 for k = 0 / None)"""
    return float('1e%d' % int(k or 0))


def int_scale(k):
    """length-scale exponent for a case that hands over whole numbers integer-typed: whole numbers of the scaled
    quantities exist only for 10^k >= 1.  Odd negative exponents are mirrored; the even ones (among them -10, metres)
    stay: the integer forms then degrade to float arrays for the scaled quantities (fractional coordinates stay whole)"""
    return min(4, -k) if (k < 0 and k % 2) else k


def box_vects(bx, scale=1.0):
    """row-vector matrix of a box description (identity for None: Cartesian shift vectors carry the length scale
    themselves), edge lengths multiplied by scale"""
    if bx is None:
        return np.eye(3)
    a, b, c, al, be, ga = bx['abc']
    lx, ly, lz, xy, xz, yz = gens.abc_to_lammps(a * scale, b * scale, c * scale, al, be, ga)
    V = np.array([[lx, 0.0, 0.0], [xy, ly, 0.0], [xz, yz, lz]])
    if bx.get('rot'):
        V = V @ gens.rotation_matrix(*bx['rot']).T
    return V


def _well_conditioned(A1, A2):
    l1, l2 = np.linalg.norm(A1), np.linalg.norm(A2)
    if l1 < 1e-6 or l2 < 1e-6:
        return False
    s = np.linalg.norm(np.cross(A1, A2)) / (l1 * l2)
    return s >= 0.3 and max(l1, l2) / min(l1, l2) <= 5.0


def table(seed, n1, n2, kind, scale):
    """n1 x n2 table of periodic samples: low-order Fourier sum or independent random values (6 decimals)"""
    rng = np.random.default_rng(seed)
    if kind == 'random':
        T = rng.uniform(0.0, 1.0, (n1, n2))
    else:
        i = np.arange(n1)[:, None] / n1
        j = np.arange(n2)[None, :] / n2
        T = np.full((n1, n2), 1.0)
        for _ in range(3):
            p, q = rng.integers(-2, 3, 2)
            T = T + rng.uniform(0.1, 0.5) * np.cos(2 * np.pi * (p * i + q * j) + rng.uniform(0, 2 * np.pi))
    return [[round(float(scale * T[a, b]), 6) for b in range(n2)] for a in range(n1)]


@st.composite
def surfaces(draw, small=False):
    kind = draw(_boxkind)
    rot = draw(_rot) if draw(_bool) else None
    if kind == 'none':
        bx = None
        th = math.radians(draw(_theta))
        l1, l2 = draw(_len), draw(_len)
        if not (l1 / l2 <= 5.0 and l2 / l1 <= 5.0):
            l2 = l1
        A1 = np.array([l1, 0.0, 0.0])
        A2 = np.array([l2 * math.cos(th), l2 * math.sin(th), 0.0])
        P = draw(st.sampled_from([[0, 1, 2], [2, 0, 1], [1, 2, 0], [0, 2, 1]]))      # which Cartesian plane
        A1, A2 = A1[P], A2[P]
        if rot:
            R = gens.rotation_matrix(*rot)
            A1, A2 = R @ A1, R @ A2
        a1 = [round(float(t), 6) for t in A1]
        a2 = [round(float(t), 6) for t in A2]
        a1v, a2v = a1, a2
    else:
        fam = kind if kind != 'any' else None
        fp = draw(gens.family_params(fam))
        bx = {'family': fp['family'], 'abc': fp['abc'], 'rot': rot}
        V = box_vects(bx)
        for _ in range(8):
            a1, a2 = draw(_ivec), draw(_ivec)
            if _well_conditioned(np.array(a1, float) @ V, np.array(a2, float) @ V):
                break
        else:
            a1, a2 = [1, 0, 0], [0, 1, 0]
            if not _well_conditioned(np.array(a1, float) @ V, np.array(a2, float) @ V):
                a1, a2 = [1, 0, 0], [0, 0, 1]
        half = draw(st.integers(0, 3)) == 0                      # half-integer partial shift vectors
        a1 = [float(t) / (2.0 if half else 1.0) for t in a1]
        a2 = [float(t) for t in a2]
        a1v, a2v = a1, a2
        if bx['family'] == 'hexagonal' and draw(_bool):
            # Miller-Bravais [UVTW] of [uvw]: U=(2u-v)/3, V=(2v-u)/3, T=-(u+v)/3, W=w
            def four(v):
                u_, v_, w_ = v
                return [(2 * u_ - v_) / 3.0, (2 * v_ - u_) / 3.0, -(u_ + v_) / 3.0, w_]
            a1v, a2v = four(a1), four(a2)
    n1 = draw(_n_small if small else _n_grid)
    n2 = draw(_n_small if small else _n_grid)
    knd = draw(_kind)
    sc = draw(_escale)
    E = table(draw(_seed), n1, n2, knd, sc)
    D = table(draw(_seed), n1, n2, 'fourier', 0.3) if draw(_bool) else None
    return {'box': bx, 'a1vect': a1v, 'a2vect': a2v, 'a1v3': a1, 'a2v3': a2, 'n1': n1, 'n2': n2,
            'dup': draw(_bool), 'shuffle': draw(_seed) if draw(_bool) else None, 'kind': knd, 'E': E, 'D': D,
            'lk': draw(_lk), 'ej': draw(_ej)}


_coord = st.one_of(gens.nice(-3.0, 3.0, 4), gens.nice(0.0, 1.0, 4))
_npts = st.sampled_from([1, 2, 3, 3, 7])
_kint = st.integers(-3, 3)
# order of the interpolation modes queried on the one object (the first entry is the historical order)
_modes = st.sampled_from([[True, False], [True, False], [False, True], [False, True, False], [True, False, True, False]])


@st.composite
def queries(draw, n=None):
    n = draw(_npts) if n is None else n
    return [[draw(_coord), draw(_coord)] for _ in range(n)]


# ---- object history of a GammaSurface: other data loaded into the existing object (set / model), queried again
_route = st.sampled_from(['set', 'set', 'model_str', 'model_dm', 'model_file'])
_small_surfaces = surfaces(small=True)


@st.composite
def reload_history(draw):
    """None (half of the cases) or: load a second surface into the same object, optionally load the first one back"""
    if draw(_bool):
        return None
    return {'surf2': draw(_small_surfaces), 'route': draw(_route), 'back': draw(_bool), 'back_route': draw(_route)}


_qstep = st.fixed_dictionaries({'smooth': _bool,
                                'reload': st.sampled_from([None, None, 'self_set', 'self_model', 'swap_set', 'swap_model'])})


@st.composite
def query_history(draw):
    """None (half of the cases) or 1-3 further rounds of the same queries on the same object: other interpolation mode,
    the held data loaded again (set / model), the other surface loaded into the object (and back on the next swap)"""
    if draw(_bool):
        return None
    seq = draw(st.lists(_qstep, min_size=1, max_size=3))
    s2 = draw(_small_surfaces) if any((t['reload'] or '').startswith('swap') for t in seq) else None
    return {'seq': seq, 'surf2': s2}


@st.composite
def interp_cases(draw):
    return {'surf': draw(surfaces()), 'aslist': draw(_bool), 'probe': draw(st.integers(0, 10 ** 6)),
            'hist': draw(reload_history())}


@st.composite
def periodic_cases(draw):
    q = draw(queries())
    return {'surf': draw(surfaces()), 'q': q, 'k': [[draw(_kint), draw(_kint)] for _ in q],
            'scalar': draw(_bool), 'aslist': draw(_bool), 'modes': draw(_modes)}


_pq = st.integers(-2, 2)
# form in which coordinates / positions / vectors are handed to the conversion methods: 'plain' = float ndarray or list
# (field 'aslist'), read-only ndarray, non-contiguous view, nested tuple, numpy scalars for single values, integer-typed
# (whole-number fractional and plotting coordinates, whole-number crystal vectors)
_cform = st.sampled_from(['plain', 'plain', 'plain', 'ro', 'strided', 'tuple', 'npscalar', 'int'])


@st.composite
def coords_cases(draw):
    s = draw(surfaces())
    q = draw(queries())
    form = draw(_cform)
    if form == 'int':
        q = [[float(round(a)), float(round(b))] for a, b in q]
        s = dict(s, lk=int_scale(s['lk']))            # whole-number plotting coordinates / Cartesian vectors
    # an in-plane plotting x axis p*A1 + q*A2 (None = default), alternative in-plane shift vectors (integer combinations)
    xv = None
    if draw(_bool):
        xv = [draw(_pq), draw(_pq)]
        if xv == [0, 0]:
            xv = [1, 1]
    alt = None
    if draw(_bool):
        M = [[draw(_pq), draw(_pq)], [draw(_pq), draw(_pq)]]
        if M[0][0] * M[1][1] - M[0][1] * M[1][0] == 0:
            M = [[1, 1], [0, 1]]
        alt = M
    # explicit plotting x axis used in the enumeration of all keyword combinations (always drawn)
    xvc = [draw(_pq), draw(_pq)]
    if xvc == [0, 0]:
        xvc = [1, -1]
    hist = draw(query_history())
    if form == 'int' and hist and hist['surf2']:
        hist['surf2'] = dict(hist['surf2'], lk=int_scale(hist['surf2']['lk']))
    return {'surf': s, 'q': q, 'scalar': draw(_bool), 'aslist': draw(_bool), 'xv': xv, 'alt': alt,
            'smooth': draw(_bool), 'hist': hist, 'form': form, 'xvc': xvc,
            # whole-number alternative crystal vectors are handed over integer-typed ([1, 1, 0] as one types them)
            'altint': draw(_bool)}


@st.composite
def model_cases(draw):
    return {'surf': draw(surfaces(small=draw(_bool))), 'q': draw(queries(7)), 'fmt': draw(st.sampled_from(['json', 'xml'])),
            'eunit': draw(st.sampled_from([None, 'mJ/m^2', 'eV/angstrom^2', 'J/m^2'])),
            'lunit': draw(st.sampled_from([None, 'angstrom', 'nm'])),
            'via': draw(st.sampled_from(['str', 'dm', 'file'])),
            # load into an object that already holds (and has answered queries on) other data
            'into': draw(_small_surfaces) if draw(_bool) else None}


# ----------------------------------------------------------------------------- Peierls-Nabarro

_frames = st.sampled_from([['x', 'y'], ['x', 'y'], ['z', 'x'], ['y', 'z'], ['x', 'z'], ['vec', 'vec']])
_b = gens.nice(2.0, 4.0, 3)
_phi = st.one_of(st.sampled_from([0.0, 90.0]), gens.nice(-180.0, 180.0, 1))
_kkind = st.sampled_from(['hand', 'hand', 'iso', 'stroh'])
_mod = gens.nice(0.2, 1.2, 4)          # eV/A^3 (32 .. 190 GPa)
_nu = gens.nice(0.05, 0.45, 3)
_aniso = st.one_of(gens.nice(0.4, 0.8, 3), gens.nice(1.3, 3.0, 3))
_eig = gens.nice(0.2, 1.2, 4)
_npn = st.one_of(st.integers(7, 60), st.integers(21, 120), st.integers(121, 401))
_kstep = st.integers(4, 20)
_amp = st.one_of(st.just(0.0), gens.nice(-0.3, 0.3, 3))
_tauc = st.one_of(st.just(0.0), gens.nice(-0.02, 0.02, 5))
_alpha = st.lists(gens.nice(-0.05, 0.05, 4), min_size=0, max_size=3)
_cut = st.sampled_from([None, 1000.0, 250.0, 1.0e4, 0.5])
_w = gens.nice(0.3, 3.0, 3)


@st.composite
def pn_systems(draw, nmax=401, real_ok=True):
    """dislocation frame, energy coefficient tensor, Burgers vector, gamma surface whose plane is the slip plane"""
    frame = draw(_frames)
    rotf = draw(_rot) if frame[0] == 'vec' else None
    T = draw(_rot) if draw(_bool) else None
    kk = draw(_kkind) if real_ok else 'hand'
    if kk == 'hand':
        # symmetric positive definite: Q diag(e) Q^T
        Kd = {'kind': 'hand', 'eig': [draw(_eig), draw(_eig), draw(_eig)],
              'rot': draw(_rot) if draw(_bool) else None}
    elif kk == 'iso':
        Kd = {'kind': 'iso', 'mu': draw(_mod), 'nu': draw(_nu)}
    else:
        Kd = {'kind': 'stroh', 'C44': draw(_mod), 'A': draw(_aniso), 'nu': draw(_nu)}
    b = draw(_b)
    phi = draw(_phi)
    # gamma surface: shift vectors p*m + q*xi (in the dislocation frame), a1 along the Burgers vector or generic
    th = math.radians(draw(_theta))
    l2 = draw(_len)
    along_b = draw(_bool)
    g = {'a1len': b if along_b else draw(_len), 'a1ang': phi if along_b else draw(_phi), 'a2len': l2,
         'a2rel': round(math.degrees(th), 2), 'n1': draw(_n_small), 'n2': draw(_n_small), 'dup': draw(_bool),
         'Eseed': draw(_seed), 'scale': draw(st.sampled_from([0.05, 0.02, 0.1]))}
    return {'frame': frame, 'rotf': rotf, 'T': T, 'K': Kd, 'b': b, 'phi': phi, 'gamma': g,
            'lk': draw(_lk), 'ej': draw(_ej)}


# form in which x / the disregistry are handed to the SDVPN object (arguments, keywords, setters, solve): float ndarray,
# list, nested tuple, read-only ndarray, non-contiguous view, integer-typed ndarray / list of ints.  The integer forms
# need whole numbers: 'xint' = grid x0 + i*dx of whole angstroms, 'round' = disregistry rounded to whole angstroms (a
# staircase from 0 to about b, the kind of guess one types by hand).
_aform = st.sampled_from(['arr', 'arr', 'arr', 'list', 'tuple', 'ro', 'strided', 'int', 'int', 'intlist'])


@st.composite
def pn_profiles(draw, nmin=7, nmax=401):
    n = draw(_npn)
    n = max(nmin, min(nmax, n))
    fx, fd = draw(_aform), draw(_aform)
    xint = {'x0': draw(st.integers(-9, 4)), 'dx': draw(st.sampled_from([1, 1, 2]))} if fx in ('int', 'intlist') else None
    return {'N': n, 'kstep': draw(_kstep), 'x0': draw(st.sampled_from([None, None, 0.0, 3.7, -11.25])),
            'w': draw(_w), 'center': draw(gens.nice(-2.0, 2.0, 2)),
            'pert': [[draw(_amp), draw(st.integers(1, 4))], [draw(_amp), draw(st.integers(1, 4))]],
            'ramp': [draw(_amp), draw(_amp)], 'fx': fx, 'fd': fd, 'xint': xint, 'round': fd in ('int', 'intlist')}


@st.composite
def pn_settings(draw):
    tau = [[0.0] * 3 for _ in range(3)]
    if draw(st.integers(0, 3)) > 0:
        for (i, j) in ((0, 0), (1, 1), (2, 2), (0, 1), (0, 2), (1, 2)):
            tau[i][j] = tau[j][i] = draw(_tauc)
    beta = draw(_sym_beta) if draw(_bool) else [[0.0] * 3 for _ in range(3)]
    alpha = draw(st.one_of(st.just(None), st.just(0.0), gens.nice(-0.05, 0.05, 4), _alpha))
    return {'tau': tau, 'alpha': alpha, 'beta': beta, 'cutoff': draw(_cut),
            'fullstress': draw(_bool), 'cdiffelastic': draw(_bool), 'cdiffsurface': draw(_bool),
            'cdiffstress': draw(_bool), 'stored': draw(_bool), 'via_solve_kw': draw(_bool),
            # form of the tau / beta arrays handed to the constructor and the setters
            'tbform': draw(st.sampled_from(['arr', 'arr', 'list', 'tuple', 'ro', 'strided']))}


_INTFORMS = ('int', 'intlist')


def _uses_int(pr):
    return pr['fx'] in _INTFORMS or pr['fd'] in _INTFORMS


def fix_int_scale(c):
    """whole-angstrom grids / disregistries handed over integer-typed need a length scale 10^k >= 1"""
    h = c.get('hist')
    steps = h if isinstance(h, list) else ([h] if h else [])
    if any(_uses_int(p) for p in [c['prof']] + [t['prof'] for t in steps]):
        c['sys']['lk'] = int_scale(c['sys']['lk'])
    return c


@st.composite
def pn_cases(draw, nmax=401):
    return fix_int_scale({'sys': draw(pn_systems()), 'prof': draw(pn_profiles(nmax=nmax)), 'set': draw(pn_settings()),
                          'shiftc': [draw(gens.nice(-10.0, 10.0, 3)), draw(gens.nice(-10.0, 10.0, 3))],
                          's': draw(st.sampled_from([2.0, -1.0, 0.5, 3.0])),
                          # lists / tuples go to the energy methods as ARGUMENTS in these cases only (everywhere through the setters)
                          'listargs': draw(st.integers(0, 4)) == 0})


# ---- object history of an SDVPN: further evaluations on the same object
# grid of a step relative to the evaluation before it: 'spacing' same number of points, other spacing; 'length' other
# number of points; 'same' the same x, other disregistry; 'shift' same points and spacing, translated; 'back' the first
# (x, disregistry) again.  via: how (x, disregistry) reach the object.  chg: settings changed through the setters first.
_grid_kind = st.sampled_from(['spacing', 'spacing', 'spacing', 'length', 'same', 'shift', 'back', 'back'])
_via = st.sampled_from(['args', 'args', 'kw', 'setter', 'x_arg', 'd_arg'])
_chg_keys = st.lists(st.sampled_from(['tau', 'alpha', 'beta', 'cutoff', 'fullstress', 'cdiffelastic', 'cdiffsurface',
                                      'cdiffstress']), min_size=1, max_size=3, unique=True)
_nsteps = st.sampled_from([1, 2, 2, 3, 3])


@functools.lru_cache(maxsize=None)
def _profiles(nmax):
    return pn_profiles(nmax=nmax)


@st.composite
def pn_steps(draw, nmax=401):
    steps = []
    for _ in range(draw(_nsteps)):
        chg = None
        if draw(st.integers(0, 2)) == 0:
            full = draw(pn_settings())
            chg = {k: full[k] for k in draw(_chg_keys)}
        steps.append({'grid': draw(_grid_kind), 'prof': draw(_profiles(nmax)), 'via': draw(_via), 'chg': chg})
    return steps


@st.composite
def pn_hist_cases(draw):
    """pn_cases plus, for half of them, 1-3 further evaluations on the same SDVPN object"""
    c = draw(pn_cases())
    c['hist'] = draw(pn_steps(200)) if draw(_bool) else []
    return fix_int_scale(c)


_method = st.sampled_from(['Powell', 'Powell', 'Powell', 'Nelder-Mead', 'L-BFGS-B'])
_pre_grid = st.sampled_from(['spacing', 'spacing', 'spacing', 'length', 'same', 'shift'])


@st.composite
def solve_cases(draw):
    c = draw(pn_cases(nmax=21))
    c['prof']['N'] = draw(st.integers(5, 21))
    if c['prof']['xint']:
        # a whole-angstrom grid for the solve keeps the spacing at b/4 (coarser grids let the line searches run away):
        # 4 angstrom Burgers vector, 1 angstrom spacing
        c['prof']['xint']['dx'] = 1
        if c['sys']['gamma']['a1len'] == c['sys']['b']:
            c['sys']['gamma']['a1len'] = 4.0
        c['sys']['b'] = 4.0
        # (and a central-difference elastic term is blind to a saw-tooth disregistry, which a b/4 grid resolves poorly:
        # Powell's line searches wander for minutes along it)
        c['set']['cdiffelastic'] = False
    meth = draw(_method)
    if meth == 'Powell':
        opt = {'maxiter': draw(st.integers(1, 2)), 'maxfev': 600}
    elif meth == 'Nelder-Mead':
        opt = {'maxiter': draw(st.integers(20, 150))}
    else:
        opt = {'maxiter': draw(st.integers(1, 4))}
    # keep the total energy bounded below, otherwise the line searches run away (and GammaSurface wraps a coordinate of
    # 1e17 by subtracting 1.0 in a loop): alpha >= 0, beta with non-negative row sums, no stress when the elastic term
    # uses central differences (it is then blind to a saw-tooth disregistry, along which the stress term is linear)
    se = c['set']
    if isinstance(se['alpha'], list):
        se['alpha'] = [abs(a) for a in se['alpha']]
    elif se['alpha'] is not None:
        se['alpha'] = abs(se['alpha'])
    be = [list(r) for r in se['beta']]
    for i in range(3):
        rs = sum(be[i])
        if rs < 0:
            be[i][i] = round(be[i][i] - rs, 5)
    se['beta'] = be
    if se['cdiffelastic']:
        se['tau'] = [[0.0] * 3 for _ in range(3)]
    c['method'] = meth
    c['options'] = opt
    c['default_method'] = meth == 'Powell' and draw(_bool)
    # history around the solve (two thirds of the cases): an energy evaluation with another (x, disregistry) given as
    # arguments before the solve (after or before the solve's own x/disregistry are stored), the same again after it;
    # the settings reach the object through the constructor, the attribute setters or solve's keyword arguments
    c['hist'] = None
    if draw(st.integers(0, 2)) > 0:
        c['hist'] = {'grid': draw(_pre_grid), 'prof': draw(_profiles(21)), 'stored_first': draw(st.integers(0, 2)) > 0,
                     'post': draw(_bool), 'settings_via': draw(st.sampled_from(['ctor', 'setters', 'solve_kw']))}
    c['sys']['lk'] = draw(_lk_solve)
    if se['cdiffelastic']:
        # the elastic kernel carries ln(|i-j| dx): with central differences the sum of the densities is not fixed by the
        # end rows and for a spacing > 1 (scaled-up lengths) the term -ln(dx) K (sum rho dx)^2 is unbounded below
        c['sys']['lk'] = min(c['sys']['lk'], 0)
    return fix_int_scale(c)


@st.composite
def halfwidth_cases(draw):
    b = draw(_b)
    char = draw(st.sampled_from(['edge', 'screw']))
    K = draw(_mod)
    xi_over_b = draw(gens.nice(0.8, 1.3, 3))                 # classical half-width in units of b
    return {'b': b, 'char': char, 'Kbb': K, 'Kother': [draw(_eig), draw(_eig)], 'xi_over_b': xi_over_b,
            'kstep': draw(st.integers(10, 12)), 'n1': draw(st.integers(10, 15)), 'n2': draw(st.integers(4, 6)),
            'c': draw(_len), 'frame': draw(st.sampled_from([['x', 'y'], ['z', 'x'], ['y', 'z']])),
            'cdiffelastic': draw(_bool), 'lk': draw(_lk), 'ej': draw(_ej)}


_xmode = st.sampled_from(['x', 'xmax+xstep', 'xmax+xnum', 'xstep+xnum', 'all3'])


@st.composite
def arctan_cases(draw):
    n = draw(st.integers(3, 80))
    step = draw(gens.nice(0.05, 2.0, 4))
    bk = draw(st.sampled_from(['vec', 'vec', 'default', 'float']))
    bv = [draw(gens.nice(-4.0, 4.0, 3)) for _ in range(3)]
    if not any(bv):
        bv = [1.0, 0.0, 0.0]
    return {'n': n, 'step': step, 'xmode': draw(_xmode), 'x0': draw(gens.nice(-5.0, 5.0, 2)),
            'bkind': bk, 'b': bv, 'bmag': draw(_b), 'center': draw(st.one_of(st.just(0.0), gens.nice(-3.0, 3.0, 2))),
            'w': draw(_w), 'normalize': draw(_bool), 'shift': draw(_bool), 'aslist': draw(_bool), 'lk': draw(_lk)}
