"""Strategies for C17 (cases are JSON-able dicts; everything heavy is expanded in the oracle).

crystal  {'kind': fcc|bcc|hcp|b2|l12, 'a': float, 'ca': float (hcp), 'orient': int (index into the per-family menu
          of integer re-orientation vectors, resolved modulo its length; 0 = standard setting),
          'extra': [3 ints] supercell multipliers added to the minimum the cutoff needs,
          'rot': None | [axis, angle_deg] rigid rotation of atoms and cell, 'origin': [3] cell origin,
          'sperm': int (0 = none; else one of the 23 proper signed permutations of the Cartesian axes applied to atoms and
          cell after 'rot': cell vectors along -x, +z, ... with exact zeros and negative entries), 'vperm': int (0..5:
          relabelling of the three cell vectors a, b, c; odd ones give a left-handed cell), 'limit': None | str (whole-number
          crystals only: the cell is shifted by a whole vector so that the extreme coordinate is the limit of a narrow integer dtype),
          'perm': int (0 = atoms in construction order, else seed of a Fisher-Yates renumbering)}
shells   {'gap': int (which gap between neighbour shells holds the cutoff, resolved modulo the number of admissible
          gaps), 'frac': float in [0,1] position of the cutoff inside the admissible part of the gap}
F        {'rot': None | [axis, angle<=8], 'E': [6 floats in [-1,1]] (direction of the symmetric part, normalised in
          the oracle), 'emag': spectral norm of the symmetric part (<= 0.03; also decades 1e-4 .. 1e-12: almost no strain),
          the angle also 1e-3 .. 1e-9 degrees; or 'M': [9] exactly structured F = I + M (identity, diagonal, strictly lower /
          upper triangular, entries +-k/256 incl. negative ones)}
move     {'t': [3] rigid translation of the deformed system, 'boxshift': [3] relative shift of the deformed cell
          against its atoms (atoms are then wrapped back into it: same periodic crystal, other images)}
hist     {'ops0': [query, ...] earlier queries on the reference System object, 'ops1': [...] on the deformed one
          (query = {'op': nlist|r0|dvect|scaled|attr|wrap|derived, 'k': int, 'x': float in [0,1]}, resolved against the
          current state in the oracle), 'build0' / 'build1': None | {'state': ref|other, 'pos': int, 'box': int, 'pbcflip': bool,
          'form': int}: the reference / deformed System object first exists in another state (queried there) and is then brought to
          the judged state in place through the public setters selected by pos / box / form,
          'decoy': bool (the tools run on an unrelated pair of systems in between), 'repeat': bool (the judged
          function calls are repeated at the end and must return the same), 'forms': int (bit field: numpy-scalar
          cutoff, list/tuple vectors, list / Fortran-ordered / read-only p vectors, integer theta_max),
          'intpos': bool (crystal with whole-number coordinates handed over as integers)}
lscale   int k: the length unit of the whole case.  Every length of the case (lattice parameter, cell origin, translations,
          cutoffs, slips, plane positions, p vectors) is multiplied by 10**k in the oracle, k = -12 .. 4 (k = 0: the numbers
          as drawn, Angstrom-like, a healthy third; k = -10: the same crystal in metres, atomman's working units may be SI;
          k = -1: nm; k > 0: pm / fm-like large numbers).  Relative quantities (F, box shifts, slip in nearest-neighbour
          distances, cutoff position inside a shell gap) are not touched.
io       {'pdt': dtype code of the stored positions (0 = float64 / int64 as before; 'be' big-endian float64 - exact for every
          case -; 'f32' single precision: the displacement clause rounds both systems to it first, the other clauses use it where the
          values are exactly representable; 'int' / 'f16': whole-number crystals in the narrowest integer dtype of a drawn menu /
          in half precision), 'idt': int (which integer dtype), 'adt': int (spelling of vector / matrix arguments: list, tuple,
          read-only, strided view, big-endian, narrowest exact dtype), 'scal': int (bit field: numpy scalars of other dtypes
          for cutoff, theta_max, reference), 'twin': bool (the same tools on another pair of systems of the SAME size
          afterwards; everything handed out before is re-judged bit for bit at the end - the result ledger), 'scribble': bool
          (the caller overwrites in place what it handed in and what it was handed out, re-uses the buffers, calls again)}
shist    None | {'mode': inplace|pvec|theta, 'F0': gradient, 'move0': move, 'reads0': [property names read before the
          change], 'resolve': solve|solve_theta|clear|setter, 'pset': int, 'order': int}: one Strain object is solved in an
          earlier state (other deformation of the same System object / other reference vectors / other theta_max),
          read, changed through its public methods and solved again; the second state is the judged one
"""
import copy
import functools
import itertools

from hypothesis import strategies as st

from . import gens

KINDS = ('fcc', 'bcc', 'hcp', 'b2', 'l12')

ORIENT_CUBIC = (
    None,
    [[1, -1, 0], [1, 1, -2], [1, 1, 1]],
    [[1, 1, 0], [-1, 1, 0], [0, 0, 1]],
    [[1, 1, 1], [1, -1, 0], [1, 1, -2]],
    [[1, 0, 0], [1, 1, 0], [0, 0, 1]],
    [[2, 1, 0], [-1, 2, 0], [0, 0, 1]],
    [[1, 0, 0], [0, 1, 0], [1, 1, 2]],
)
ORIENT_HEX = (
    None,
    [[1, 0, 0], [1, 2, 0], [0, 0, 1]],
    [[0, 0, 1], [1, 0, 0], [1, 2, 0]],
    [[1, 2, 0], [0, 0, 1], [1, 0, 0]],
    [[1, 0, 0], [0, 1, 0], [1, 0, 1]],
)


def orient_menu(kind):
    return ORIENT_HEX if kind == 'hcp' else ORIENT_CUBIC


_kind = st.sampled_from(KINDS)
_a = gens.nice(2.5, 5.5, 3)
_IDEAL = (8.0 / 3.0) ** 0.5
# near-threshold: c/a a relative 1e-3 .. 1e-12 away from ideal (the two first-neighbour distances almost equal)
_ca_near = st.sampled_from([_IDEAL * (1.0 + sg * 10.0 ** -k) for k in (3, 5, 7, 9, 12) for sg in (1, -1)])
_ca = st.one_of(st.sampled_from([_IDEAL, 1.57, 1.6, 1.65, 1.86]), gens.nice(1.55, 1.9, 3), gens.nice(1.55, 1.9, 3), _ca_near)
_orient = st.one_of(st.just(0), st.integers(1, 20))
_extra = st.sampled_from([0, 0, 0, 1, 1, 2])
_rot = st.one_of(st.none(), gens.rotations(min_angle=1.0))
_origin = st.one_of(st.just([0.0, 0.0, 0.0]),
                    st.lists(gens.nice(-30.0, 30.0, 3), min_size=3, max_size=3))
_perm = st.one_of(st.just(0), st.integers(1, 2 ** 31))
_sperm = st.one_of(st.just(0), st.just(0), st.integers(1, 23))
_vperm = st.sampled_from([0, 0, 0, 0, 1, 2, 3, 4, 5])
_bool = st.booleans()
_unit = gens.nice(0.0, 1.0, 4)
_sunit = gens.nice(-1.0, 1.0, 4)


@st.composite
def crystals(draw):
    kind = draw(_kind)
    return {'kind': kind, 'a': draw(_a), 'ca': draw(_ca) if kind == 'hcp' else 0.0,
            'orient': draw(_orient), 'extra': [draw(_extra) for _ in range(3)],
            'rot': draw(_rot), 'origin': draw(_origin), 'perm': draw(_perm), 'sperm': draw(_sperm), 'vperm': draw(_vperm),
            'limit': None}


CRYSTALS = crystals()
_gap = st.sampled_from([0, 0, 1, 1, 2])


@st.composite
def shells(draw):
    return {'gap': draw(_gap), 'frac': draw(_unit)}


SHELLS = shells()


_smallrot = gens.rotations(min_angle=0.05, max_angle=8.0)
_emag = st.one_of(gens.nice(0.001, 0.03, 5), st.just(0.03))
_fkind = st.sampled_from(['both', 'both', 'both', 'both', 'rot', 'strain', 'tiny', 'tiny', 'struct', 'struct'])
# near-threshold: almost no strain / almost no rotation (relative 1e-4 .. 1e-12 from the undeformed special case)
_tinymag = st.sampled_from([1e-4, 1e-5, 1e-6, 1e-7, 1e-8, 1e-8, 1e-9, 1e-10, 1e-12])
_tinyang = st.sampled_from([1e-3, 1e-4, 1e-5, 1e-6, 1e-7, 1e-9])
_axis = st.sampled_from([[0, 0, 1], [1, 0, 0], [0, 1, 0], [1, 1, 0], [1, 1, 1], [1, -2, 3]])
_tinykind = st.sampled_from(['both', 'both', 'E', 'R'])
# exactly structured: F = I + M with M zero / diagonal / strictly lower / strictly upper triangular / full, entries k/256
_skind = st.sampled_from(['identity', 'diag', 'lower', 'lower', 'upper', 'upper', 'full'])
_dy = st.integers(-4, 4).map(lambda k: k / 256.0)
_dy_full = st.integers(-2, 2).map(lambda k: k / 256.0)
_SLOTS = {'identity': (), 'diag': (0, 4, 8), 'lower': (3, 6, 7), 'upper': (1, 2, 5), 'full': tuple(range(9))}


@st.composite
def gradients(draw):
    k = draw(_fkind)
    if k == 'struct':
        sk = draw(_skind)
        M = [0.0] * 9
        for j in _SLOTS[sk]:
            M[j] = draw(_dy_full if sk == 'full' else _dy)
        if sk != 'identity' and not any(M):
            M[_SLOTS[sk][0]] = -1.0 / 64.0
        return {'rot': None, 'E': [0.0] * 6, 'emag': 0.0, 'M': M, 'skind': sk}
    if k == 'tiny':
        tk = draw(_tinykind)
        rot = [draw(_axis), draw(_tinyang)] if tk in ('both', 'R') else draw(_smallrot)
        E = [draw(_sunit) for _ in range(6)]
        if not any(E):
            E[0] = 1.0
        return {'rot': rot, 'E': E, 'emag': draw(_tinymag) if tk in ('both', 'E') else draw(_emag)}
    rot = draw(_smallrot) if k in ('both', 'rot') else None
    if k in ('both', 'strain'):
        E = [draw(_sunit) for _ in range(6)]
        if not any(E):
            E[0] = 1.0
        emag = draw(_emag)
    else:
        E, emag = [0.0] * 6, 0.0
    return {'rot': rot, 'E': E, 'emag': emag}


GRADIENTS = gradients()


_t = st.one_of(st.just([0.0, 0.0, 0.0]),
               st.lists(gens.nice(-3.0, 3.0, 3), min_size=3, max_size=3),
               st.lists(gens.nice(-60.0, 60.0, 2), min_size=3, max_size=3))
# near-threshold: atoms a relative 1e-3 .. 1e-12 away from a periodic face of the cell they are wrapped into
_facefrac = st.sampled_from([0.0, 1e-3, -1e-3, 1e-6, -1e-6, 1e-9, -1e-9, 1e-12, -1e-12])
_boxshift = st.one_of(st.just([0.0, 0.0, 0.0]), st.lists(gens.nice(-0.95, 0.95, 3), min_size=3, max_size=3),
                      st.lists(gens.nice(-0.95, 0.95, 3), min_size=3, max_size=3), st.lists(_facefrac, min_size=3, max_size=3))


@st.composite
def moves(draw):
    return {'t': draw(_t), 'boxshift': draw(_boxshift)}


MOVES = moves()


_pbc_strain = st.sampled_from([[True, True, True]] * 5 + gens.PBCS)
_theta = st.one_of(st.none(), st.none(), st.sampled_from([15.0, 20.0, 35.0, 60.0, 180.0]), gens.nice(14.0, 90.0, 1))
_refmode = st.sampled_from(['base', 'base', 'base', 'peratom', 'single', 'axes', 'subset', 'subset'])
_nbrmode = st.sampled_from(['cutoff', 'cutoff', 'neighbors'])
_ref01 = st.sampled_from([0, 1])
_quarter = st.integers(0, 3)
_lazy = st.sampled_from([0, 0, 1, 2, 3, 4, 5, 5, 6])
_third = st.integers(0, 2)
_nyeflag = st.sampled_from([True] * 2 + [False] * 3)
_cfg = st.sampled_from(['F', 'slip'])
_cut = st.integers(0, 2)
_layer = st.integers(0, 10 ** 6)
_t2 = st.lists(gens.nice(-40.0, 40.0, 2), min_size=3, max_size=3)
_w2 = st.lists(gens.nice(-0.95, 0.95, 3), min_size=3, max_size=3)


# ----------------------------------------------------------------------------- object / process histories

QUERY_OPS = ('nlist', 'r0', 'dvect', 'scaled', 'attr', 'wrap', 'derived')
_qop = st.sampled_from(['nlist', 'nlist', 'nlist', 'r0', 'dvect', 'scaled', 'attr', 'attr', 'wrap', 'derived'])
_qint = st.integers(0, 10 ** 6)
_nq = st.sampled_from([0, 1, 1, 2, 2, 3])
_small = st.integers(0, 11)
_state = st.sampled_from(['ref', 'other'])
_forms = st.one_of(st.just(0), st.integers(0, 15))
_intpos = st.sampled_from([False] * 17 + [True] * 3)
_whole_origin = st.lists(st.integers(-20, 20).map(float), min_size=3, max_size=3)


# length unit 10**k of the whole case (see module docstring)
_lscale = st.sampled_from([0] * 5 + [-10, -10, -10, -1, -9] + list(range(-12, 5)))


@st.composite
def queries(draw):
    return [{'op': draw(_qop), 'k': draw(_qint), 'x': draw(_unit)} for _ in range(draw(_nq))]


QUERIES = queries()


@st.composite
def inplace_builds(draw):
    return {'state': draw(_state), 'pos': draw(_small), 'box': draw(_small), 'pbcflip': draw(_bool), 'form': draw(_small)}


_build1 = st.one_of(st.none(), inplace_builds())
_build0 = st.one_of(st.none(), st.none(), inplace_builds())


@st.composite
def histories(draw, build=True):
    return {'ops0': draw(QUERIES), 'ops1': draw(QUERIES), 'build0': draw(_build0) if build else None,
            'build1': draw(_build1) if build else None,
            'decoy': draw(_bool), 'repeat': draw(_bool), 'forms': draw(_forms), 'intpos': draw(_intpos)}


HISTORIES = histories()
HISTORIES_NOBUILD = histories(build=False)

READS = ('G', 'strain', 'rotation', 'invariant1', 'invariant2', 'invariant3', 'angularvelocity', 'nye', 'asdict', 'save')
_read = st.sampled_from(['strain', 'strain', 'rotation', 'invariant1', 'invariant2', 'invariant3', 'angularvelocity',
                         'angularvelocity', 'G', 'nye', 'asdict', 'save'])
_reads = st.lists(_read, min_size=1, max_size=4)
_smode = st.sampled_from(['inplace', 'inplace', 'inplace', 'pvec', 'pvec', 'theta'])
_resolve = st.sampled_from(['solve', 'solve', 'solve', 'solve_theta', 'clear', 'setter'])
_e0 = st.one_of(gens.nice(0.001, 0.01, 5), st.just(0.01))


@st.composite
def strain_histories(draw):
    """an earlier life of the Strain object"""
    return {'mode': draw(_smode), 'F0': draw(GRADIENTS), 'move0': draw(MOVES), 'e0': draw(_e0),
            'reads0': draw(_reads), 'resolve': draw(_resolve), 'build': draw(inplace_builds()), 'pset': draw(_small)}


_shist = st.one_of(st.none(), strain_histories())


def whole_number_crystal(xt, origin, limit=None):
    """the same case on a cubic crystal whose coordinates are whole numbers (handed over as integers)"""
    return dict(xt, kind='fcc' if xt['kind'] == 'hcp' else xt['kind'], a=4.0, ca=0.0, orient=0, rot=None, origin=origin, limit=limit)


# storage dtype of the positions (see module docstring): general crystals / whole-number crystals
_pdt = st.sampled_from([0] * 9 + ['be', 'f32', 'f32'])
_pdt_whole = st.sampled_from([0, 0, 0, 'int', 'int', 'int', 'int', 'f16', 'f16', 'f32', 'be'])
_idt = st.integers(0, 11)
_limit = st.sampled_from([None, None, None, 'i1max', 'i1min', 'u1max', 'i2max', 'i2min', 'u2max'])
_adt = st.one_of(st.just(0), st.integers(0, 6))
_scal = st.one_of(st.just(0), st.integers(0, 15))
_twin = st.sampled_from([False, False, True])


@st.composite
def ios(draw, whole=False):
    return {'pdt': draw(_pdt_whole if whole else _pdt), 'idt': draw(_idt), 'adt': draw(_adt), 'scal': draw(_scal),
            'twin': draw(_twin), 'scribble': draw(_bool)}


IOS = ios()
IOS_WHOLE = ios(whole=True)


def _with_history(draw, c, hist):
    h = draw(hist)
    c['lscale'] = draw(_lscale)
    if h['intpos']:
        c['xtal'] = whole_number_crystal(c['xtal'], draw(_whole_origin), draw(_limit))
        c['lscale'] = max(0, c['lscale'])          # whole numbers stay whole numbers in a smaller unit only
        c['io'] = draw(IOS_WHOLE)
    else:
        c['io'] = draw(IOS)
    c['hist'] = h
    return c


_nbrmode3 = st.sampled_from(['cutoff', 'cutoff', 'neighbors', 'attr'])


@st.composite
def strain_cases(draw):
    c = {'xtal': draw(CRYSTALS), 'shells': draw(SHELLS), 'pbc': draw(_pbc_strain), 'F': draw(GRADIENTS),
         'move': draw(MOVES), 'theta': draw(_theta), 'refmode': draw(_refmode), 'nbrmode': draw(_nbrmode3),
         'wrapper': draw(_quarter) == 0, 'ddref': draw(_ref01), 'ddlazy': draw(_lazy), 'order': draw(_qint),
         'shist': draw(_shist)}
    return _with_history(draw, c, HISTORIES_NOBUILD)


# ----------------------------------------------------------------------------- slip

# near-threshold: a direction 1e-3 .. 1e-12 degrees away from a cell edge / a close-packed direction
_angle_near = st.sampled_from([b + sg * 10.0 ** -k for b in (0.0, 90.0, 180.0, 270.0, 60.0, 45.0) for k in (3, 6, 9, 12) for sg in (1, -1)])
_anyangle = gens.nice(0.0, 360.0, 2)
_angle = st.one_of(_anyangle, _anyangle, _anyangle, _anyangle, _anyangle, _anyangle, _anyangle, _anyangle, _anyangle, _anyangle,
                   st.sampled_from([0.0, 90.0, 180.0, 60.0]), st.sampled_from([0.0, 90.0, 180.0, 60.0]), _angle_near)
# (the slip direction: special and almost-special directions share the quarter the special ones had before, so that generic
# directions keep their share)
_sangle = st.one_of(_anyangle, _anyangle, _anyangle,
                    st.sampled_from([0.0, 90.0, 180.0, 60.0, 0.0, 90.0, 180.0, 60.0, 1e-6, 90.0 - 1e-9, 180.0 + 1e-3, 60.0 + 1e-12, 270.0 - 1e-6,
                                     45.0 + 1e-9]))
# ... and a slip of 1e-3 .. 1e-10 nearest-neighbour distances (almost no slip)
_smag = st.one_of(gens.nice(0.01, 0.4, 4), gens.nice(0.01, 0.4, 4), gens.nice(0.01, 0.4, 4), gens.nice(0.01, 0.4, 4), gens.nice(0.01, 0.4, 4),
                  gens.nice(0.01, 0.4, 4), st.just(0.4), st.just(0.4), st.sampled_from([1e-3, 1e-4, 1e-6, 1e-8, 1e-10]))
_split = st.one_of(st.sampled_from([1.0, 0.0, 0.5]), _unit)
_inpbc = st.sampled_from([[True, True]] * 5 + [[True, False], [False, True], [False, False]])
_cutpbc = st.sampled_from([False, False, False, True])
# ... and a slip plane a relative 1e-3 .. 1e-9 of the layer gap away from one of the two atomic planes it lies between
_planefrac = st.one_of(gens.nice(0.1, 0.9, 3), gens.nice(0.1, 0.9, 3), gens.nice(0.1, 0.9, 3), gens.nice(0.1, 0.9, 3),
                       st.sampled_from([1e-3, 1e-6, 1e-9, 1.0 - 1e-3, 1.0 - 1e-6, 1.0 - 1e-9]))
_ofs = gens.nice(-20.0, 20.0, 2)


@st.composite
def slips(draw):
    """rigid slip: the half above the plane moves by split*s, the half below by -(1-split)*s; s in the plane at
    'angle' from the first in-plane cell vector, |s| = mag * nearest-neighbour distance"""
    return {'cut': draw(_cut), 'layer': draw(_layer), 'frac': draw(_planefrac),
            'angle': draw(_sangle), 'mag': draw(_smag), 'split': draw(_split),
            'inpbc': draw(_inpbc), 'cutpbc': draw(_cutpbc), 'boxshift': draw(_boxshift)}


SLIPS = slips()


@st.composite
def slip_cases(draw):
    c = {'xtal': draw(CRYSTALS), 'shells': draw(SHELLS), 'slip': draw(SLIPS),
         'm_angle': draw(_angle), 'n_flip': draw(_bool), 'plane_ofs': [draw(_ofs), draw(_ofs)],
         'ddref': draw(_ref01), 'ddnbr': draw(_nbrmode), 'svnbr': draw(_nbrmode3),
         'nye': draw(_nyeflag), 'theta': draw(_theta), 'ddlazy': draw(_lazy)}
    return _with_history(draw, c, HISTORIES)


# ----------------------------------------------------------------------------- displacement

_umode = st.sampled_from(['F', 'F', 'F', 'F', 'F', 'slip', 'slip', 'random', 'random', 'random', 'big', 'big', 'decades', 'decades'])
_boxref = st.sampled_from(['default', 'final', 'initial', 'none'])
_amp = st.one_of(gens.nice(0.0, 0.45, 3), gens.nice(0.0, 0.45, 3), gens.nice(0.0, 0.45, 3), gens.nice(0.0, 0.45, 3), st.just(0.45),
                 st.sampled_from([1e-4, 1e-6, 1e-8, 1e-10, 1e-12]))
_ndec = st.integers(8, 12)
_dtop = st.sampled_from([0.4, 0.1, 0.03, 1.0])
_seed = st.integers(1, 2 ** 31)
_pbc_any = st.sampled_from([[True, True, True]] * 3 + gens.PBCS)
_bigt = st.one_of(st.lists(gens.nice(-2.5, 2.5, 3), min_size=3, max_size=3), st.lists(gens.nice(-2.5, 2.5, 3), min_size=3, max_size=3),
                  st.lists(st.integers(-2, 2).map(float), min_size=3, max_size=3))          # whole cell vectors: exactly structured
_pbc1 = st.one_of(st.none(), st.none(), st.none(), st.sampled_from(gens.PBCS))


@st.composite
def displacement_cases(draw):
    mode = draw(_umode)
    c = {'xtal': draw(CRYSTALS), 'shells': {'gap': 0, 'frac': 0.5}, 'pbc': draw(_pbc_any), 'mode': mode,
         'boxref': draw(_boxref), 'move': draw(MOVES), 'pbc1': draw(_pbc1)}
    if mode == 'F':
        c['F'] = draw(GRADIENTS)
    elif mode == 'slip':
        c['slip'] = draw(SLIPS)
    elif mode == 'random':
        c['amp'] = draw(_amp)
        c['useed'] = draw(_seed)
    elif mode == 'decades':
        # one call whose per-atom displacements span ndec decades: atom i is displaced by dtop x 0.45 half-widths x 10**-(i % (ndec+1))
        c['useed'] = draw(_seed)
        c['ndec'] = draw(_ndec)
        c['dtop'] = draw(_dtop)
    else:
        c['bigt'] = draw(_bigt)          # rigid translation in units of the cell vectors, atoms re-wrapped
        c['amp'] = draw(_amp)
        c['useed'] = draw(_seed)
    return _with_history(draw, c, HISTORIES)


# ----------------------------------------------------------------------------- invariance

_tmode = st.sampled_from(['origin', 'wrap', 'both'])
_perm2 = st.integers(0, 2 ** 31)


@st.composite
def invariance_cases(draw):
    kind = draw(_cfg)
    c = {'xtal': draw(CRYSTALS), 'shells': draw(SHELLS), 'config': kind,
         'perm2': draw(_perm2), 'tmode': draw(_tmode),
         't2': draw(_t2),
         'w2': draw(_w2),
         'theta': draw(_theta), 'ddref': draw(_ref01)}
    if kind == 'F':
        c['pbc'] = draw(_pbc_strain)
        c['F'] = draw(GRADIENTS)
        c['move'] = draw(MOVES)
    else:
        c['slip'] = draw(SLIPS)
        c['m_angle'] = draw(_angle)
        c['n_flip'] = draw(_bool)
        c['plane_ofs'] = [draw(_ofs), draw(_ofs)]
    return _with_history(draw, c, HISTORIES_NOBUILD)


# ----------------------------------------------------------------------------- enumerated option combinations (class H)

_NOHIST = {'ops0': [], 'ops1': [], 'build0': None, 'build1': None, 'decoy': False, 'repeat': False, 'forms': 0, 'intpos': False}
_NOIO = {'pdt': 0, 'idt': 0, 'adt': 0, 'scal': 0, 'twin': False, 'scribble': False}
_F0 = {'rot': [[1, -2, 3], 2.5], 'E': [0.6, -0.3, 0.2, 0.5, -0.4, 0.1], 'emag': 0.012}
_F1 = {'rot': [[2, 1, -1], 1.5], 'E': [-0.2, 0.7, 0.1, -0.3, 0.2, 0.4], 'emag': 0.008}
_MOVE = {'t': [0.7, -1.3, 0.4], 'boxshift': [0.31, -0.27, 0.44]}
_PBCS = [[bool(i & 1), bool(i & 2), bool(i & 4)] for i in range(8)]
_BUILD = {'state': 'other', 'pos': 0, 'box': 2, 'pbcflip': False, 'form': 0}
_PROPS = ('G', 'strain', 'rotation', 'invariant1', 'invariant2', 'invariant3', 'angularvelocity', 'nye')
_OPT_XTALS = (
    {'kind': 'fcc', 'a': 3.6, 'ca': 0.0, 'orient': 1, 'extra': [0, 0, 0], 'rot': None, 'origin': [0.0, 0.0, 0.0], 'perm': 0, 'sperm': 0,
     'vperm': 0, 'limit': None},
    {'kind': 'bcc', 'a': 2.9, 'ca': 0.0, 'orient': 2, 'extra': [0, 0, 0], 'rot': [[1, 2, 2], 23.0], 'origin': [1.5, -2.0, 0.5], 'perm': 0,
     'sperm': 0, 'vperm': 0, 'limit': None},
    {'kind': 'hcp', 'a': 3.2, 'ca': 1.6, 'orient': 1, 'extra': [0, 0, 0], 'rot': None, 'origin': [0.0, 0.0, 0.0], 'perm': 0, 'sperm': 5,
     'vperm': 0, 'limit': None},
    {'kind': 'l12', 'a': 3.9, 'ca': 0.0, 'orient': 0, 'extra': [0, 0, 0], 'rot': [[3, -1, 2], 41.0], 'origin': [0.0, 0.0, 0.0], 'perm': 0,
     'sperm': 0, 'vperm': 3, 'limit': None},
)


def _hist(**kw):
    return dict(_NOHIST, **kw)


def _strain_case(xt, **kw):
    c = {'xtal': dict(xt), 'shells': {'gap': 0, 'frac': 0.5}, 'pbc': [True, True, True], 'F': _F0, 'move': _MOVE, 'theta': None,
         'refmode': 'base', 'nbrmode': 'cutoff', 'wrapper': True, 'ddref': 0, 'ddlazy': 0, 'order': 0, 'shist': None, 'lscale': 0,
         'io': dict(_NOIO), 'hist': _hist()}
    c.update(kw)
    return c


def _slip_case(xt, **kw):
    c = {'xtal': dict(xt), 'shells': {'gap': 0, 'frac': 0.5},
         'slip': {'cut': 1, 'layer': 3, 'frac': 0.5, 'angle': 33.0, 'mag': 0.27, 'split': 0.7, 'inpbc': [True, True], 'cutpbc': False,
                  'boxshift': [0.2, 0.0, -0.3]},
         'm_angle': 20.0, 'n_flip': False, 'plane_ofs': [1.5, -2.5], 'ddref': 0, 'ddnbr': 'cutoff', 'svnbr': 'cutoff', 'nye': False,
         'theta': None, 'ddlazy': 0, 'lscale': 0, 'io': dict(_NOIO), 'hist': _hist()}
    c.update(kw)
    return c


def _disp_case(xt, **kw):
    c = {'xtal': dict(xt), 'shells': {'gap': 0, 'frac': 0.5}, 'pbc': [True, True, True], 'mode': 'F', 'boxref': 'default', 'move': _MOVE,
         'pbc1': None, 'F': _F0, 'lscale': 0, 'io': dict(_NOIO), 'hist': _hist()}
    c.update(kw)
    return c


@functools.lru_cache(maxsize=None)
def _option_cases(tier):
    out = []
    xtals = _OPT_XTALS[:1] if tier == 'quick' else _OPT_XTALS
    stale = [{'op': 'attr', 'k': 1, 'x': 0.5}]            # a 'neighbors' attribute left by an earlier query with another cutoff
    for nx, xt in enumerate(xtals):
        # (1) reference vectors: form of p_vectors x axes option x neighbour-list route x second life of the Strain object
        n = 0
        for refmode in ('base', 'peratom', 'peratom_axes', 'single', 'axes', 'subset'):
            for perm in (0, 1, 3, 4):               # list / 3-D array / wrapped single list / plain (n,3) array (see the oracle)
                for nbr in ('cutoff', 'neighbors', 'attr'):
                    for smode in (None, 'pvec'):
                        sh = None if smode is None else {'mode': smode, 'F0': _F1, 'move0': _MOVE, 'e0': 0.004, 'reads0': ['strain'],
                                                         'resolve': ('solve', 'clear', 'setter', 'solve_theta')[n % 4], 'build': _BUILD,
                                                         'pset': n % 6}
                        out.append(('strain', _strain_case(dict(xt, perm=perm), refmode=refmode, nbrmode=nbr, shist=sh,
                                                           theta=(None, 20.0, 60.0)[n % 3], ddref=n % 2, ddlazy=n % 7,
                                                           hist=_hist(ops0=stale if n % 2 else [], ops1=stale if n % 4 < 2 else []))))
                        n += 1
        # (2) cache of the Strain object: earlier state x property read in it x way of recomputing x first property read after
        for smode in ('inplace', 'pvec', 'theta'):
            for resolve in ('solve', 'solve_theta', 'clear', 'setter'):
                for k, read0 in enumerate(_PROPS + ('asdict', 'save')):
                    first = _PROPS[(k + n) % 8]
                    sh = {'mode': smode, 'F0': _F1, 'move0': _MOVE, 'e0': 0.006, 'reads0': [read0], 'resolve': resolve, 'build': _BUILD,
                          'pset': (n % 6) | 1 if k % 2 else n % 6}
                    out.append(('strain', _strain_case(xt, shist=sh, names=[first], ddref=n % 2, ddlazy=n % 7, wrapper=False,
                                                       refmode=('base', 'peratom')[n % 2])))
                    n += 1
        # (3) every ordered pair of properties read first from a fresh object
        if nx == 0:
            for a, b in itertools.permutations(_PROPS, 2):
                out.append(('strain', _strain_case(xt, names=[a, b], wrapper=False, ddref=n % 2, ddlazy=n % 7)))
                n += 1
        # (4) slip: neighbour-list route of slip_vector x stale 'neighbors' attributes on either system
        for sv in ('cutoff', 'neighbors', 'attr'):
            for o0 in ([], stale, [{'op': 'nlist', 'k': 2, 'x': 0.5}], [{'op': 'r0', 'k': 0, 'x': 0.0}]):
                for o1 in ([], stale):
                    out.append(('slip', _slip_case(xt, svnbr=sv, hist=_hist(ops0=o0, ops1=o1), ddref=n % 2, ddlazy=n % 7, nye=(n % 3 == 0))))
                    n += 1
        # (5) slip: reference x list route x construction route of DifferentialDisplacement x in-place history of the systems
        for ddref in (0, 1):
            for ddnbr in ('cutoff', 'neighbors'):
                for lazy in range(7):
                    for b0, b1 in ((None, None), (None, _BUILD), (dict(_BUILD, pbcflip=True), _BUILD)):
                        out.append(('slip', _slip_case(xt, ddref=ddref, ddnbr=ddnbr, ddlazy=lazy, hist=_hist(build0=b0, build1=b1),
                                                       svnbr=('cutoff', 'neighbors', 'attr')[n % 3])))
                        n += 1
        # (6) slip: cut axis x periodicity of the three axes (the flags handed to the compiled kernels one by one)
        for cut in range(3):
            for pb in _PBCS:
                sl = dict(_slip_case(xt)['slip'], cut=cut, inpbc=[pb[0], pb[1]], cutpbc=pb[2], boxshift=[0.45, -0.35, 0.4])
                out.append(('slip', _slip_case(xt, slip=sl, ddref=n % 2, svnbr=('cutoff', 'neighbors', 'attr')[n % 3])))
                n += 1
        # (7) displacement: box_reference x periodicity declared by either system
        for br in ('default', 'final', 'initial', 'none'):
            for p0 in _PBCS:
                for p1 in _PBCS:
                    if tier == 'quick' and br in ('default', 'none') and p0 != p1 and (n % 2):
                        n += 1
                        continue
                    out.append(('displacement', _disp_case(xt, boxref=br, pbc=p0, pbc1=p1, mode=('F', 'random')[n % 2], amp=0.4, useed=7 + n,
                                                           hist=_hist(forms=2 if n % 3 == 0 else 0))))
                    n += 1
    return [{'kind': k, 'case': c} for k, c in out]


def option_cases(tier):
    return copy.deepcopy(_option_cases(tier))
