"""Strategies for C17 (cases are JSON-able dicts; everything heavy is expanded in the oracle).

crystal  {'kind': fcc|bcc|hcp|b2|l12, 'a': float, 'ca': float (hcp), 'orient': int (index into the per-family menu
          of integer re-orientation vectors, resolved modulo its length; 0 = standard setting),
          'extra': [3 ints] supercell multipliers added to the minimum the cutoff needs,
          'rot': None | [axis, angle_deg] rigid rotation of atoms and cell, 'origin': [3] cell origin,
          'perm': int (0 = atoms in construction order, else seed of a Fisher-Yates renumbering)}
shells   {'gap': int (which gap between neighbour shells holds the cutoff, resolved modulo the number of admissible
          gaps), 'frac': float in [0,1] position of the cutoff inside the admissible part of the gap}
F        {'rot': None | [axis, angle<=8], 'E': [6 floats in [-1,1]] (direction of the symmetric part, normalised in
          the oracle), 'emag': spectral norm of the symmetric part (<= 0.03)}
move     {'t': [3] rigid translation of the deformed system, 'boxshift': [3] relative shift of the deformed cell
          against its atoms (atoms are then wrapped back into it: same periodic crystal, other images)}
hist     {'ops0': [query, ...] earlier queries on the reference System object, 'ops1': [...] on the deformed one
          (query = {'op': nlist|r0|dvect|scaled|attr|wrap|derived, 'k': int, 'x': float in [0,1]}, resolved against the
          current state in the oracle), 'build0' / 'build1': None | {'state': ref|other, 'pos': int, 'box': int, 'pbcflip': bool,
          'form': int}: the reference / deformed System object first exists in another state (queried there) and is then brought to
          the judged state in place through the public setters selected by pos / box / form,
          'decoy': bool (the tools run on an unrelated pair of systems in between), 'repeat': bool (the judged
          function calls are repeated at the end and must return the same), 'forms': int (bit field: numpy-scalar
          cutoff, list/tuple vectors, list / Fortran-ordered / read-only p vectors, integer theta_max),
          'intpos': bool (crystal with whole-number coordinates handed over as integers)}
lscale   int k: the length unit of the whole case.  Every length of the case (lattice parameter, cell origin, translations,
          cutoffs, slips, plane positions, p vectors) is multiplied by 10**k in the oracle, k = -12 .. 4 (k = 0: the numbers
          as drawn, Angstrom-like, a healthy third; k = -10: the same crystal in metres, atomman's working units may be SI;
          k = -1: nm; k > 0: pm / fm-like large numbers).  Relative quantities (F, box shifts, slip in nearest-neighbour
          distances, cutoff position inside a shell gap) are not touched.
shist    None | {'mode': inplace|pvec|theta, 'F0': gradient, 'move0': move, 'reads0': [property names read before the
          change], 'resolve': solve|solve_theta|clear|setter, 'pset': int, 'order': int}: one Strain object is solved in an
          earlier state (other deformation of the same System object / other reference vectors / other theta_max),
          read, changed through its public methods and solved again; the second state is the judged one
"""
import functools

from hypothesis import strategies as st

from . import gens

KINDS = ('fcc', 'bcc', 'hcp', 'b2', 'l12')

ORIENT_CUBIC = (
    None,
    [[1, -1, 0], [1, 1, -2], [1, 1, 1]],
    [[1, 1, 0], [-1, 1, 0], [0, 0, 1]],
    [[1, 1, 1], [1, -1, 0], [1, 1, -2]],
    [[1, 0, 0], [1, 1, 0], [0, 0, 1]],
    [[2, 1, 0], [-1, 2, 0], [0, 0, 1]],
    [[1, 0, 0], [0, 1, 0], [1, 1, 2]],
)
ORIENT_HEX = (
    None,
    [[1, 0, 0], [1, 2, 0], [0, 0, 1]],
    [[0, 0, 1], [1, 0, 0], [1, 2, 0]],
    [[1, 2, 0], [0, 0, 1], [1, 0, 0]],
    [[1, 0, 0], [0, 1, 0], [1, 0, 1]],
)


def orient_menu(kind):
    return ORIENT_HEX if kind == 'hcp' else ORIENT_CUBIC


_kind = st.sampled_from(KINDS)
_a = gens.nice(2.5, 5.5, 3)
_ca = st.one_of(st.sampled_from([(8.0 / 3.0) ** 0.5, 1.57, 1.6, 1.65, 1.86]), gens.nice(1.55, 1.9, 3))
_orient = st.one_of(st.just(0), st.integers(1, 20))
_extra = st.sampled_from([0, 0, 0, 1, 1, 2])
_rot = st.one_of(st.none(), gens.rotations(min_angle=1.0))
_origin = st.one_of(st.just([0.0, 0.0, 0.0]),
                    st.lists(gens.nice(-30.0, 30.0, 3), min_size=3, max_size=3))
_perm = st.one_of(st.just(0), st.integers(1, 2 ** 31))
_bool = st.booleans()
_unit = gens.nice(0.0, 1.0, 4)
_sunit = gens.nice(-1.0, 1.0, 4)


@st.composite
def crystals(draw):
    kind = draw(_kind)
    return {'kind': kind, 'a': draw(_a), 'ca': draw(_ca) if kind == 'hcp' else 0.0,
            'orient': draw(_orient), 'extra': [draw(_extra) for _ in range(3)],
            'rot': draw(_rot), 'origin': draw(_origin), 'perm': draw(_perm)}


CRYSTALS = crystals()
_gap = st.sampled_from([0, 0, 1, 1, 2])


@st.composite
def shells(draw):
    return {'gap': draw(_gap), 'frac': draw(_unit)}


SHELLS = shells()


_smallrot = gens.rotations(min_angle=0.05, max_angle=8.0)
_emag = st.one_of(gens.nice(0.001, 0.03, 5), st.just(0.03))
_fkind = st.sampled_from(['both', 'both', 'both', 'rot', 'strain'])


@st.composite
def gradients(draw):
    k = draw(_fkind)
    rot = draw(_smallrot) if k in ('both', 'rot') else None
    if k in ('both', 'strain'):
        E = [draw(_sunit) for _ in range(6)]
        if not any(E):
            E[0] = 1.0
        emag = draw(_emag)
    else:
        E, emag = [0.0] * 6, 0.0
    return {'rot': rot, 'E': E, 'emag': emag}


GRADIENTS = gradients()


_t = st.one_of(st.just([0.0, 0.0, 0.0]),
               st.lists(gens.nice(-3.0, 3.0, 3), min_size=3, max_size=3),
               st.lists(gens.nice(-60.0, 60.0, 2), min_size=3, max_size=3))
_boxshift = st.one_of(st.just([0.0, 0.0, 0.0]), st.lists(gens.nice(-0.95, 0.95, 3), min_size=3, max_size=3))


@st.composite
def moves(draw):
    return {'t': draw(_t), 'boxshift': draw(_boxshift)}


MOVES = moves()


_pbc_strain = st.sampled_from([[True, True, True]] * 5 + gens.PBCS)
_theta = st.one_of(st.none(), st.none(), st.sampled_from([15.0, 20.0, 35.0, 60.0, 180.0]), gens.nice(14.0, 90.0, 1))
_refmode = st.sampled_from(['base', 'base', 'base', 'peratom', 'single', 'axes', 'subset', 'subset'])
_nbrmode = st.sampled_from(['cutoff', 'cutoff', 'neighbors'])
_ref01 = st.sampled_from([0, 1])
_quarter = st.integers(0, 3)
_lazy = st.sampled_from([0, 0, 1, 2, 3, 4, 5, 5, 6])
_third = st.integers(0, 2)
_cfg = st.sampled_from(['F', 'slip'])
_cut = st.integers(0, 2)
_layer = st.integers(0, 10 ** 6)
_t2 = st.lists(gens.nice(-40.0, 40.0, 2), min_size=3, max_size=3)
_w2 = st.lists(gens.nice(-0.95, 0.95, 3), min_size=3, max_size=3)


# ----------------------------------------------------------------------------- object / process histories

QUERY_OPS = ('nlist', 'r0', 'dvect', 'scaled', 'attr', 'wrap', 'derived')
_qop = st.sampled_from(['nlist', 'nlist', 'nlist', 'r0', 'dvect', 'scaled', 'attr', 'attr', 'wrap', 'derived'])
_qint = st.integers(0, 10 ** 6)
_nq = st.sampled_from([0, 1, 1, 2, 2, 3])
_small = st.integers(0, 11)
_state = st.sampled_from(['ref', 'other'])
_forms = st.one_of(st.just(0), st.integers(0, 15))
_intpos = st.sampled_from([False] * 9 + [True])
_whole_origin = st.lists(st.integers(-20, 20).map(float), min_size=3, max_size=3)


# length unit 10**k of the whole case (see module docstring)
_lscale = st.sampled_from([0] * 5 + [-10, -10, -10, -1, -9] + list(range(-12, 5)))


@st.composite
def queries(draw):
    return [{'op': draw(_qop), 'k': draw(_qint), 'x': draw(_unit)} for _ in range(draw(_nq))]


QUERIES = queries()


@st.composite
def inplace_builds(draw):
    return {'state': draw(_state), 'pos': draw(_small), 'box': draw(_small), 'pbcflip': draw(_bool), 'form': draw(_small)}


_build1 = st.one_of(st.none(), inplace_builds())
_build0 = st.one_of(st.none(), st.none(), inplace_builds())


@st.composite
def histories(draw, build=True):
    return {'ops0': draw(QUERIES), 'ops1': draw(QUERIES), 'build0': draw(_build0) if build else None,
            'build1': draw(_build1) if build else None,
            'decoy': draw(_bool), 'repeat': draw(_bool), 'forms': draw(_forms), 'intpos': draw(_intpos)}


HISTORIES = histories()
HISTORIES_NOBUILD = histories(build=False)

READS = ('G', 'strain', 'rotation', 'invariant1', 'invariant2', 'invariant3', 'angularvelocity', 'nye', 'asdict', 'save')
_read = st.sampled_from(['strain', 'strain', 'rotation', 'invariant1', 'invariant2', 'invariant3', 'angularvelocity',
                         'angularvelocity', 'G', 'nye', 'asdict', 'save'])
_reads = st.lists(_read, min_size=1, max_size=4)
_smode = st.sampled_from(['inplace', 'inplace', 'inplace', 'pvec', 'pvec', 'theta'])
_resolve = st.sampled_from(['solve', 'solve', 'solve', 'solve_theta', 'clear', 'setter'])
_e0 = st.one_of(gens.nice(0.001, 0.01, 5), st.just(0.01))


@st.composite
def strain_histories(draw):
    """an earlier life of the Strain object"""
    return {'mode': draw(_smode), 'F0': draw(GRADIENTS), 'move0': draw(MOVES), 'e0': draw(_e0),
            'reads0': draw(_reads), 'resolve': draw(_resolve), 'build': draw(inplace_builds()), 'pset': draw(_small)}


_shist = st.one_of(st.none(), strain_histories())


def whole_number_crystal(xt, origin):
    """the same case on a cubic crystal whose coordinates are whole numbers (handed over as integers)"""
    return dict(xt, kind='fcc' if xt['kind'] == 'hcp' else xt['kind'], a=4.0, ca=0.0, orient=0, rot=None, origin=origin)


def _with_history(draw, c, hist):
    h = draw(hist)
    c['lscale'] = draw(_lscale)
    if h['intpos']:
        c['xtal'] = whole_number_crystal(c['xtal'], draw(_whole_origin))
        c['lscale'] = max(0, c['lscale'])          # whole numbers stay whole numbers in a smaller unit only
    c['hist'] = h
    return c


_nbrmode3 = st.sampled_from(['cutoff', 'cutoff', 'neighbors', 'attr'])


@st.composite
def strain_cases(draw):
    c = {'xtal': draw(CRYSTALS), 'shells': draw(SHELLS), 'pbc': draw(_pbc_strain), 'F': draw(GRADIENTS),
         'move': draw(MOVES), 'theta': draw(_theta), 'refmode': draw(_refmode), 'nbrmode': draw(_nbrmode3),
         'wrapper': draw(_quarter) == 0, 'ddref': draw(_ref01), 'ddlazy': draw(_lazy), 'order': draw(_qint),
         'shist': draw(_shist)}
    return _with_history(draw, c, HISTORIES_NOBUILD)


# ----------------------------------------------------------------------------- slip

_angle = st.one_of(gens.nice(0.0, 360.0, 2), gens.nice(0.0, 360.0, 2), gens.nice(0.0, 360.0, 2), st.sampled_from([0.0, 90.0, 180.0, 60.0]))
_smag = st.one_of(gens.nice(0.01, 0.4, 4), st.just(0.4))
_split = st.one_of(st.sampled_from([1.0, 0.0, 0.5]), _unit)
_inpbc = st.sampled_from([[True, True]] * 5 + [[True, False], [False, True], [False, False]])
_cutpbc = st.sampled_from([False, False, False, True])
_planefrac = gens.nice(0.1, 0.9, 3)
_ofs = gens.nice(-20.0, 20.0, 2)


@st.composite
def slips(draw):
    """rigid slip: the half above the plane moves by split*s, the half below by -(1-split)*s; s in the plane at
    'angle' from the first in-plane cell vector, |s| = mag * nearest-neighbour distance"""
    return {'cut': draw(_cut), 'layer': draw(_layer), 'frac': draw(_planefrac),
            'angle': draw(_angle), 'mag': draw(_smag), 'split': draw(_split),
            'inpbc': draw(_inpbc), 'cutpbc': draw(_cutpbc), 'boxshift': draw(_boxshift)}


SLIPS = slips()


@st.composite
def slip_cases(draw):
    c = {'xtal': draw(CRYSTALS), 'shells': draw(SHELLS), 'slip': draw(SLIPS),
         'm_angle': draw(_angle), 'n_flip': draw(_bool), 'plane_ofs': [draw(_ofs), draw(_ofs)],
         'ddref': draw(_ref01), 'ddnbr': draw(_nbrmode), 'svnbr': draw(_nbrmode3),
         'nye': draw(_third) == 0, 'theta': draw(_theta), 'ddlazy': draw(_lazy)}
    return _with_history(draw, c, HISTORIES)


# ----------------------------------------------------------------------------- displacement

_umode = st.sampled_from(['F', 'F', 'slip', 'random', 'random', 'big'])
_boxref = st.sampled_from(['default', 'final', 'initial', 'none'])
_amp = st.one_of(gens.nice(0.0, 0.45, 3), st.just(0.45))
_seed = st.integers(1, 2 ** 31)
_pbc_any = st.sampled_from([[True, True, True]] * 3 + gens.PBCS)
_bigt = st.lists(gens.nice(-2.5, 2.5, 3), min_size=3, max_size=3)
_pbc1 = st.one_of(st.none(), st.none(), st.none(), st.sampled_from(gens.PBCS))


@st.composite
def displacement_cases(draw):
    mode = draw(_umode)
    c = {'xtal': draw(CRYSTALS), 'shells': {'gap': 0, 'frac': 0.5}, 'pbc': draw(_pbc_any), 'mode': mode,
         'boxref': draw(_boxref), 'move': draw(MOVES), 'pbc1': draw(_pbc1)}
    if mode == 'F':
        c['F'] = draw(GRADIENTS)
    elif mode == 'slip':
        c['slip'] = draw(SLIPS)
    elif mode == 'random':
        c['amp'] = draw(_amp)
        c['useed'] = draw(_seed)
    else:
        c['bigt'] = draw(_bigt)          # rigid translation in units of the cell vectors, atoms re-wrapped
        c['amp'] = draw(_amp)
        c['useed'] = draw(_seed)
    return _with_history(draw, c, HISTORIES)


# ----------------------------------------------------------------------------- invariance

_tmode = st.sampled_from(['origin', 'wrap', 'both'])
_perm2 = st.integers(0, 2 ** 31)


@st.composite
def invariance_cases(draw):
    kind = draw(_cfg)
    c = {'xtal': draw(CRYSTALS), 'shells': draw(SHELLS), 'config': kind,
         'perm2': draw(_perm2), 'tmode': draw(_tmode),
         't2': draw(_t2),
         'w2': draw(_w2),
         'theta': draw(_theta), 'ddref': draw(_ref01)}
    if kind == 'F':
        c['pbc'] = draw(_pbc_strain)
        c['F'] = draw(GRADIENTS)
        c['move'] = draw(MOVES)
    else:
        c['slip'] = draw(SLIPS)
        c['m_angle'] = draw(_angle)
        c['n_flip'] = draw(_bool)
        c['plane_ofs'] = [draw(_ofs), draw(_ofs)]
    return _with_history(draw, c, HISTORIES_NOBUILD)
