"""Generators of Volterra-dislocation problems (C12).  Pure numpy + Hypothesis; never imports atomman.

A *problem* is a JSON-able dict

  {'C': <tensor case of gens_c11> | <near-isotropic case, see neariso_tensors>,
   'cscale': 1.0 | 0.00624150913 (GPa-like numbers or eV/A^3-like numbers),
   'solver': 'stroh' | 'iso' | 'auto',
   'mn': {'kind': 'default'} | {'kind': 'str', 'm': 'z', 'n': 'x', 'pass': 'ss'|'sv'|'vs'} | {'kind': 'vec', 'rot': [axis, angle]},
   'orient': {'kind': 'none'}
           | {'kind': 'transform', 'rot': [axis, angle], 'rowscale': [3 positive], 'via': 'transform' | 'axes'}
           | {'kind': 'miller', 'box': {'family':... ('unit': no box given), 'abc': [a,b,c,alpha,beta,gamma]}, 'uvw': [3 ints], 'hkl': [3 ints],
              'four': bool (hexagonal only: hand over [uvtw], (hkil) and a 4-index Burgers vector)},
   'bsol': [b_m, b_n, b_xi]   Burgers vector by its components in the solution frame (m, n, xi): the Burgers vector handed
                              to the solver is T^t bsol (Cartesian crystal frame) or that vector in lattice coordinates,
   'aslist': bool             arguments as nested lists instead of arrays,
   'bgiven': [3 or 4 numbers] optional: the EXACT Burgers vector to hand over (Cartesian crystal frame or lattice coordinates,
                              halves / eighths of integers); 'bsol' is then derived from it (see exact_b)}

Cross-pollination round (generator classes, see /verif/seeded/INDEX.md):
  orient  {'kind': 'rows', 'rows': [[ints]] * 3, 'via': ..., 'sub': 'perm' | 'int'}   EXACTLY structured orientation: a proper signed
          permutation of the axes with integer row lengths, or an orthogonal right-handed triple of integer vectors ([1 1 -2],
          [1 1 1], [1 -1 0] ...): the way orientations are written by hand; representable in every dtype
          {'kind': 'transform', ..., 'near': True}   a rotation 1e-12 .. 1e-2 degrees away from the identity / a quarter, half or
          third turn about a crystal axis (almost-special orientation)
  mn      {'kind': 'axis', 'm': [0, -1, 0], 'n': [0, 0, 1]}   the 24 perpendicular pairs of SIGNED Cartesian axes handed over as vectors
          {'kind': 'vec', ..., 'near': True}   the default pair rotated by 1e-12 .. 1e-2 degrees (or that close to a quarter turn ...)
  box     family 'near_<family>': the lattice parameters of a cubic / hexagonal / tetragonal / orthorhombic cell with relative
          deviations 1e-12 .. 1e-6 in the lengths and 1e-12 .. 1e-6 degrees in the angles (box_vects zeroes what lies below
          3e-9 of the largest entry: Box's documented 1e-9 clean-up cannot make a difference)
  points  local points 1e-12 .. 1e-3 (relative) off the +x, +y and -y axes of the frame (never that close to the cut)

Field points are local coordinates [x, y, z] in the (m, n, xi) frame: pos = x m + y n + z xi, with 0.3 <= hypot(x,y) <= 45
and at least 0.05 rad away from the cut half-plane (y = 0, x < 0).
"""
import functools
import math

import numpy as np
from hypothesis import strategies as st

from . import gens
from . import gens_c11 as g11
from .oracles import elastic as el
from .oracles import volterra_ref as vr

EV_A3 = 0.00624150913          # 1 GPa in eV/A^3

_bool = st.booleans()
_sel = st.integers(0, 11)
_axis = st.lists(st.integers(-5, 5), min_size=3, max_size=3).filter(any)
_angle = st.one_of(gens.nice(5.0, 175.0, 2), gens.nice(5.0, 175.0, 2), st.sampled_from([90.0, 180.0, 120.0, 45.0]))
_rot = st.tuples(_axis, _angle).map(list)
_NEAR_BASE = [([0, 0, 1], 0.0), ([1, 2, -2], 0.0), ([3, -1, 1], 0.0), ([0, 0, 1], 90.0), ([1, 0, 0], 90.0), ([0, 1, 0], -90.0),
              ([1, 1, 1], 120.0), ([0, 0, 1], 180.0), ([1, 1, 0], 180.0), ([1, -1, 1], -120.0)]
_near_base = st.sampled_from(_NEAR_BASE)
_near_k = st.sampled_from([2, 3, 4, 5, 6, 6, 7, 7, 8, 8, 9, 10, 11, 12])
_rowscale = st.lists(st.sampled_from([1.0, 1.0, 2.0, 0.5, 3.7, 0.013, 41.0]), min_size=3, max_size=3)
_strpairs = st.sampled_from([('x', 'y'), ('y', 'z'), ('z', 'x'), ('y', 'x'), ('z', 'y'), ('x', 'z')])
_strpass = st.sampled_from(['ss', 'ss', 'sv', 'vs'])
_mag = st.one_of(gens.nice(0.5, 8.0, 3), gens.nice(0.5, 8.0, 3), st.sampled_from([1.0, 2.5, 2.8556]))
_sign = st.sampled_from([1.0, -1.0])
_ratio = st.sampled_from([1e-2, 1e-4, 1e-6])
_ratio_e = st.sampled_from([1e-7, 3e-8, 1e-9, 1e-10, 1e-12])       # around the documented zeroing threshold tol = 1e-8 (never on it)
_cscale = st.sampled_from([1.0, 1.0, EV_A3])
_small = st.integers(-3, 3)
_mult = st.sampled_from([1, 1, 1, 2, 3])
_uvw = st.lists(_small, min_size=3, max_size=3).filter(any)
_fam = st.sampled_from(['unit', 'cubic', 'cubic', 'hexagonal', 'hexagonal', 'orthorhombic', 'tetragonal', 'monoclinic',
                        'triclinic', 'near'])
_near_fam = st.sampled_from(['cubic', 'hexagonal', 'hexagonal', 'tetragonal', 'orthorhombic'])
_near_ck = st.sampled_from([6, 7, 8, 9, 10, 12])
_sgn0 = st.sampled_from([1.0, -1.0, 0.0])


def pow10(k):
    return float('1e%d' % int(k))


@st.composite
def near_rot(draw):
    """[axis, angle]: 1e-12 .. 1e-2 degrees away from the identity or from a quarter / half / third turn about a crystal axis"""
    ax, a0 = draw(_near_base)
    return [list(ax), a0 + draw(_sign) * pow10(-draw(_near_k))]


@st.composite
def _near_cell(draw):
    fam = draw(_near_fam)
    fp = draw(gens.family_params(fam))
    d = [draw(_sgn0) * pow10(-draw(_near_ck)) for _ in range(6)]
    if not any(d):
        d[1] = 1e-9
    a, b, c, al, be, ga = fp['abc']
    return {'family': 'near_' + fam, 'abc': [a * (1 + d[0]), b * (1 + d[1]), c * (1 + d[2]), al + d[3], be + d[4], ga + d[5]]}


@functools.lru_cache(maxsize=None)
def _famparams(fam):
    if fam == 'unit':            # no box handed over: indices are taken with respect to a cubic cell with a = 1
        return st.just({'family': 'unit', 'abc': [1.0, 1.0, 1.0, 90.0, 90.0, 90.0]})
    if fam == 'near':
        return _near_cell()
    return gens.family_params(fam)

# isotropic medium: E in [1,600], nu on a grid in [0.0001, 0.495] or exactly 0 (nu of order 1e-8 sits on the zeroing
# threshold of ElasticConstants.transform, which is C11's listed finding and not this property's business)
_E = gens.nice(1.0, 600.0, 3)
_nu = st.one_of(st.integers(1, 4950).map(lambda k: k / 10000.0), st.integers(1, 4950).map(lambda k: k / 10000.0),
                st.sampled_from([0.0, 0.25, 1.0 / 3.0, 0.3, 0.495]))


@functools.lru_cache(maxsize=None)
def iso_tensors():
    return st.tuples(_E, _nu).map(lambda t: {'kind': 'named', 'system': 'isotropic', 'C': {'E': t[0], 'nu': t[1]}})


# ----------------------------------------------------------------------------- nearly isotropic media
# The isotropic class accepts every C with  numpy.allclose(C.Cij, C.normalized_as('isotropic').Cij, atol=0, rtol=1e-4)
# (IsotropicVolterraDislocation.solve): every entry within a RELATIVE 1e-4 of the corresponding entry of the isotropic tensor
# built from the Hill bulk and shear moduli of C, entries that vanish for an isotropic medium exactly zero.  The accepted
# class is therefore: orthotropic sparsity in the given axes (cubic, hexagonal, tetragonal with C16 = 0, orthorhombic in a
# standard setting or with the axes permuted), each of the nine constants within 1e-4 of the isotropic average.  Such a medium
# is what fitted / computed elastic constants of an "isotropic" model look like.
#
#   {'kind': 'neariso', 'E': .., 'nu': .., 'sys': 'cubic'|'hexagonal'|'tetragonal'|'orthorhombic', 'perm': 0..5 (which
#    crystal axis is x, y, z), 'd': [9 numbers in [-1,1]: relative deviations of C11 C22 C33 C12 C13 C23 C44 C55 C66, tied
#    together as the system demands], 'eps': amplitude, 'q': the deviation aimed at in units of the acceptance band}
#
# C_IJ = Ciso_IJ (1 + eps d_IJ); eps is fixed IN THE STRATEGY so that iso_deviation(C) (my own reading of the acceptance
# test) is q 1e-4 to within 1 %:  q log-uniform in [1e-3, 0.9] (anisotropy 1e-7 .. 9e-5), q in {0.9, 0.95, 0.97} (just
# inside the band), q in {1.05 .. 5} (just outside: the class has to be refused or, if a solver accepts it, solved).

BAND = 1e-4
NEAR_SYSTEMS = ('cubic', 'hexagonal', 'tetragonal', 'orthorhombic')
_PERMS = ((0, 1, 2), (1, 2, 0), (2, 0, 1), (0, 2, 1), (2, 1, 0), (1, 0, 2))
_NINE = ((0, 0), (1, 1), (2, 2), (0, 1), (0, 2), (1, 2), (3, 3), (4, 4), (5, 5))


def _tie(sys_, d):
    """the nine relative deviations with the equalities of the crystal system imposed (unique axis: 3)"""
    d11, d22, d33, d12, d13, d23, d44, d55, d66 = d
    if sys_ == 'cubic':
        return [d11, d11, d11, d12, d12, d12, d44, d44, d44]
    if sys_ in ('tetragonal', 'hexagonal'):
        return [d11, d11, d33, d12, d13, d13, d44, d44, d66]
    return list(d)


def neariso_cij(case, eps=None):
    """(6,6) Voigt stiffness of a near-isotropic case (before cscale)"""
    mo = el.isotropic_moduli(case['E'], case['nu'])
    C = el.isotropic_voigt(mo['lambda'], mo['mu'])
    eps = case['eps'] if eps is None else eps
    for (i, j), v in zip(_NINE, _tie(case['sys'], case['d'])):
        C[i, j] = C[j, i] = C[i, j] * (1.0 + eps * v)
    if case['sys'] == 'hexagonal':
        C[5, 5] = (C[0, 0] - C[0, 1]) / 2
    p = _PERMS[case['perm']]
    # crystal axis k becomes Cartesian axis p[k]: a relabelling of the Voigt indices, exact
    idx = [int(el.VI[p[i], p[j]]) for (i, j) in el.PAIRS]
    out = np.empty((6, 6))
    out[np.ix_(idx, idx)] = C
    return out


def iso_deviation(C6):
    """my own reading of the isotropic class's acceptance test: (largest |C_IJ - N_IJ| / |N_IJ|, N, K, G) with N the isotropic
    tensor of the Hill bulk and shear moduli K, G of C; inf when an entry that vanishes in N does not vanish in C.  Both
    tensors go through the Cij setter, which zeroes entries below 1e-9 of the largest (nu = 0: C12 = K - 2G/3 is rounding
    residue).  When an entry of N lies within a factor 100 of that floor the outcome hangs on rounding: the deviation
    returned is then BAND itself (neither acceptance nor refusal can be demanded; callers do not judge such a medium)."""
    v = el.vrh(C6)
    K, G = v[('bulk', 'Hill')], v[('shear', 'Hill')]
    N = el.isotropic_voigt(K - 2 * G / 3, G)
    C6 = np.array(C6, dtype=float)
    a = np.abs(N) / np.abs(N).max()
    if np.any((a > 1e-11) & (a < 1e-7)):
        return BAND, N, K, G
    N[a <= 1e-11] = 0.0
    C6[np.abs(C6) <= 1e-9 * np.abs(C6).max()] = 0.0
    zero = N == 0.0
    if np.any(C6[zero] != 0.0):
        return float('inf'), N, K, G
    return float((np.abs(C6 - N)[~zero] / np.abs(N)[~zero]).max()), N, K, G


def _with_eps(case):
    """fix the amplitude so that the deviation is q BAND (the deviation is linear in eps up to O(eps^2))"""
    case = dict(case)
    eps = 1e-6
    for _ in range(3):
        dev = iso_deviation(neariso_cij(case, eps))[0]
        if not (0.0 < dev < float('inf')):
            break
        eps = eps * case['q'] * BAND / dev
    if not (1e-9 <= eps <= 1e-2):
        # the pattern d does not take the medium away from isotropy (a uniform scaling, nu = 0 with C12 = 0 exactly, ...):
        # plain amplitude; the labels are taken from the deviation actually reached
        eps = case['q'] * BAND
    case['eps'] = float(eps)
    return case


_qlog = st.floats(-3.0, math.log10(0.9)).map(lambda x: round(10.0 ** x, 6))
_q = st.one_of(_qlog, _qlog, _qlog, st.sampled_from([0.9, 0.95, 0.97, 0.97, 0.8, 1.05]),
               st.sampled_from([0.5, 0.93, 0.96, 1.3, 2.0, 5.0]))
_dev9 = st.lists(st.one_of(gens.nice(-1.0, 1.0, 3), st.sampled_from([1.0, -1.0, 0.0])), min_size=9, max_size=9)
# nu >= 1e-4 (no exact 0): with C12 = 0 the Hill average has C12 ~ eps E, on the 1e-9 zeroing floor of the Cij setter
_nu_near = st.one_of(st.integers(1, 4950).map(lambda k: k / 10000.0), st.integers(1, 4950).map(lambda k: k / 10000.0),
                     st.sampled_from([0.25, 1.0 / 3.0, 0.3, 0.495, 0.0001]))


@functools.lru_cache(maxsize=None)
def neariso_tensors():
    return st.fixed_dictionaries({'kind': st.just('neariso'), 'E': _E, 'nu': _nu_near, 'sys': st.sampled_from(NEAR_SYSTEMS),
                                  'perm': st.integers(0, 5), 'd': _dev9, 'q': _q}).map(_with_eps)


@functools.lru_cache(maxsize=None)
def mn_specs():
    @st.composite
    def _mn(draw):
        w = draw(_sel)
        if w <= 1:
            return {'kind': 'default'}
        if w <= 4:
            m, n = draw(_strpairs)
            # 'ss': both as strings; 'sv' / 'vs': one as string, the other as the unit vector it stands for
            return {'kind': 'str', 'm': m, 'n': n, 'pass': draw(_strpass)}
        if w == 5:
            m, n = draw(_axpairs)
            return {'kind': 'axis', 'm': list(m), 'n': list(n)}
        if w == 6 and draw(_bool):
            return {'kind': 'vec', 'rot': draw(near_rot()), 'near': True}
        return {'kind': 'vec', 'rot': draw(_rot)}
    return _mn()


def _signed_axes():
    out = []
    for i in range(3):
        for s in (1, -1):
            v = [0, 0, 0]
            v[i] = s
            out.append(tuple(v))
    return out


AXPAIRS = [(a, b) for a in _signed_axes() for b in _signed_axes() if not any(x and y for x, y in zip(a, b))]       # 24 pairs
_axpairs = st.sampled_from(AXPAIRS)


def _signed_perms():
    """the 24 proper rotations that map the Cartesian axes onto each other, as integer matrices"""
    out = []
    for p in _PERMS:
        for sx in (1, -1):
            for sy in (1, -1):
                for sz in (1, -1):
                    M = [[0, 0, 0] for _ in range(3)]
                    for i, sg in enumerate((sx, sy, sz)):
                        M[i][p[i]] = sg
                    if round(float(np.linalg.det(np.array(M, dtype=float)))) == 1:
                        out.append(M)
    return out


def int_triple(a, other):
    """right-handed orthogonal triple of integer vectors whose first member is a"""
    b = _perp_plane(a, other)
    c = np.cross(np.array(a, dtype=int), np.array(b, dtype=int))
    gc = int(np.gcd.reduce(np.abs(c)))
    return [[int(v) for v in a], b, [int(v) for v in c // gc]]


def _perp_plane(uvw, other):
    u = np.array(uvw, dtype=int)
    c = np.cross(u, np.array(other, dtype=int))
    if not c.any():
        for o in ((1, 0, 0), (0, 1, 0), (0, 0, 1)):
            c = np.cross(u, np.array(o, dtype=int))
            if c.any():
                break
    g = int(np.gcd.reduce(np.abs(c)))
    return [int(v) for v in c // g]


@st.composite
def miller_spec(draw):
    fp = draw(_famparams(draw(_fam)))
    uvw = draw(_uvw)
    k = draw(_mult)                               # planes need not be given in lowest terms
    hkl = [k * v for v in _perp_plane(uvw, draw(_uvw))]      # integer plane indices with h u + k v + l w = 0
    return {'kind': 'miller', 'box': fp, 'uvw': uvw, 'hkl': hkl,
            'four': bool(fp['family'].endswith('hexagonal') and draw(_bool))}


SIGNED_PERMS = _signed_perms()
_sperm = st.sampled_from(SIGNED_PERMS)
_introw = st.sampled_from([1, 1, 1, 2, 3, 5])
_cyc = st.integers(0, 2)


@st.composite
def rows_spec(draw):
    """exactly structured orientation: integer rows, orthogonal and right-handed by construction"""
    via = 'axes' if draw(_sel) < 5 else 'transform'
    if draw(_bool):
        P = draw(_sperm)
        k = [draw(_introw) for _ in range(3)]
        return {'kind': 'rows', 'rows': [[k[i] * v for v in P[i]] for i in range(3)], 'via': via, 'sub': 'perm'}
    T = int_triple(draw(_uvw), draw(_uvw))
    c = draw(_cyc)                                    # cyclic relabelling keeps the triple right-handed
    T = T[c:] + T[:c]
    k = [draw(_mult) for _ in range(3)]
    return {'kind': 'rows', 'rows': [[k[i] * v for v in T[i]] for i in range(3)], 'via': via, 'sub': 'int'}


@functools.lru_cache(maxsize=None)
def orient_specs():
    @st.composite
    def _o(draw):
        w = draw(_sel)
        if w == 0:
            return {'kind': 'none'}
        if w == 6:
            return draw(rows_spec())
        if w == 5 and draw(_bool):
            return {'kind': 'transform', 'rot': draw(near_rot()), 'rowscale': draw(_rowscale),
                    'via': 'axes' if draw(_sel) < 3 else 'transform', 'near': True}
        if w <= 6:
            return {'kind': 'transform', 'rot': draw(_rot), 'rowscale': draw(_rowscale),
                    'via': 'axes' if draw(_sel) < 3 else 'transform'}
        return draw(miller_spec())
    return _o()


@functools.lru_cache(maxsize=None)
def burgers(in_plane):
    """components (b_m, b_n, b_xi) in the solution frame; in_plane: b_n = 0 (isotropic solver)"""
    @st.composite
    def _b(draw):
        w = draw(_sel)
        a, b, c = (draw(_mag) * draw(_sign) for _ in range(3))
        if w <= 1:
            return [0.0, 0.0, a]                   # screw
        if w <= 3:
            return [a, 0.0, 0.0]                   # edge
        if w <= 7:
            return [a, 0.0, b]                     # mixed, in the slip plane
        if w == 8:                                 # mixed with one component far smaller than the other (kept: > 1e-8)
            q = draw(_ratio)
            if draw(_sel) <= 2:                    # ... or on either side of the documented zeroing threshold tol = 1e-8
                q = draw(_ratio_e)
            return [a * q, 0.0, b] if draw(_bool) else [a, 0.0, b * q]
        if in_plane:
            return [a, 0.0, b]
        if w == 9:
            return [0.0, a, 0.0]                   # prismatic / climb edge (Burgers vector along the plane normal)
        return [a, b, c]                           # general
    return _b()


# exactly representable local points (x, y): on the coordinate axes and diagonals of the frame (never on the cut)
_EXACT_XY = [(1.0, 0.0), (3.0, 0.0), (0.5, 0.0), (0.0, 1.0), (0.0, -2.0), (0.0, 0.5), (0.0, -0.75), (1.0, 1.0), (-1.0, 1.0),
             (-1.0, -1.0), (2.0, -2.0), (-2.0, 3.0), (-3.0, -1.0), (4.0, 1.0), (-8.0, 8.0), (0.0, 16.0), (24.0, 0.0)]
_exact_xy = st.sampled_from(_EXACT_XY)
_exact_z = st.sampled_from([0.0, 0.0, 1.0, -2.0, 0.5])
_r = st.one_of(gens.nice(0.3, 3.0, 4), gens.nice(3.0, 30.0, 3))
_phi = st.one_of(gens.nice(-177.0, 177.0, 3), gens.nice(-177.0, 177.0, 3),
                 st.sampled_from([0.0, 90.0, -90.0, 45.0, -45.0, 135.0, -135.0, 177.0, -177.0, 30.0, -120.0]))
_z = st.one_of(gens.nice(-10.0, 10.0, 3), st.just(0.0))


_NEAR_AX = [(1.0, 0.0), (0.0, 1.0), (0.0, -1.0), (1.0, 0.0), (0.0, 1.0), (0.0, -1.0), (1.0, 1.0), (-1.0, 1.0)]
_near_ax = st.sampled_from(_NEAR_AX)
_near_pk = st.integers(3, 12)


@st.composite
def local_point(draw):
    w = draw(_sel)
    if w <= 1:
        x, y = draw(_exact_xy)
        return [x, y, draw(_exact_z)]
    if w == 2:
        # 1e-12 .. 1e-3 (relative) off the +x, +y, -y axis of the frame or off a diagonal (never that close to the cut)
        ax, ay = draw(_near_ax)
        r, d = draw(_r), draw(_sign) * pow10(-draw(_near_pk))
        return [r * (ax - d * ay), r * (ay + d * ax), draw(_exact_z)]
    r, phi = draw(_r), draw(_phi)
    t = math.radians(phi)
    return [r * math.cos(t), r * math.sin(t), draw(_z)]


@functools.lru_cache(maxsize=None)
def local_points(nmin, nmax):
    return st.lists(local_point(), min_size=nmin, max_size=nmax)


@functools.lru_cache(maxsize=None)
def problems(solver=None, aniso=None):
    """solver: None (mixture), 'stroh', 'iso', 'auto'.  Anisotropic media from gens_c11.tensors (all crystal systems in
    standard setting, generic SPD, rotated), isotropic ones from iso_tensors, nearly isotropic ones (inside and just outside
    the isotropic class's acceptance band) from neariso_tensors: 5/12 of the media of the isotropic class, 3/12 of the media
    handed to the dispatcher."""
    tens = aniso if aniso is not None else g11.tensors(isotropic_too=False)

    @st.composite
    def _p(draw):
        s = solver
        if s is None:
            w = draw(_sel)
            s = 'stroh' if w <= 5 else 'iso' if w <= 8 else 'auto'
        if s == 'iso':
            C = draw(iso_tensors()) if draw(_sel) <= 6 else draw(neariso_tensors())
        elif s == 'auto':
            w = draw(_sel)
            C = draw(iso_tensors()) if w <= 3 else draw(neariso_tensors()) if w <= 6 else draw(tens)
        else:
            C = draw(tens)
        isotropic = C['kind'] == 'neariso' or (C['kind'] == 'named' and C['system'] == 'isotropic')
        prob = {'C': C, 'cscale': draw(_cscale), 'solver': s, 'mn': draw(mn_specs()), 'orient': draw(orient_specs()),
                'bsol': draw(burgers(isotropic)), 'aslist': draw(_bool)}
        if prob['orient']['kind'] in ('rows', 'miller') and draw(_sel) <= (7 if prob['orient']['kind'] == 'rows' else 2):
            prob = exact_b(prob, draw(_small), draw(_small), draw(_small), isotropic)
        return prob
    return _p()


def exact_b(prob, i, j, k, in_plane):
    """the Burgers vector as it is written by hand: halves of lattice vectors (Miller orientation: (i [uvw] + j [hkl x uvw]) / 2 in
    lattice coordinates, in the slip plane of ANY cell) or eighths of the integer orientation rows (rows orientation with axis-
    aligned m, n: the rows that become m and xi, and - not for the isotropic class - the one that becomes n).  'bgiven' is handed
    over as it stands; 'bsol' is what it amounts to in the (m, n, xi) frame (components below 1e-13 of the largest: exact zeros
    of the construction).  Returns prob unchanged where the construction does not apply."""
    o = prob['orient']
    m, n, xi = vr.frame_of(prob['mn'])
    if not (i or j):
        i = 1
    if o['kind'] == 'miller':
        u, h = np.array(o['uvw'], dtype=int), np.array(o['hkl'], dtype=int)
        lat = (i * u + j * np.cross(h, u)) / 2.0
        bc = lat @ box_vects(o['box'])
        given = three_to_four_vector(lat.tolist()) if o['four'] else lat.tolist()
    elif o['kind'] in ('rows', 'none') and prob['mn']['kind'] in ('default', 'str', 'axis'):
        R = np.array(o['rows'], dtype=int) if o['kind'] == 'rows' else np.eye(3, dtype=int)
        pm, pn, px = (int(np.argmax(np.abs(v))) for v in (m, n, xi))
        bc = (i * R[pm] + j * R[px] + (0 if in_plane else k) * R[pn]) / 8.0
        given = bc.tolist()
    else:
        return prob
    if np.abs(bc).max() > 40.0:
        return prob
    T = expected_transform(prob, m, n)
    b = T @ bc
    bs = np.array([b @ m, b @ n, b @ xi])
    bs[np.abs(bs) < 1e-13 * np.abs(bs).max()] = 0.0
    prob = dict(prob)
    prob['bsol'] = [float(v) for v in bs]
    prob['bgiven'] = [float(v) for v in given]
    return prob


# ----------------------------------------------------------------------------- case -> numbers (pure numpy)

def stiffness(prob):
    if prob['C']['kind'] == 'neariso':
        return neariso_cij(prob['C']) * prob['cscale']
    return g11.cij(prob['C']) * prob['cscale']


def is_neariso(prob):
    return prob['C']['kind'] == 'neariso'


def is_isotropic(prob):
    C = prob['C']
    return C['kind'] == 'named' and C['system'] == 'isotropic'


def box_vects(fp):
    """cell vectors of a set of lattice parameters; entries below 3e-9 of the largest are zero (cos 90 deg = 6e-17, and the tilts of
    the almost-special cells): what Box's documented clean-up (1e-9 of the largest entry) would remove is not there"""
    lx, ly, lz, xy, xz, yz = gens.abc_to_lammps(*fp['abc'])
    V = np.array([[lx, 0.0, 0.0], [xy, ly, 0.0], [xz, yz, lz]])
    V[np.abs(V) < 3e-9 * np.abs(V).max()] = 0.0
    return V


def expected_transform(prob, m, n):
    """orthonormal orientation matrix the solver has to use (rows = images of the crystal Cartesian axes)"""
    o = prob['orient']
    if o['kind'] == 'none':
        return np.eye(3)
    if o['kind'] == 'transform':
        return vr.rotation_matrix(*o['rot'])
    if o['kind'] == 'rows':
        R = np.array(o['rows'], dtype=float)
        return R / np.sqrt((R * R).sum(axis=1))[:, None]
    return vr.miller_transform(box_vects(o['box']), o['uvw'], o['hkl'], m, n)


def three_to_four_vector(v):
    U, V, W = v
    u, w_ = (2 * U - V) / 3.0, (2 * V - U) / 3.0
    return [u, w_, -(u + w_), W]


def labels_of(prob):
    labs = {'solver_' + prob['solver'], 'mn_' + prob['mn']['kind'], 'orient_' + prob['orient']['kind']}
    if prob['mn'].get('pass', 'ss') != 'ss':
        labs.add('mn_str_and_vector')
    bm, bn, bx = prob['bsol']
    if bn:
        labs.add('b_climb' if not (bm or bx) else 'b_general')
    elif bm and bx:
        labs.add('b_mixed')
        if min(abs(bm), abs(bx)) < 0.05 * max(abs(bm), abs(bx)):
            labs.add('b_tiny_component')
        if min(abs(bm), abs(bx)) < 0.5e-6 * max(abs(bm), abs(bx)):
            labs.add('b_component_near_tol')
    elif bm:
        labs.add('b_edge')
    else:
        labs.add('b_screw')
    o = prob['orient']
    if o['kind'] == 'miller':
        labs.add('box_' + o['box']['family'])
        if o['four']:
            labs.add('four_index')
    if o['kind'] in ('transform', 'rows') and o['via'] == 'axes':
        labs.add('via_axes')
    if o['kind'] == 'rows':
        labs.add('rows_' + o['sub'])
    if o.get('near'):
        labs.add('orient_near_special')
    if prob['mn'].get('near'):
        labs.add('mn_near_special')
    if o.get('near') or prob['mn'].get('near') or (o['kind'] == 'miller' and o['box']['family'].startswith('near_')):
        labs.add('near_special')
    if o['kind'] == 'rows' or prob['mn']['kind'] == 'axis' or 'bgiven' in prob:
        labs.add('exact_structure')
    if 'bgiven' in prob:
        labs.add('b_exact_fractions')
    if prob['cscale'] != 1.0:
        labs.add('cscaled')
    if is_neariso(prob):
        q = iso_deviation(stiffness(prob))[0] / BAND
        labs |= {'neariso_medium', 'C_kind_neariso', 'neariso_' + prob['C']['sys']}
        labs.add('neariso_outside' if q > 1.0 else 'neariso_edge' if q >= 0.89 else 'neariso_1e-5..9e-5' if q >= 0.1 else
                 'neariso_1e-7..1e-5' if q >= 0.99e-3 else 'neariso_below_1e-7')
        return labs
    labs.add('iso_medium' if is_isotropic(prob) else 'aniso_medium')
    labs |= {('C_' + l) for l in g11.labels_of(prob['C']) if l.startswith(('kind_', 'sys_'))}
    return labs


def near_axis(loc):
    """local point 1e-13 .. 2e-3 (relative) off an axis or a diagonal of the frame, not on it"""
    x, y = abs(float(loc[0])), abs(float(loc[1]))
    for a, b in ((x, y), (y, x), (abs(x - y), x + y)):
        if 1e-13 * b < a < 2e-3 * b:                # (below: rounding of cos 90 deg, of a diagonal - an exact point)
            return True
    return False


def nontrivial(prob):
    """the stated rule: mixed (or general) Burgers vector, a non-identity orientation, non-default m, n"""
    bm, bn, bx = prob['bsol']
    mixed = sum(1 for v in (bm, bn, bx) if v) >= 2
    return mixed and prob['orient']['kind'] != 'none' and prob['mn']['kind'] != 'default'


# ----------------------------------------------------------------------------- many decades in r within ONE call
# A decades case evaluates every field for ONE array of points  pos_ij = L r_i (cos phi_j m + sin phi_j n + zrel_j xi),
# r_i = mantissa 10^k, k = -6 .. 6, L = 10^lk the overall length unit of the field points (and, in half of the scaled cases,
# of the Burgers vector too: consistent units).  In 3/4 of the cases the smallest and the largest radius are 12 decades
# apart (k = -6 and k = +6 both present), else whatever the draw gives.  tol: the solvers' documented rounding argument,
# not handed over (default 1e-8) in half of the cases, else one of 1e-8, 1e-4, 1e-5, 1e-6, 1e-10.
_dec_k = st.integers(-6, 6)
_mant = st.one_of(gens.nice(1.0, 9.9, 3), st.sampled_from([1.0, 1.0, 2.0, 5.0]))
_radius = st.tuples(_mant, _dec_k).map(list)
_radii = st.lists(_radius, min_size=2, max_size=4)
_zrel = st.one_of(gens.nice(-3.0, 3.0, 2), st.sampled_from([0.0, 0.0, 1.0]))
_dray = st.tuples(_phi, _zrel).map(list)
_drays = st.lists(_dray, min_size=1, max_size=3)
LSCALES = [0] * 10 + [-10] * 4 + [-12, -9, -8, -6, -3, -2, -1, 1, 2, 3, 6]
_lscale = st.sampled_from(LSCALES)
TOLS = [None] * 6 + [1e-8, 1e-4, 1e-4, 1e-5, 1e-6, 1e-10]
_tolopt = st.sampled_from(TOLS)
_order = st.integers(0, 2)


@functools.lru_cache(maxsize=None)
def decade_cases():
    probs = problems()

    @st.composite
    def _d(draw):
        prob = dict(draw(probs))
        tol = draw(_tolopt)
        if tol is not None:
            prob['tol'] = tol
        lk = draw(_lscale)
        if lk and draw(_bool):
            prob['bsol'] = [v * pow10(lk) for v in prob['bsol']]
            if 'bgiven' in prob:
                prob['bgiven'] = [v * pow10(lk) for v in prob['bgiven']]
            prob['bscaled'] = True
        radii = draw(_radii)
        if draw(_sel) <= 8:
            radii = [[radii[0][0], -6]] + radii[1:] + [[radii[-1][0], 6]]
        return {'prob': prob, 'lk': lk, 'radii': radii, 'rays': draw(_drays), 'order': draw(_order),
                'fd': draw(_sel), 'ptlist': draw(_bool)}
    return _d()


def decade_points(case):
    """[(i, j, r, local)] in the order of the array handed to the solver; local = [x, y, z] in the (m, n, xi) frame, r the
    distance from the line (length unit included)"""
    L = pow10(case['lk'])
    out = []
    for i, (mant, k) in enumerate(case['radii']):
        r = mant * pow10(k) * L
        for j, (phi, zrel) in enumerate(case['rays']):
            t = math.radians(phi)
            out.append((i, j, r, [r * math.cos(t), r * math.sin(t), r * zrel]))
    o = case['order']
    if o == 1:
        out.sort(key=lambda e: (e[1], e[0]))                # ray-major
    elif o == 2:
        out.reverse()                                       # far to near
    return out


# ----------------------------------------------------------------------------- caller-side histories
# A history case solves ONE problem with caller-side objects (the ElasticConstants object, Burgers vector / m / n / transform /
# Miller-index arrays in a drawn input form, the Box), reads every output, and then interprets a list of operations against the
# CALLER's objects and the solution; after every operation every output of the first solution is read again.
#   forms[k]  (k-th array-valued argument): 0 C-contiguous float64 array, 1 strided view into a larger buffer, 2 Fortran-ordered /
#             reversed-stride view, 3 read-only array, 4 nested list, 5 tuple
#   ops       {'op': 'C', 'how': one of C_HOWS, 'f': factor, 'perm': 0..5}      the caller re-defines its ElasticConstants object
#             {'op': 'arr', 'which': k, 'f': factor}                            the k-th (modulo) of the array-valued arguments actually handed
#                                                                               over (b, m, n, transform / axes, uvw, hkl, m, n) is overwritten in place
#             {'op': 'box', 'how': one of BOX_HOWS, 'f': factor}                the caller's Box is re-defined through a setter
#             {'op': 'again', 'solver': ...}                                    another solution is built from the caller's objects
#             {'op': 'eval', 'pts': [...]}                                      the solution is evaluated at other points
#             {'op': 'pos'}                                                     the position array of the first evaluation is overwritten
#             {'op': 'out'}                                                     the arrays the solution RETURNED (fields, K_tensor, p, A, L, k,
#                                                                               C.Cij) are overwritten in place
# Orientation: as in problems(), but in 4 of 12 cases the identity (no orientation argument, or transform= / axes= the unit
# matrix with non-unit row lengths) - the configuration in which nothing needs rotating.
C_HOWS = ('Cij', 'Cij', 'Cijkl', 'Sij', 'Cij9', 'Sijkl', 'cubic', 'isotropic', 'hexagonal', 'orthorhombic')
BOX_HOWS = ('vects', 'set_vectors', 'set_abc', 'set_lengths', 'origin')
_factor = st.sampled_from([2.0, 0.5, -1.0, 3.0, 1.5, -2.5])
_pfactor = st.sampled_from([2.0, 0.5, 3.0, 1.5, 0.37])
_form = st.sampled_from([0, 0, 0, 1, 2, 3, 4, 5])
_opC = st.fixed_dictionaries({'op': st.just('C'), 'how': st.sampled_from(C_HOWS), 'f': _pfactor, 'perm': st.integers(0, 5)})
_oparr = st.fixed_dictionaries({'op': st.just('arr'), 'which': st.integers(0, 11), 'f': _factor})
_opbox = st.fixed_dictionaries({'op': st.just('box'), 'how': st.sampled_from(BOX_HOWS), 'f': _pfactor})
_opagain = st.fixed_dictionaries({'op': st.just('again'), 'solver': st.sampled_from(['same', 'same', 'stroh', 'iso', 'auto'])})
_opeval = st.fixed_dictionaries({'op': st.just('eval'), 'pts': st.lists(local_point(), min_size=1, max_size=3), 'ptlist': _bool})
_opmisc = st.sampled_from([{'op': 'pos'}, {'op': 'out'}])


@functools.lru_cache(maxsize=None)
def history_cases():
    probs = problems()
    @st.composite
    def _op(draw):
        w = draw(_sel)                                       # (one_of would merge repeated alternatives: explicit weights)
        return draw(_opC if w <= 3 else _oparr if w <= 7 else _opbox if w == 8 else _opagain if w == 9 else _opeval if w == 10 else _opmisc)
    ops = st.lists(_op(), min_size=2, max_size=6)

    @st.composite
    def _h(draw):
        prob = dict(draw(probs))
        w = draw(_sel)
        if w == 0 or w == 1:
            prob['orient'] = {'kind': 'none'}
        elif w <= 3:
            prob['orient'] = {'kind': 'transform', 'rot': [[0, 0, 1], 0.0], 'rowscale': draw(_rowscale),
                              'via': 'axes' if draw(_sel) < 3 else 'transform'}
        if w <= 3:
            prob.pop('bgiven', None)                         # (belonged to the orientation that was replaced; bsol stays)
        prob['aslist'] = False                               # the form of every argument is drawn separately (forms)
        return {'prob': prob, 'forms': draw(st.lists(_form, min_size=6, max_size=6)), 'ops': draw(ops),
                'pts': draw(local_points(2, 4)), 'order': draw(st.integers(0, 10 ** 6))}
    return _h()


# ----------------------------------------------------------------------------- storage and input dtypes (clause forms)
# A forms case is a problem every number of which is exactly representable in narrow dtypes: orientation none / integer rows /
# Miller indices, m and n default / strings / signed axes handed over as vectors, the Burgers vector in eighths (halves of lattice
# vectors), field points with integer or quarter-integer Cartesian coordinates UP TO THE LIMITS of the dtype drawn for them.
# 'dt': for every array-valued argument (b, m, n, T = transform / axes, uvw, hkl, pos) a dtype code of DT; the oracle hands the
# values over in that dtype where they are exactly representable in it (float64 else).
DT = ('f8', 'f4', 'f2', '>f8', '>f4', 'i1', 'i2', 'i4', 'i8', 'u1', 'u2', 'u8', '>i2', '>i4', '>i8', 'bool', 'np_int', 'np_f4', 'list')
_dt_any = st.sampled_from(['f8', 'f4', 'f4', 'f2', 'f2', '>f8', '>f4', 'i1', 'i1', 'i2', 'i4', 'i8', 'u1', 'u1', 'u2', 'u8', '>i2', '>i4',
                           '>i8', 'bool', 'np_int', 'np_f4', 'list'])
_dt_pos = st.sampled_from(['f4', 'f4', 'f2', 'f2', '>f8', '>f4', 'i1', 'i1', 'i2', 'i2', 'i4', 'i8', 'u1', 'u1', 'u2', 'u8', '>i2', '>i4',
                           '>i8', 'bool', 'np_int', 'np_f4', 'f8'])
POS_RANGE = {'i1': (-128, 127), 'i2': (-32768, 32767), '>i2': (-32768, 32767), 'u1': (0, 255), 'u2': (0, 65535), 'bool': (0, 1),
             'u8': (0, 100000), 'f2': (-2048, 2048)}
_unit = st.floats(0.0, 1.0, allow_nan=False, width=32)
_quarter = st.sampled_from([1.0, 1.0, 0.25, 0.5])
_pk = st.integers(0, 5)


@st.composite
def _coord(draw, lo, hi):
    """an integer in lo..hi: the limits and their neighbours, small numbers, or anything in between"""
    w = draw(_pk)
    if w == 0:
        return draw(st.sampled_from([hi, hi, hi - 1, lo, lo, lo + 1]))
    if w <= 3:
        return max(lo, min(hi, draw(st.integers(-12, 12))))
    return lo + int(draw(_unit) * (hi - lo))


@functools.lru_cache(maxsize=None)
def forms_cases():
    base = problems()

    @st.composite
    def _f(draw):
        prob = dict(draw(base))
        prob.pop('bgiven', None)
        w = draw(_sel)
        prob['orient'] = {'kind': 'none'} if w == 0 else draw(rows_spec()) if w <= 6 else draw(miller_spec())
        w = draw(_sel)
        if w <= 1:
            prob['mn'] = {'kind': 'default'}
        elif w <= 4:
            m, n = draw(_strpairs)
            prob['mn'] = {'kind': 'str', 'm': m, 'n': n, 'pass': draw(_strpass)}
        else:
            m, n = draw(_axpairs)
            prob['mn'] = {'kind': 'axis', 'm': list(m), 'n': list(n)}
        C = prob['C']
        isotropic = C['kind'] == 'neariso' or (C['kind'] == 'named' and C['system'] == 'isotropic')
        prob = exact_b(prob, draw(_small), draw(_small), draw(_small), isotropic)
        prob['aslist'] = False
        dt = {a: draw(_dt_any) for a in ('b', 'm', 'n', 'T', 'uvw', 'hkl')}
        dt['pos'] = draw(_dt_pos)
        lo, hi = POS_RANGE.get(dt['pos'], (-100000, 100000))
        q = draw(_quarter) if dt['pos'] in ('f8', 'f4', 'f2', '>f8', '>f4', 'np_f4') else 1.0
        m, n, xi = vr.frame_of(prob['mn'])
        pts = []
        for _ in range(draw(st.integers(1, 4))):
            p = np.array([draw(_coord(lo, hi)) * q for _ in range(3)])
            x, y = float(p @ m), float(p @ n)
            if y == 0.0 and x <= 0.0:
                # on the line or on the cut: move it off along n (or along m when n points to negative coordinates)
                p = p + (np.abs(n) if (n.min() >= 0 or lo < 0) else 0.0)
                p = np.clip(p, lo * q, hi * q)
                x, y = float(p @ m), float(p @ n)
                if y == 0.0 and x <= 0.0:
                    p = p + np.abs(m) * (1 - x)
                    p = np.clip(p, lo * q, hi * q)
            pts.append([float(v) for v in p])
        return {'prob': prob, 'dt': dt, 'pts': pts, 'order': draw(st.integers(0, 10 ** 6)), 'mut': draw(st.integers(0, 7))}
    return _f()
