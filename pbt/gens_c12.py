"""Generators of Volterra-dislocation problems (C12).  Pure numpy + Hypothesis; never imports atomman.

A *problem* is a JSON-able dict

  {'C': <tensor case of gens_c11> | <near-isotropic case, see neariso_tensors>,
   'cscale': 1.0 | 0.00624150913 (GPa-like numbers or eV/A^3-like numbers),
   'solver': 'stroh' | 'iso' | 'auto',
   'mn': {'kind': 'default'} | {'kind': 'str', 'm': 'z', 'n': 'x', 'pass': 'ss'|'sv'|'vs'} | {'kind': 'vec', 'rot': [axis, angle]},
   'orient': {'kind': 'none'}
           | {'kind': 'transform', 'rot': [axis, angle], 'rowscale': [3 positive], 'via': 'transform' | 'axes'}
           | {'kind': 'miller', 'box': {'family':... ('unit': no box given), 'abc': [a,b,c,alpha,beta,gamma]}, 'uvw': [3 ints], 'hkl': [3 ints],
              'four': bool (hexagonal only: hand over [uvtw], (hkil) and a 4-index Burgers vector)},
   'bsol': [b_m, b_n, b_xi]   Burgers vector by its components in the solution frame (m, n, xi): the Burgers vector handed
                              to the solver is T^t bsol (Cartesian crystal frame) or that vector in lattice coordinates,
   'aslist': bool             arguments as nested lists instead of arrays}

Field points are local coordinates [x, y, z] in the (m, n, xi) frame: pos = x m + y n + z xi, with 0.3 <= hypot(x,y) <= 45
and at least 0.05 rad away from the cut half-plane (y = 0, x < 0).
"""
import functools
import math

import numpy as np
from hypothesis import strategies as st

from . import gens
from . import gens_c11 as g11
from .oracles import elastic as el
from .oracles import volterra_ref as vr

EV_A3 = 0.00624150913          # 1 GPa in eV/A^3

_bool = st.booleans()
_sel = st.integers(0, 11)
_axis = st.lists(st.integers(-5, 5), min_size=3, max_size=3).filter(any)
_angle = st.one_of(gens.nice(5.0, 175.0, 2), gens.nice(5.0, 175.0, 2), st.sampled_from([90.0, 180.0, 120.0, 45.0]))
_rot = st.tuples(_axis, _angle).map(list)
_rowscale = st.lists(st.sampled_from([1.0, 1.0, 2.0, 0.5, 3.7, 0.013, 41.0]), min_size=3, max_size=3)
_strpairs = st.sampled_from([('x', 'y'), ('y', 'z'), ('z', 'x'), ('y', 'x'), ('z', 'y'), ('x', 'z')])
_strpass = st.sampled_from(['ss', 'ss', 'sv', 'vs'])
_mag = st.one_of(gens.nice(0.5, 8.0, 3), gens.nice(0.5, 8.0, 3), st.sampled_from([1.0, 2.5, 2.8556]))
_sign = st.sampled_from([1.0, -1.0])
_ratio = st.sampled_from([1e-2, 1e-4, 1e-6])
_cscale = st.sampled_from([1.0, 1.0, EV_A3])
_small = st.integers(-3, 3)
_mult = st.sampled_from([1, 1, 1, 2, 3])
_uvw = st.lists(_small, min_size=3, max_size=3).filter(any)
_fam = st.sampled_from(['unit', 'cubic', 'cubic', 'hexagonal', 'hexagonal', 'orthorhombic', 'tetragonal', 'monoclinic',
                        'triclinic'])


@functools.lru_cache(maxsize=None)
def _famparams(fam):
    if fam == 'unit':            # no box handed over: indices are taken with respect to a cubic cell with a = 1
        return st.just({'family': 'unit', 'abc': [1.0, 1.0, 1.0, 90.0, 90.0, 90.0]})
    return gens.family_params(fam)

# isotropic medium: E in [1,600], nu on a grid in [0.0001, 0.495] or exactly 0 (nu of order 1e-8 sits on the zeroing
# threshold of ElasticConstants.transform, which is C11's listed finding and not this property's business)
_E = gens.nice(1.0, 600.0, 3)
_nu = st.one_of(st.integers(1, 4950).map(lambda k: k / 10000.0), st.integers(1, 4950).map(lambda k: k / 10000.0),
                st.sampled_from([0.0, 0.25, 1.0 / 3.0, 0.3, 0.495]))


@functools.lru_cache(maxsize=None)
def iso_tensors():
    return st.tuples(_E, _nu).map(lambda t: {'kind': 'named', 'system': 'isotropic', 'C': {'E': t[0], 'nu': t[1]}})


# ----------------------------------------------------------------------------- nearly isotropic media
# The isotropic class accepts every C with  numpy.allclose(C.Cij, C.normalized_as('isotropic').Cij, atol=0, rtol=1e-4)
# (IsotropicVolterraDislocation.solve): every entry within a RELATIVE 1e-4 of the corresponding entry of the isotropic tensor
# built from the Hill bulk and shear moduli of C, entries that vanish for an isotropic medium exactly zero.  The accepted
# class is therefore: orthotropic sparsity in the given axes (cubic, hexagonal, tetragonal with C16 = 0, orthorhombic in a
# standard setting or with the axes permuted), each of the nine constants within 1e-4 of the isotropic average.  Such a medium
# is what fitted / computed elastic constants of an "isotropic" model look like.
#
#   {'kind': 'neariso', 'E': .., 'nu': .., 'sys': 'cubic'|'hexagonal'|'tetragonal'|'orthorhombic', 'perm': 0..5 (which
#    crystal axis is x, y, z), 'd': [9 numbers in [-1,1]: relative deviations of C11 C22 C33 C12 C13 C23 C44 C55 C66, tied
#    together as the system demands], 'eps': amplitude, 'q': the deviation aimed at in units of the acceptance band}
#
# C_IJ = Ciso_IJ (1 + eps d_IJ); eps is fixed IN THE STRATEGY so that iso_deviation(C) (my own reading of the acceptance
# test) is q 1e-4 to within 1 %:  q log-uniform in [1e-3, 0.9] (anisotropy 1e-7 .. 9e-5), q in {0.9, 0.95, 0.97} (just
# inside the band), q in {1.05 .. 5} (just outside: the class has to be refused or, if a solver accepts it, solved).

BAND = 1e-4
NEAR_SYSTEMS = ('cubic', 'hexagonal', 'tetragonal', 'orthorhombic')
_PERMS = ((0, 1, 2), (1, 2, 0), (2, 0, 1), (0, 2, 1), (2, 1, 0), (1, 0, 2))
_NINE = ((0, 0), (1, 1), (2, 2), (0, 1), (0, 2), (1, 2), (3, 3), (4, 4), (5, 5))


def _tie(sys_, d):
    """the nine relative deviations with the equalities of the crystal system imposed (unique axis: 3)"""
    d11, d22, d33, d12, d13, d23, d44, d55, d66 = d
    if sys_ == 'cubic':
        return [d11, d11, d11, d12, d12, d12, d44, d44, d44]
    if sys_ in ('tetragonal', 'hexagonal'):
        return [d11, d11, d33, d12, d13, d13, d44, d44, d66]
    return list(d)


def neariso_cij(case, eps=None):
    """(6,6) Voigt stiffness of a near-isotropic case (before cscale)"""
    mo = el.isotropic_moduli(case['E'], case['nu'])
    C = el.isotropic_voigt(mo['lambda'], mo['mu'])
    eps = case['eps'] if eps is None else eps
    for (i, j), v in zip(_NINE, _tie(case['sys'], case['d'])):
        C[i, j] = C[j, i] = C[i, j] * (1.0 + eps * v)
    if case['sys'] == 'hexagonal':
        C[5, 5] = (C[0, 0] - C[0, 1]) / 2
    p = _PERMS[case['perm']]
    # crystal axis k becomes Cartesian axis p[k]: a relabelling of the Voigt indices, exact
    idx = [int(el.VI[p[i], p[j]]) for (i, j) in el.PAIRS]
    out = np.empty((6, 6))
    out[np.ix_(idx, idx)] = C
    return out


def iso_deviation(C6):
    """my own reading of the isotropic class's acceptance test: (largest |C_IJ - N_IJ| / |N_IJ|, N, K, G) with N the isotropic
    tensor of the Hill bulk and shear moduli K, G of C; inf when an entry that vanishes in N does not vanish in C.  Both
    tensors go through the Cij setter, which zeroes entries below 1e-9 of the largest (nu = 0: C12 = K - 2G/3 is rounding
    residue).  When an entry of N lies within a factor 100 of that floor the outcome hangs on rounding: the deviation
    returned is then BAND itself (neither acceptance nor refusal can be demanded; callers do not judge such a medium)."""
    v = el.vrh(C6)
    K, G = v[('bulk', 'Hill')], v[('shear', 'Hill')]
    N = el.isotropic_voigt(K - 2 * G / 3, G)
    C6 = np.array(C6, dtype=float)
    a = np.abs(N) / np.abs(N).max()
    if np.any((a > 1e-11) & (a < 1e-7)):
        return BAND, N, K, G
    N[a <= 1e-11] = 0.0
    C6[np.abs(C6) <= 1e-9 * np.abs(C6).max()] = 0.0
    zero = N == 0.0
    if np.any(C6[zero] != 0.0):
        return float('inf'), N, K, G
    return float((np.abs(C6 - N)[~zero] / np.abs(N)[~zero]).max()), N, K, G


def _with_eps(case):
    """fix the amplitude so that the deviation is q BAND (the deviation is linear in eps up to O(eps^2))"""
    case = dict(case)
    eps = 1e-6
    for _ in range(3):
        dev = iso_deviation(neariso_cij(case, eps))[0]
        if not (0.0 < dev < float('inf')):
            break
        eps = eps * case['q'] * BAND / dev
    if not (1e-9 <= eps <= 1e-2):
        # the pattern d does not take the medium away from isotropy (a uniform scaling, nu = 0 with C12 = 0 exactly, ...):
        # plain amplitude; the labels are taken from the deviation actually reached
        eps = case['q'] * BAND
    case['eps'] = float(eps)
    return case


_qlog = st.floats(-3.0, math.log10(0.9)).map(lambda x: round(10.0 ** x, 6))
_q = st.one_of(_qlog, _qlog, _qlog, st.sampled_from([0.9, 0.95, 0.97, 0.97, 0.8, 1.05]),
               st.sampled_from([0.5, 0.93, 0.96, 1.3, 2.0, 5.0]))
_dev9 = st.lists(st.one_of(gens.nice(-1.0, 1.0, 3), st.sampled_from([1.0, -1.0, 0.0])), min_size=9, max_size=9)
# nu >= 1e-4 (no exact 0): with C12 = 0 the Hill average has C12 ~ eps E, on the 1e-9 zeroing floor of the Cij setter
_nu_near = st.one_of(st.integers(1, 4950).map(lambda k: k / 10000.0), st.integers(1, 4950).map(lambda k: k / 10000.0),
                     st.sampled_from([0.25, 1.0 / 3.0, 0.3, 0.495, 0.0001]))


@functools.lru_cache(maxsize=None)
def neariso_tensors():
    return st.fixed_dictionaries({'kind': st.just('neariso'), 'E': _E, 'nu': _nu_near, 'sys': st.sampled_from(NEAR_SYSTEMS),
                                  'perm': st.integers(0, 5), 'd': _dev9, 'q': _q}).map(_with_eps)


@functools.lru_cache(maxsize=None)
def mn_specs():
    @st.composite
    def _mn(draw):
        w = draw(_sel)
        if w <= 1:
            return {'kind': 'default'}
        if w <= 4:
            m, n = draw(_strpairs)
            # 'ss': both as strings; 'sv' / 'vs': one as string, the other as the unit vector it stands for
            return {'kind': 'str', 'm': m, 'n': n, 'pass': draw(_strpass)}
        return {'kind': 'vec', 'rot': draw(_rot)}
    return _mn()


def _perp_plane(uvw, other):
    u = np.array(uvw, dtype=int)
    c = np.cross(u, np.array(other, dtype=int))
    if not c.any():
        for o in ((1, 0, 0), (0, 1, 0), (0, 0, 1)):
            c = np.cross(u, np.array(o, dtype=int))
            if c.any():
                break
    g = int(np.gcd.reduce(np.abs(c)))
    return [int(v) for v in c // g]


@functools.lru_cache(maxsize=None)
def orient_specs():
    @st.composite
    def _o(draw):
        w = draw(_sel)
        if w == 0:
            return {'kind': 'none'}
        if w <= 6:
            return {'kind': 'transform', 'rot': draw(_rot), 'rowscale': draw(_rowscale),
                    'via': 'axes' if draw(_sel) < 3 else 'transform'}
        fp = draw(_famparams(draw(_fam)))
        uvw = draw(_uvw)
        k = draw(_mult)                               # planes need not be given in lowest terms
        hkl = [k * v for v in _perp_plane(uvw, draw(_uvw))]      # integer plane indices with h u + k v + l w = 0
        return {'kind': 'miller', 'box': fp, 'uvw': uvw, 'hkl': hkl,
                'four': bool(fp['family'] == 'hexagonal' and draw(_bool))}
    return _o()


@functools.lru_cache(maxsize=None)
def burgers(in_plane):
    """components (b_m, b_n, b_xi) in the solution frame; in_plane: b_n = 0 (isotropic solver)"""
    @st.composite
    def _b(draw):
        w = draw(_sel)
        a, b, c = (draw(_mag) * draw(_sign) for _ in range(3))
        if w <= 1:
            return [0.0, 0.0, a]                   # screw
        if w <= 3:
            return [a, 0.0, 0.0]                   # edge
        if w <= 7:
            return [a, 0.0, b]                     # mixed, in the slip plane
        if w == 8:                                 # mixed with one component far smaller than the other (kept: > 1e-8)
            q = draw(_ratio)
            return [a * q, 0.0, b] if draw(_bool) else [a, 0.0, b * q]
        if in_plane:
            return [a, 0.0, b]
        if w == 9:
            return [0.0, a, 0.0]                   # prismatic / climb edge (Burgers vector along the plane normal)
        return [a, b, c]                           # general
    return _b()


# exactly representable local points (x, y): on the coordinate axes and diagonals of the frame (never on the cut)
_EXACT_XY = [(1.0, 0.0), (3.0, 0.0), (0.5, 0.0), (0.0, 1.0), (0.0, -2.0), (0.0, 0.5), (0.0, -0.75), (1.0, 1.0), (-1.0, 1.0),
             (-1.0, -1.0), (2.0, -2.0), (-2.0, 3.0), (-3.0, -1.0), (4.0, 1.0), (-8.0, 8.0), (0.0, 16.0), (24.0, 0.0)]
_exact_xy = st.sampled_from(_EXACT_XY)
_exact_z = st.sampled_from([0.0, 0.0, 1.0, -2.0, 0.5])
_r = st.one_of(gens.nice(0.3, 3.0, 4), gens.nice(3.0, 30.0, 3))
_phi = st.one_of(gens.nice(-177.0, 177.0, 3), gens.nice(-177.0, 177.0, 3),
                 st.sampled_from([0.0, 90.0, -90.0, 45.0, -45.0, 135.0, -135.0, 177.0, -177.0, 30.0, -120.0]))
_z = st.one_of(gens.nice(-10.0, 10.0, 3), st.just(0.0))


@st.composite
def local_point(draw):
    if draw(_sel) <= 1:
        x, y = draw(_exact_xy)
        return [x, y, draw(_exact_z)]
    r, phi = draw(_r), draw(_phi)
    t = math.radians(phi)
    return [r * math.cos(t), r * math.sin(t), draw(_z)]


@functools.lru_cache(maxsize=None)
def local_points(nmin, nmax):
    return st.lists(local_point(), min_size=nmin, max_size=nmax)


@functools.lru_cache(maxsize=None)
def problems(solver=None, aniso=None):
    """solver: None (mixture), 'stroh', 'iso', 'auto'.  Anisotropic media from gens_c11.tensors (all crystal systems in
    standard setting, generic SPD, rotated), isotropic ones from iso_tensors, nearly isotropic ones (inside and just outside
    the isotropic class's acceptance band) from neariso_tensors: 5/12 of the media of the isotropic class, 3/12 of the media
    handed to the dispatcher."""
    tens = aniso if aniso is not None else g11.tensors(isotropic_too=False)

    @st.composite
    def _p(draw):
        s = solver
        if s is None:
            w = draw(_sel)
            s = 'stroh' if w <= 5 else 'iso' if w <= 8 else 'auto'
        if s == 'iso':
            C = draw(iso_tensors()) if draw(_sel) <= 6 else draw(neariso_tensors())
        elif s == 'auto':
            w = draw(_sel)
            C = draw(iso_tensors()) if w <= 3 else draw(neariso_tensors()) if w <= 6 else draw(tens)
        else:
            C = draw(tens)
        isotropic = C['kind'] == 'neariso' or (C['kind'] == 'named' and C['system'] == 'isotropic')
        return {'C': C, 'cscale': draw(_cscale), 'solver': s, 'mn': draw(mn_specs()), 'orient': draw(orient_specs()),
                'bsol': draw(burgers(isotropic)), 'aslist': draw(_bool)}
    return _p()


# ----------------------------------------------------------------------------- case -> numbers (pure numpy)

def stiffness(prob):
    if prob['C']['kind'] == 'neariso':
        return neariso_cij(prob['C']) * prob['cscale']
    return g11.cij(prob['C']) * prob['cscale']


def is_neariso(prob):
    return prob['C']['kind'] == 'neariso'


def is_isotropic(prob):
    C = prob['C']
    return C['kind'] == 'named' and C['system'] == 'isotropic'


def box_vects(fp):
    lx, ly, lz, xy, xz, yz = gens.abc_to_lammps(*fp['abc'])
    return np.array([[lx, 0.0, 0.0], [xy, ly, 0.0], [xz, yz, lz]])


def expected_transform(prob, m, n):
    """orthonormal orientation matrix the solver has to use (rows = images of the crystal Cartesian axes)"""
    o = prob['orient']
    if o['kind'] == 'none':
        return np.eye(3)
    if o['kind'] == 'transform':
        return vr.rotation_matrix(*o['rot'])
    return vr.miller_transform(box_vects(o['box']), o['uvw'], o['hkl'], m, n)


def three_to_four_vector(v):
    U, V, W = v
    u, w_ = (2 * U - V) / 3.0, (2 * V - U) / 3.0
    return [u, w_, -(u + w_), W]


def labels_of(prob):
    labs = {'solver_' + prob['solver'], 'mn_' + prob['mn']['kind'], 'orient_' + prob['orient']['kind']}
    if prob['mn'].get('pass', 'ss') != 'ss':
        labs.add('mn_str_and_vector')
    bm, bn, bx = prob['bsol']
    if bn:
        labs.add('b_climb' if not (bm or bx) else 'b_general')
    elif bm and bx:
        labs.add('b_mixed')
        if min(abs(bm), abs(bx)) < 0.05 * max(abs(bm), abs(bx)):
            labs.add('b_tiny_component')
    elif bm:
        labs.add('b_edge')
    else:
        labs.add('b_screw')
    o = prob['orient']
    if o['kind'] == 'miller':
        labs.add('box_' + o['box']['family'])
        if o['four']:
            labs.add('four_index')
    if o['kind'] == 'transform' and o['via'] == 'axes':
        labs.add('via_axes')
    if prob['cscale'] != 1.0:
        labs.add('cscaled')
    if is_neariso(prob):
        q = iso_deviation(stiffness(prob))[0] / BAND
        labs |= {'neariso_medium', 'C_kind_neariso', 'neariso_' + prob['C']['sys']}
        labs.add('neariso_outside' if q > 1.0 else 'neariso_edge' if q >= 0.89 else 'neariso_1e-5..9e-5' if q >= 0.1 else
                 'neariso_1e-7..1e-5' if q >= 0.99e-3 else 'neariso_below_1e-7')
        return labs
    labs.add('iso_medium' if is_isotropic(prob) else 'aniso_medium')
    labs |= {('C_' + l) for l in g11.labels_of(prob['C']) if l.startswith(('kind_', 'sys_'))}
    return labs


def nontrivial(prob):
    """the stated rule: mixed (or general) Burgers vector, a non-identity orientation, non-default m, n"""
    bm, bn, bx = prob['bsol']
    mixed = sum(1 for v in (bm, bn, bx) if v) >= 2
    return mixed and prob['orient']['kind'] != 'none' and prob['mn']['kind'] != 'default'


# ----------------------------------------------------------------------------- many decades in r within ONE call
# A decades case evaluates every field for ONE array of points  pos_ij = L r_i (cos phi_j m + sin phi_j n + zrel_j xi),
# r_i = mantissa 10^k, k = -6 .. 6, L = 10^lk the overall length unit of the field points (and, in half of the scaled cases,
# of the Burgers vector too: consistent units).  In 3/4 of the cases the smallest and the largest radius are 12 decades
# apart (k = -6 and k = +6 both present), else whatever the draw gives.  tol: the solvers' documented rounding argument,
# not handed over (default 1e-8) in half of the cases, else one of 1e-8, 1e-4, 1e-5, 1e-6, 1e-10.
_dec_k = st.integers(-6, 6)
_mant = st.one_of(gens.nice(1.0, 9.9, 3), st.sampled_from([1.0, 1.0, 2.0, 5.0]))
_radius = st.tuples(_mant, _dec_k).map(list)
_radii = st.lists(_radius, min_size=2, max_size=4)
_zrel = st.one_of(gens.nice(-3.0, 3.0, 2), st.sampled_from([0.0, 0.0, 1.0]))
_dray = st.tuples(_phi, _zrel).map(list)
_drays = st.lists(_dray, min_size=1, max_size=3)
LSCALES = [0] * 10 + [-10] * 4 + [-12, -9, -8, -6, -3, -2, -1, 1, 2, 3, 6]
_lscale = st.sampled_from(LSCALES)
TOLS = [None] * 6 + [1e-8, 1e-4, 1e-4, 1e-5, 1e-6, 1e-10]
_tolopt = st.sampled_from(TOLS)
_order = st.integers(0, 2)


def pow10(k):
    return float('1e%d' % int(k))


@functools.lru_cache(maxsize=None)
def decade_cases():
    probs = problems()

    @st.composite
    def _d(draw):
        prob = dict(draw(probs))
        tol = draw(_tolopt)
        if tol is not None:
            prob['tol'] = tol
        lk = draw(_lscale)
        if lk and draw(_bool):
            prob['bsol'] = [v * pow10(lk) for v in prob['bsol']]
            prob['bscaled'] = True
        radii = draw(_radii)
        if draw(_sel) <= 8:
            radii = [[radii[0][0], -6]] + radii[1:] + [[radii[-1][0], 6]]
        return {'prob': prob, 'lk': lk, 'radii': radii, 'rays': draw(_drays), 'order': draw(_order),
                'fd': draw(_sel), 'ptlist': draw(_bool)}
    return _d()


def decade_points(case):
    """[(i, j, r, local)] in the order of the array handed to the solver; local = [x, y, z] in the (m, n, xi) frame, r the
    distance from the line (length unit included)"""
    L = pow10(case['lk'])
    out = []
    for i, (mant, k) in enumerate(case['radii']):
        r = mant * pow10(k) * L
        for j, (phi, zrel) in enumerate(case['rays']):
            t = math.radians(phi)
            out.append((i, j, r, [r * math.cos(t), r * math.sin(t), r * zrel]))
    o = case['order']
    if o == 1:
        out.sort(key=lambda e: (e[1], e[0]))                # ray-major
    elif o == 2:
        out.reverse()                                       # far to near
    return out


# ----------------------------------------------------------------------------- caller-side histories
# A history case solves ONE problem with caller-side objects (the ElasticConstants object, Burgers vector / m / n / transform /
# Miller-index arrays in a drawn input form, the Box), reads every output, and then interprets a list of operations against the
# CALLER's objects and the solution; after every operation every output of the first solution is read again.
#   forms[k]  (k-th array-valued argument): 0 C-contiguous float64 array, 1 strided view into a larger buffer, 2 Fortran-ordered /
#             reversed-stride view, 3 read-only array, 4 nested list, 5 tuple
#   ops       {'op': 'C', 'how': one of C_HOWS, 'f': factor, 'perm': 0..5}      the caller re-defines its ElasticConstants object
#             {'op': 'arr', 'which': k, 'f': factor}                            the k-th (modulo) of the array-valued arguments actually handed
#                                                                               over (b, m, n, transform / axes, uvw, hkl, m, n) is overwritten in place
#             {'op': 'box', 'how': one of BOX_HOWS, 'f': factor}                the caller's Box is re-defined through a setter
#             {'op': 'again', 'solver': ...}                                    another solution is built from the caller's objects
#             {'op': 'eval', 'pts': [...]}                                      the solution is evaluated at other points
#             {'op': 'pos'}                                                     the position array of the first evaluation is overwritten
#             {'op': 'out'}                                                     the arrays the solution RETURNED (fields, K_tensor, p, A, L, k,
#                                                                               C.Cij) are overwritten in place
# Orientation: as in problems(), but in 4 of 12 cases the identity (no orientation argument, or transform= / axes= the unit
# matrix with non-unit row lengths) - the configuration in which nothing needs rotating.
C_HOWS = ('Cij', 'Cij', 'Cijkl', 'Sij', 'Cij9', 'Sijkl', 'cubic', 'isotropic', 'hexagonal', 'orthorhombic')
BOX_HOWS = ('vects', 'set_vectors', 'set_abc', 'set_lengths', 'origin')
_factor = st.sampled_from([2.0, 0.5, -1.0, 3.0, 1.5, -2.5])
_pfactor = st.sampled_from([2.0, 0.5, 3.0, 1.5, 0.37])
_form = st.sampled_from([0, 0, 0, 1, 2, 3, 4, 5])
_opC = st.fixed_dictionaries({'op': st.just('C'), 'how': st.sampled_from(C_HOWS), 'f': _pfactor, 'perm': st.integers(0, 5)})
_oparr = st.fixed_dictionaries({'op': st.just('arr'), 'which': st.integers(0, 11), 'f': _factor})
_opbox = st.fixed_dictionaries({'op': st.just('box'), 'how': st.sampled_from(BOX_HOWS), 'f': _pfactor})
_opagain = st.fixed_dictionaries({'op': st.just('again'), 'solver': st.sampled_from(['same', 'same', 'stroh', 'iso', 'auto'])})
_opeval = st.fixed_dictionaries({'op': st.just('eval'), 'pts': st.lists(local_point(), min_size=1, max_size=3), 'ptlist': _bool})
_opmisc = st.sampled_from([{'op': 'pos'}, {'op': 'out'}])


@functools.lru_cache(maxsize=None)
def history_cases():
    probs = problems()
    @st.composite
    def _op(draw):
        w = draw(_sel)                                       # (one_of would merge repeated alternatives: explicit weights)
        return draw(_opC if w <= 3 else _oparr if w <= 7 else _opbox if w == 8 else _opagain if w == 9 else _opeval if w == 10 else _opmisc)
    ops = st.lists(_op(), min_size=2, max_size=6)

    @st.composite
    def _h(draw):
        prob = dict(draw(probs))
        w = draw(_sel)
        if w == 0 or w == 1:
            prob['orient'] = {'kind': 'none'}
        elif w <= 3:
            prob['orient'] = {'kind': 'transform', 'rot': [[0, 0, 1], 0.0], 'rowscale': draw(_rowscale),
                              'via': 'axes' if draw(_sel) < 3 else 'transform'}
        prob['aslist'] = False                               # the form of every argument is drawn separately (forms)
        return {'prob': prob, 'forms': draw(st.lists(_form, min_size=6, max_size=6)), 'ops': draw(ops),
                'pts': draw(local_points(2, 4)), 'order': draw(st.integers(0, 10 ** 6))}
    return _h()
