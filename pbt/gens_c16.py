"""Strategies and fixed tables for C16 (Miller conversions, family identification).  Cases are JSON-able.

cell = {'family': str, 'abc': [a,b,c,alpha,beta,gamma], 'rot': None | [axis(3 ints), angle_deg]}
"""
import functools
import itertools

from hypothesis import strategies as st

from . import gens
from .oracles import miller_ref as ref

SETTINGS = list(ref.SETTINGS)

# ----------------------------------------------------------------------------- fixed cells for the enumerations

_ROTS = [[[1, 2, 3], 37.0], [[-2, 1, 4], 101.5], [[3, -1, 1], 163.25], [[0, 1, -1], 58.0], [[5, 2, -3], 12.75],
         [[1, 0, 0], 90.0], [[1, 1, 1], 120.0], [[-1, 4, 2], 77.7]]


def _fixed_cells():
    """40 right-handed cells: every family several times with generic parameters, about half rigidly rotated.
    The first 24 are the quick-tier set of the plane-normal enumeration (all seven families, both rhombohedral regimes, nine rotated)."""
    q = [
        {'family': 'cubic', 'abc': [4.05, 4.05, 4.05, 90.0, 90.0, 90.0], 'rot': None},
        {'family': 'tetragonal', 'abc': [3.1, 3.1, 5.27, 90.0, 90.0, 90.0], 'rot': None},
        {'family': 'orthorhombic', 'abc': [2.9, 4.3, 6.7, 90.0, 90.0, 90.0], 'rot': None},
        {'family': 'hexagonal', 'abc': [2.95, 2.95, 4.68, 90.0, 90.0, 120.0], 'rot': None},
        {'family': 'rhombohedral', 'abc': [4.2, 4.2, 4.2, 57.3, 57.3, 57.3], 'rot': None},
        {'family': 'rhombohedral', 'abc': [5.1, 5.1, 5.1, 108.4, 108.4, 108.4], 'rot': None},
        {'family': 'monoclinic', 'abc': [3.3, 4.9, 7.1, 90.0, 112.6, 90.0], 'rot': None},
        {'family': 'triclinic', 'abc': [3.0, 3.7, 4.9, 81.0, 104.0, 97.0], 'rot': None},
        {'family': 'triclinic', 'abc': [6.2, 4.1, 2.7, 117.5, 66.2, 99.9], 'rot': None},
        {'family': 'hexagonal', 'abc': [3.21, 3.21, 5.21, 90.0, 90.0, 120.0], 'rot': _ROTS[0]},
        {'family': 'triclinic', 'abc': [2.6, 5.4, 3.9, 71.3, 123.8, 58.6], 'rot': _ROTS[1]},
        {'family': 'monoclinic', 'abc': [5.8, 3.4, 4.6, 90.0, 98.2, 90.0], 'rot': _ROTS[2]},
    ]
    more = []
    fams = ['triclinic', 'monoclinic', 'rhombohedral', 'hexagonal', 'orthorhombic', 'tetragonal', 'cubic']
    for i in range(28):
        fam = fams[i % 7]
        a = round(2.3 + 0.41 * i, 3)
        rb = round(1.17 + 0.031 * ((i * 5) % 13), 4)
        rc = round(1.78 + 0.043 * ((i * 7) % 11), 4)
        ang = [round(58.0 + 2.9 * ((i * 3) % 9), 2), round(96.0 + 3.1 * ((i * 5) % 8), 2), round(101.5 + 2.3 * ((i * 2) % 9), 2)]
        if fam == 'cubic':
            p = [a, a, a, 90.0, 90.0, 90.0]
        elif fam == 'tetragonal':
            p = [a, a, round(a * (rb if i % 2 else 1 / rb), 4), 90.0, 90.0, 90.0]
        elif fam == 'orthorhombic':
            p = [round(a * rb, 4), a, round(a * rc, 4), 90.0, 90.0, 90.0]
        elif fam == 'hexagonal':
            p = [a, a, round(a * (rc if i % 2 else rb), 4), 90.0, 90.0, 120.0]
        elif fam == 'rhombohedral':
            al = [41.7, 73.9, 99.1, 113.2][(i // 7) % 4]
            p = [a, a, a, al, al, al]
        elif fam == 'monoclinic':
            p = [round(a * rc, 4), a, round(a * rb, 4), 90.0, [96.3, 104.9, 119.4, 128.8][(i // 7) % 4], 90.0]
        else:
            p = [a, round(a * rb, 4), round(a * rc, 4)] + ang
        more.append({'family': fam, 'abc': p, 'rot': _ROTS[i % 8] if i % 2 == 0 else None})
    cells = q + more
    for c in cells:
        ref.cell_matrix(c)          # raises if not realisable
    return cells


FIXED_CELLS = _fixed_cells()
HEX_CELLS = [c for c in FIXED_CELLS if c['family'] == 'hexagonal']


SCALAR_TYPES = ['int8', 'int16', 'int32', 'int64', 'uint8', 'uint16', 'uint32', 'uint64']


def enum_normal(tier):
    n, cells = (6, FIXED_CELLS[:24]) if tier == 'quick' else (10, FIXED_CELLS)
    return [{'cell': c, 'h': h, 'k': k, 'n': n} for c in cells for h in range(-n, n + 1) for k in range(-n, n + 1)]


def enum_conv34(tier):
    n, cells = (6, HEX_CELLS[:2]) if tier == 'quick' else (10, HEX_CELLS)
    return [{'cell': c, 'h': h, 'k': k, 'n': n} for c in cells for h in range(-n, n + 1) for k in range(-n, n + 1)]


def enum_centering(tier):
    n = 6 if tier == 'quick' else 10
    return [{'setting': s, 'h': h, 'n': n} for s in SETTINGS for h in range(-n, n + 1)]


def enum_reduce(tier):
    n = 6 if tier == 'quick' else 10
    cases = [{'kind': 'row', 'h': h, 'k': k, 'n': n} for h in range(-n, n + 1) for k in range(-n, n + 1)]
    cases += [{'kind': 'all_indices', 'maxindex': m, 'reduce': r} for m in range(1, n + 1) for r in (False, True)]
    # maxindex handed in as a numpy integer scalar of every width and signedness
    cases += [{'kind': 'all_indices', 'maxindex': m, 'reduce': r, 'mtype': t} for t in SCALAR_TYPES for m in (1, 2, 3) for r in (False, True)]
    return cases


# ----------------------------------------------------------------------------- random cells

_rot_or_none = st.one_of(st.none(), gens.rotations(min_angle=1.0))
_fam_any = gens.family_params()
_fam_tri = gens.family_params('triclinic')
_fam_hex = gens.family_params('hexagonal')
_fam_skew = st.one_of(gens.family_params('rhombohedral'), gens.family_params('monoclinic'))
_i09 = st.integers(0, 9)


@st.composite
def cells16(draw, hexshare=False):
    k = draw(_i09)
    if hexshare and k >= 8:
        fp = draw(_fam_hex)
    elif k <= 2:
        fp = draw(_fam_tri)
    elif k <= 4:
        fp = draw(_fam_skew)
    else:
        fp = draw(_fam_any)
    return {'family': fp['family'], 'abc': fp['abc'], 'rot': draw(_rot_or_none)}


_cells16h = cells16(hexshare=True)


# ----------------------------------------------------------------------------- indices

_idx = st.one_of(st.integers(-12, 12), st.sampled_from([0, 0, 0, 1, -1, 1, -1, 2, -2, 3, -3]))
_small = st.integers(-5, 5)


def _nz(t):
    t = list(t)
    if not any(t):
        t[-1] = 1
    return t


triple = st.tuples(_idx, _idx, _idx).map(_nz)
small_triple = st.tuples(_small, _small, _small).map(_nz)
_shape = st.sampled_from(['0', 'N', 'N', 'MN', 'MN'])
# input forms of an index array: nested list, int64 / integer-valued float64 C array (the original three), and the other
# documented "array-like" forms: nested tuples, int32 array, non-contiguous view, Fortran order, read-only array, list of
# numpy integer scalars
_form_general = st.sampled_from(['list', 'list', 'list', 'list', 'int', 'int', 'int', 'float', 'float', 'tuple', 'i32', 'nc', 'fortran',
                                 'ro', 'npscalars'])

# Integer dtypes of an index ARRAY other than the default int64 / int32-with-small-values: narrow, unsigned, big-endian, bool.
# form -> (numpy dtype string, lowest, highest index generated).  The index values of such a block are drawn from the WHOLE
# range lo..hi (limits included), so that the intermediate quantities of the conversions (h*k*l, lcm(h,k,l), -m, 2u-v, 2U+V,
# gcd = |lo|) do not fit the dtype: a conversion that does its integer arithmetic in the caller's dtype wraps around.
# 32- and 64-bit types: |index| <= BIG = 100000 (products of three still overflow 32 bits).  Beyond ~1.3e5 the documented
# lcm-based plane algorithm itself leaves exact int64/float64 arithmetic (lcm(h,k,l) > 2^53) for every dtype, int64 and Python
# lists included: that is the arithmetic of the documented algorithm, not a dtype matter, and is kept out.
BIG = 100000
DTYPES = {'i8': ('int8', -128, 127), 'i16': ('int16', -32768, 32767), 'i32w': ('int32', -BIG, BIG), 'i64w': ('int64', -BIG, BIG),
          'u8': ('uint8', 0, 255), 'u16': ('uint16', 0, 65535), 'u32': ('uint32', 0, BIG), 'u64': ('uint64', 0, BIG),
          'be16': ('>i2', -32768, 32767), 'be32': ('>i4', -BIG, BIG), 'be64': ('>i8', -BIG, BIG), 'bool': ('bool', 0, 1)}
UNSIGNED = ('u8', 'u16', 'u32', 'u64', 'bool')
_form_narrow = st.sampled_from(['i8', 'i8', 'i16', 'i16', 'u8', 'u8', 'u16', 'u32', 'u64', 'i32w', 'i64w', 'be16', 'be32', 'be64', 'bool'])
# forms that fit the small (|index| <= 12, signed) pools of the histories: values are small there, the dtype is what varies
_form_narrow_small = st.sampled_from(['i8', 'i8', 'i16', 'u8', 'u8', 'u16', 'u32', 'u64', 'be16', 'be32', 'be64', 'i64w'])
_i0_19 = st.integers(0, 19)


@st.composite
def _forms(draw, narrow=_form_narrow):
    """70 % the general forms, 30 % a narrow / unsigned / big-endian / bool integer array"""
    return draw(narrow) if draw(_i0_19) < 6 else draw(_form_general)


_form = _forms()
_form_hist = _forms(_form_narrow_small)


def _wide_elem(lo, hi):
    if hi == 1:
        return st.sampled_from([0, 1, 1])
    near = [hi, hi, hi - 1, hi - 2, hi // 2, hi // 2 + 1, hi // 3] + ([lo, lo, lo + 1, -hi, lo // 2, -(hi // 2) - 1] if lo < 0 else [hi, hi - 3])
    small = st.integers(max(lo, -12), 12)
    full = st.integers(lo, hi)
    return st.one_of(full, full, full, st.sampled_from(near), st.sampled_from(near), small, small, st.just(0))


_wide_triple = {f: st.tuples(_wide_elem(lo, hi), _wide_elem(lo, hi), _wide_elem(lo, hi)).map(lambda t: _nz(t))
                for f, (dt, lo, hi) in DTYPES.items()}


def fit4(t, lo, hi):
    """(h,k,l) -> (h,k',l) such that the induced third Miller-Bravais index -(h+k') is inside lo..hi as well (signed lo)"""
    h, k, l = t
    i = max(lo, min(hi, -(h + k)))
    return [h, -i - h, l]


def _map_block(idx, fn):
    if isinstance(idx[0], list):
        return [_map_block(x, fn) for x in idx]
    return fn(idx)


@st.composite
def index_block(draw, elem=triple, shapes=_shape):
    """{'shape': '0'|'N'|'MN', 'idx': nested list} with leading shape (), (N,), (M,N)"""
    sh = draw(shapes)
    if sh == '0':
        return {'shape': sh, 'idx': draw(elem)}
    n = draw(_i15)
    if sh == 'N':
        return {'shape': sh, 'idx': [draw(elem) for _ in range(n)]}
    m = draw(_i13)
    return {'shape': sh, 'idx': [[draw(elem) for _ in range(n)] for _ in range(m)]}


_den = st.sampled_from([1, 1, 2, 3, 4, 6])
_mult = st.sampled_from([1, 1, 2, 2, 3, 4, 5, 6, -1])
_ops = st.sampled_from(['normal', 'normal', 'normal', 'vector', 'conv34', 'centering', 'reduce', 'reduce'])
_setting = st.sampled_from(SETTINGS)
_bool = st.booleans()
_uvws = st.lists(small_triple, min_size=1, max_size=4)
_via = st.sampled_from(['box', 'miller'])
_via_f = st.sampled_from(['method', 'function'])
_bad = st.sampled_from([0, 0, 0, 1, -2])
_i05 = st.integers(0, 5)
_i15 = st.integers(1, 5)
_i13 = st.integers(1, 3)
_i04 = st.integers(0, 4)
_i02 = st.integers(0, 2)
_i03 = st.integers(0, 3)
_i016 = st.integers(0, 17)
_n34 = st.sampled_from([3, 3, 4])


_gmul = st.integers(0, 10 ** 6)
_i0_11 = st.integers(0, 11)
_wide_block = {f: index_block(_wide_triple[f]) for f in DTYPES}
_min_elem = {f: st.sampled_from([lo, lo, 0, lo // 2, -(lo // 2)]) for f, (dt, lo, hi) in DTYPES.items() if lo < 0}


def _reduce_elem_narrow(draw, form):
    """a row for reduce_indices in a narrow dtype: 60 % g x (small triple) with g up to hi/5 (large common factor, still inside
    the dtype), 1/12 (signed) rows of {lo, lo/2, 0} (gcd = |lo| has no representation in the dtype), else a full-range row"""
    dt, lo, hi = DTYPES[form]
    k = draw(_i0_11)
    if k == 0 and lo < 0:
        return _nz([draw(_min_elem[form]) for _ in range(3)])
    if k <= 7:
        s = draw(small_triple)
        if lo == 0:
            s = [abs(x) for x in s]
        g = 1 + draw(_gmul) % max(1, hi // 5)
        return [x * g for x in s]
    return draw(_wide_triple[form])


@st.composite
def random_cases(draw):
    op = draw(_ops)
    form = draw(_form)
    case = {'op': op, 'form': form}
    if form in DTYPES:
        # narrow / unsigned / big-endian / bool integer array: indices from the whole range of the dtype
        if op == 'reduce' and form == 'bool':
            form = case['form'] = 'u8'          # reduce_indices documents 'an array of ints': bool is not one (numpy's gcd refuses it)
        dt, lo, hi = DTYPES[form]
        if op == 'reduce':
            sh = draw(_shape)
            rows = lambda n: [_reduce_elem_narrow(draw, form) for _ in range(n)]
            if sh == '0':
                blk = {'shape': sh, 'idx': rows(1)[0]}
            elif sh == 'N':
                blk = {'shape': sh, 'idx': rows(draw(_i15))}
            else:
                n = draw(_i15)
                blk = {'shape': sh, 'idx': [rows(n) for _ in range(draw(_i13))]}
        else:
            blk = draw(_wide_block[form])
        case.update(blk)
        four = False
        if lo < 0 and op in ('normal', 'vector', 'reduce'):
            if op == 'reduce':
                four = draw(_bool)
            else:
                case['cell'] = draw(_cells16h)
                four = draw(_bool) if case['cell']['family'] == 'hexagonal' else draw(_i05) == 0
        elif op in ('normal', 'vector'):
            # unsigned: the third index -(h+k) of a 4-index form is not representable (unless h = k = 0): 3-index only
            case['cell'] = draw(_cells16h)
        if four or (op == 'conv34' and lo < 0):
            # the induced quadruple (h, k, -(h+k), l) has to fit the dtype too
            case['idx'] = _map_block(case['idx'], lambda t: _nz(fit4(t, lo, hi)))
        if op in ('normal', 'vector'):
            case['via'] = draw(_via)
            case['four'] = four
            if op == 'normal':
                case['uvw'] = draw(_uvws)
            else:
                case['den'] = 1
        elif op == 'conv34':
            case['bad'] = draw(_bad)
        elif op == 'centering':
            case['setting'] = draw(_setting)
            case['den'] = 1
        else:
            case['mult'] = 1
            case['four'] = four
        return case
    case.update(draw(index_block()))
    if op == 'normal':
        case['cell'] = draw(_cells16h)
        case['via'] = draw(_via)
        case['four'] = draw(_bool) if case['cell']['family'] == 'hexagonal' else draw(_i05) == 0
        case['uvw'] = draw(_uvws)
    elif op == 'vector':
        case['cell'] = draw(_cells16h)
        case['via'] = draw(_via)
        case['four'] = draw(_bool) if case['cell']['family'] == 'hexagonal' else draw(_i05) == 0
        case['den'] = draw(_den)
    elif op == 'conv34':
        case['bad'] = draw(_bad)
    elif op == 'centering':
        case['setting'] = draw(_setting)
        case['den'] = draw(_den)
    elif op == 'reduce':
        case['mult'] = draw(_mult)
        case['four'] = draw(_bool)
        if case['form'] == 'float':
            case['form'] = 'int'
    return case


_random_cases = random_cases()


# ----------------------------------------------------------------------------- histories
#
# box_history: ONE Box object (optionally held by a System) is built, queried, modified in place through every public
# route, queried again (same planes / vectors / family), copied, replaced ...  A step is a dict with key 'k':
#   q       query: 'what' normal | vector | family | read, 'sel' bitmask over the case's plane pool (0 = all)
#   mod     in-place change of the cell: 'how' (index into the routes that apply to the cell), 'cell', 'form', 'sys', 'origin', 'omit'
#   origin  only the origin is changed (the cell is not)             default  box.set() -> unit cube
#   scribble  write into arrays that atomman handed out (vects, avect, earlier results): must not change anything
#   new     the object is dropped and a fresh Box of another cell takes its place      copy  deepcopy, continue on the copy
# cells are the family cells of the other clauses or {'family': 'intvects', 'vects': 3x3 whole numbers, 'rot': None}.

_fam_generic = gens.family_params()
_i5_9 = st.integers(5, 9)
_off = st.sampled_from([0, 0, 1, -1, 2, -2])
_i0_9 = st.integers(0, 9)
_i0_31 = st.integers(0, 31)
_i0_99 = st.integers(0, 99)
_origin = st.one_of(st.none(), st.lists(gens.nice(-5.0, 5.0, 2), min_size=3, max_size=3), st.lists(st.integers(-4, 4), min_size=3, max_size=3))
_origin3 = st.lists(st.one_of(gens.nice(-5.0, 5.0, 2), st.integers(-4, 4).map(float)), min_size=3, max_size=3)
_vform = st.sampled_from(['arr', 'arr', 'list', 'tuple', 'fortran', 'nc', 'ro', 'int'])
_qwhat = st.sampled_from(['normal', 'normal', 'normal', 'normal', 'vector', 'vector', 'family', 'read'])
_qfour = st.sampled_from([0, 0, 0, 1, 2, 2])          # 4-index form: never / always / exactly when the cell is hexagonal now
_modkind = st.sampled_from(['mod'] * 7 + ['default', 'new', 'copy'])
_how = st.sampled_from(list(range(10)))
_sys = st.sampled_from([0, 1, 2, 2])
_setting_t = st.sampled_from(SETTINGS + ['t1', 't2', 't1', 't2'])
_planes_pool = st.lists(triple, min_size=1, max_size=5)
_uvw_pool = st.lists(small_triple, min_size=1, max_size=3)
_holder = st.sampled_from(['box', 'system'])
_nmods = st.sampled_from([1, 1, 2, 3])
_nq = st.sampled_from([1, 1, 2])
_qshape = st.sampled_from(['N', 'N', '0', 'MN'])


def _hist_cell(draw, prev=None):
    """a cell for a history: independent (family cell, a quarter hexagonal, a sixth with whole-number vectors), or - when
    there is a previous cell - the same lattice rigidly rotated (same a, b, c, angles: only the orientation changes), or
    the very same cell again"""
    k = draw(_i0_9)
    if prev is not None and 'abc' in prev and k == 0:
        return {'family': prev['family'], 'abc': prev['abc'], 'rot': draw(_rot_or_none), 'rel': 'rotated_prev'}
    if prev is not None and k == 1:
        return dict(prev, rel='same')
    if k == 2:
        d = [draw(_i5_9) for _ in range(3)]
        o = [draw(_off) for _ in range(6)]
        return {'family': 'intvects', 'vects': [[d[0], o[0], o[1]], [o[2], d[1], o[3]], [o[4], o[5], d[2]]], 'rot': None}
    if k <= 4:
        fp = draw(_fam_hex)
    elif k <= 6:
        fp = draw(_fam_skew) if k == 5 else draw(_fam_tri)
    else:
        fp = draw(_fam_generic)
    return {'family': fp['family'], 'abc': fp['abc'], 'rot': draw(_rot_or_none)}


@st.composite
def _query(draw):
    return {'k': 'q', 'what': draw(_qwhat), 'sel': 0 if draw(_bool) else draw(_i0_31), 'via': draw(_via),
            'four': draw(_qfour), 'form': draw(_form_hist), 'shape': draw(_qshape), 'den': draw(_den), 'perm': draw(_i0_99)}


_query_s = _query()


@st.composite
def box_history_cases(draw):
    cell0 = _hist_cell(draw)
    case = {'cell': cell0, 'how0': draw(_how), 'form0': draw(_vform), 'holder': draw(_holder), 'planes': draw(_planes_pool), 'uvw': draw(_uvw_pool)}
    steps = [draw(_query_s) for _ in range(draw(_nq))]
    prev = cell0
    for _ in range(draw(_nmods)):
        k = draw(_i0_9)
        if k == 0:
            steps.append({'k': 'origin', 'o': draw(_origin3), 'via': draw(_via)})
        elif k == 1:
            steps.append({'k': 'scribble'})
        elif k == 2:
            steps.append(draw(_query_s))
        mk = draw(_modkind)
        if mk == 'default':
            steps.append({'k': 'default'})
            prev = None
        elif mk == 'new':
            prev = _hist_cell(draw, prev)
            steps.append({'k': 'new', 'cell': prev, 'how': draw(_how), 'form': draw(_vform)})
        else:
            if mk == 'copy':
                steps.append({'k': 'copy'})
            prev = _hist_cell(draw, prev)
            steps.append({'k': 'mod', 'how': draw(_how), 'cell': prev, 'form': draw(_vform), 'sys': draw(_sys),
                          'origin': draw(_origin), 'omit': draw(_bool)})
        steps += [draw(_query_s) for _ in range(draw(_nq))]
    case['steps'] = steps
    return case


# call_history: a sequence of module-level calls in one process, each a complete case of another clause ('random', 'strings',
# 'family'), judged by that clause's oracle; the oracle then repeats every call in another order.  Half of the sequences are
# 'related': the same index block sent through the same operation with one ingredient changed (other centring setting, the
# same lattice in another orientation, another lattice in the same orientation, the identical call again).

_seqlen = st.sampled_from([2, 3, 3, 4, 5])


def _variant_form(draw, base_form):
    """the form of a repeat of the same index block: a block drawn for a narrow dtype (values from that dtype's range) is
    repeated in that dtype or in a general form (int64 based: holds every value); a general block in any general form"""
    if base_form in DTYPES and draw(_bool):
        return base_form
    return draw(_form_general)


@st.composite
def call_history_cases(draw):
    n = draw(_seqlen)
    ops = []
    fl = draw(_i0_9)
    if fl <= 2:
        # one index block through both centring conversions with several settings (the trigonal ones twice as often)
        rc = draw(_random_cases)
        den = draw(_den)
        for _ in range(n):
            ops.append(['random', {'op': 'centering', 'form': _variant_form(draw, rc['form']), 'shape': rc['shape'], 'idx': rc['idx'],
                                   'setting': draw(_setting_t), 'den': den}])
        return {'related': True, 'ops': ops, 'order': draw(_i0_99)}
    if fl <= 6:
        base = draw(_random_cases)
        ops.append(['random', base])
        for _ in range(n - 1):
            v = dict(base)
            k = draw(_i03)
            if base['op'] == 'centering':
                v['setting'] = draw(_setting)
            elif base['op'] in ('normal', 'vector'):
                c = base['cell']
                if k == 0:
                    v['cell'] = {'family': c['family'], 'abc': c['abc'], 'rot': draw(_rot_or_none)}
                elif k == 1:
                    fp = draw(_fam_hex) if c['family'] == 'hexagonal' else draw(_fam_generic)
                    v['cell'] = {'family': fp['family'], 'abc': fp['abc'], 'rot': c['rot']}
                v['via'] = draw(_via)
            elif base['op'] == 'reduce':
                v['mult'] = draw(_mult)
            v['form'] = _variant_form(draw, base['form'])
            if base['op'] == 'reduce' and v['form'] == 'float':
                v['form'] = 'int'
            if base['op'] == 'reduce' and v['form'] in DTYPES:
                v['mult'] = base['mult']            # a multiple of the block need not fit the narrow dtype
            ops.append(['random', v])
        return {'related': True, 'ops': ops, 'order': draw(_i0_99)}
    for _ in range(n):
        k = draw(_i0_9)
        if k == 0:
            ops.append(['strings', draw(_string_cases)])
        elif k == 1:
            ops.append(['family', draw(_family_cases)])
        else:
            ops.append(['random', draw(_random_cases)])
    return {'related': False, 'ops': ops, 'order': draw(_i0_99)}


# ----------------------------------------------------------------------------- family

_a = gens.nice(2.0, 9.0, 3)
_rb = gens.nice(1.15, 1.6, 3)
_rc = gens.nice(1.75, 2.4, 3)
_ratio = st.one_of(gens.nice(1.15, 2.4, 3), gens.nice(0.42, 0.87, 3))
_trig = st.one_of(gens.nice(35.0, 85.0, 2), gens.nice(95.0, 115.0, 2))
_beta = gens.nice(95.0, 135.0, 2)
_tri_ang = st.one_of(gens.nice(55.0, 85.0, 2), gens.nice(95.0, 125.0, 2))
_perm = st.sampled_from(list(itertools.permutations(range(3))))
_fam = st.sampled_from(['cubic', 'tetragonal', 'orthorhombic', 'hexagonal', 'trigonal', 'monoclinic', 'triclinic',
                        'trigonal', 'monoclinic', 'triclinic'])


@st.composite
def family_cases(draw):
    fam = draw(_fam)
    a = draw(_a)
    if fam == 'cubic':
        p = [a]
    elif fam in ('tetragonal', 'hexagonal'):
        p = [a, round(a * draw(_ratio), 4)]
    elif fam == 'trigonal':
        p = [a, draw(_trig)]
    else:
        l3 = [a, round(a * draw(_rb), 4), round(a * draw(_rc), 4)]
        pm = draw(_perm)
        l3 = [l3[pm[0]], l3[pm[1]], l3[pm[2]]]
        if fam == 'orthorhombic':
            p = l3
        elif fam == 'monoclinic':
            p = l3 + [draw(_beta)]
        else:
            ang = None
            for _ in range(20):
                t = [draw(_tri_ang) for _ in range(3)]
                if min(abs(t[0] - t[1]), abs(t[0] - t[2]), abs(t[1] - t[2])) >= 0.5 and gens.realisable(t[0], t[1], t[2], 0.05):
                    ang = t
                    break
            p = l3 + (ang or [81.0, 104.0, 97.0])
    return {'ctor': fam, 'params': p, 'rot': draw(_rot_or_none), 'via': draw(_via_f)}


# ----------------------------------------------------------------------------- index strings

_sint = st.one_of(st.integers(-9, 9), st.integers(-9, 9), st.integers(-999, 999))
_sep = st.sampled_from([' ', ' ', ' ', '  ', '   '])
_open = st.sampled_from(['[', '(', '<', '{', ''])
_fracnum = st.integers(-12, 12)
_fracden = st.sampled_from([1, 2, 3, 4, 5, 6, 7, 8, 9, 10, 12, 16, -2, -3])
_fracsp = st.sampled_from([' ', ' ', '', '  '])


@st.composite
def string_cases(draw):
    n = draw(_n34)
    ints = [draw(_sint) for _ in range(n)]
    body = str(ints[0])
    for x in ints[1:]:
        body += draw(_sep) + str(x)
    o = draw(_open)
    if o == '':
        return {'text': body, 'ints': ints, 'frac': None}
    text = o + body + ref.PAIRS[o]
    frac = None
    if draw(_bool):
        frac = [draw(_fracnum), draw(_fracden)]
        text = '%d/%d%s%s' % (frac[0], frac[1], draw(_fracsp), text)
    return {'text': text, 'ints': ints, 'frac': frac}


_ALPHA = '0123456789 -/[](){}<>.+e\t,'
_fuzztext = st.text(alphabet=_ALPHA, min_size=0, max_size=16)
_fuzzchar = st.sampled_from(list(_ALPHA))


_wnum = st.one_of(st.integers(-20, 20).map(str), st.sampled_from(['1.5', '0.25', '-2.', '+3', '1e1', '2E0', '-0.5', '+0', '007']))
_wsep = st.sampled_from([' ', '\t', '  ', ' \t'])
_wpad = st.sampled_from(['', '', ' ', '\t', '  '])
_wfrac = st.sampled_from(['', '', '1/2', '1 / 3', '-2/4 ', '1/0', '0/0 ', '1.5/3', '2/-0', '+1/4\t', '3/0.0'])
_wopen = st.sampled_from(['[', '(', '<', '{'])
_wtail = st.sampled_from(['', '', '', ' ', '\n', ' \n'])


@st.composite
def wide_strings(draw):
    n = draw(_n34)
    body = draw(_wnum)
    for _ in range(n - 1):
        body += draw(_wsep) + draw(_wnum)
    o = draw(_wopen)
    return draw(_wfrac) + o + draw(_wpad) + body + draw(_wpad) + ref.PAIRS[o] + draw(_wtail)


_wide_strings = wide_strings()
_string_cases = string_cases()
_family_cases = family_cases()


@st.composite
def fuzz_cases(draw):
    k = draw(_i05)
    if k == 0:
        return {'text': draw(_fuzztext)}
    if k == 1:
        return {'text': draw(_wide_strings)}
    s = draw(_string_cases)['text']
    for _ in range(draw(_i02)):
        kind = draw(_i03)
        pos = min(draw(_i016), len(s))
        if kind == 0 and s:
            pos = min(pos, len(s) - 1)
            s = s[:pos] + s[pos + 1:]
        elif kind == 1:
            s = s[:pos] + draw(_fuzzchar) + s[pos:]
        elif kind == 2 and s:
            pos = min(pos, len(s) - 1)
            s = s[:pos] + draw(_fuzzchar) + s[pos + 1:]
        elif s:
            pos = min(pos, len(s) - 1)
            s = s[:pos] + s[pos] + s[pos:]
    return {'text': s}
