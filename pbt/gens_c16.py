"""Strategies and fixed tables for C16 (Miller conversions, family identification).  Cases are JSON-able.

cell = {'family': str, 'abc': [a,b,c,alpha,beta,gamma], 'rot': None | [axis(3 ints), angle_deg]}
"""
import functools
import itertools

from hypothesis import strategies as st

from . import gens
from .oracles import miller_ref as ref

SETTINGS = list(ref.SETTINGS)

# ----------------------------------------------------------------------------- fixed cells for the enumerations

_ROTS = [[[1, 2, 3], 37.0], [[-2, 1, 4], 101.5], [[3, -1, 1], 163.25], [[0, 1, -1], 58.0], [[5, 2, -3], 12.75],
         [[1, 0, 0], 90.0], [[1, 1, 1], 120.0], [[-1, 4, 2], 77.7]]


def _fixed_cells():
    """40 right-handed cells: every family several times with generic parameters, about half rigidly rotated.
    The first 24 are the quick-tier set of the plane-normal enumeration (all seven families, both rhombohedral regimes, nine rotated)."""
    q = [
        {'family': 'cubic', 'abc': [4.05, 4.05, 4.05, 90.0, 90.0, 90.0], 'rot': None},
        {'family': 'tetragonal', 'abc': [3.1, 3.1, 5.27, 90.0, 90.0, 90.0], 'rot': None},
        {'family': 'orthorhombic', 'abc': [2.9, 4.3, 6.7, 90.0, 90.0, 90.0], 'rot': None},
        {'family': 'hexagonal', 'abc': [2.95, 2.95, 4.68, 90.0, 90.0, 120.0], 'rot': None},
        {'family': 'rhombohedral', 'abc': [4.2, 4.2, 4.2, 57.3, 57.3, 57.3], 'rot': None},
        {'family': 'rhombohedral', 'abc': [5.1, 5.1, 5.1, 108.4, 108.4, 108.4], 'rot': None},
        {'family': 'monoclinic', 'abc': [3.3, 4.9, 7.1, 90.0, 112.6, 90.0], 'rot': None},
        {'family': 'triclinic', 'abc': [3.0, 3.7, 4.9, 81.0, 104.0, 97.0], 'rot': None},
        {'family': 'triclinic', 'abc': [6.2, 4.1, 2.7, 117.5, 66.2, 99.9], 'rot': None},
        {'family': 'hexagonal', 'abc': [3.21, 3.21, 5.21, 90.0, 90.0, 120.0], 'rot': _ROTS[0]},
        {'family': 'triclinic', 'abc': [2.6, 5.4, 3.9, 71.3, 123.8, 58.6], 'rot': _ROTS[1]},
        {'family': 'monoclinic', 'abc': [5.8, 3.4, 4.6, 90.0, 98.2, 90.0], 'rot': _ROTS[2]},
    ]
    more = []
    fams = ['triclinic', 'monoclinic', 'rhombohedral', 'hexagonal', 'orthorhombic', 'tetragonal', 'cubic']
    for i in range(28):
        fam = fams[i % 7]
        a = round(2.3 + 0.41 * i, 3)
        rb = round(1.17 + 0.031 * ((i * 5) % 13), 4)
        rc = round(1.78 + 0.043 * ((i * 7) % 11), 4)
        ang = [round(58.0 + 2.9 * ((i * 3) % 9), 2), round(96.0 + 3.1 * ((i * 5) % 8), 2), round(101.5 + 2.3 * ((i * 2) % 9), 2)]
        if fam == 'cubic':
            p = [a, a, a, 90.0, 90.0, 90.0]
        elif fam == 'tetragonal':
            p = [a, a, round(a * (rb if i % 2 else 1 / rb), 4), 90.0, 90.0, 90.0]
        elif fam == 'orthorhombic':
            p = [round(a * rb, 4), a, round(a * rc, 4), 90.0, 90.0, 90.0]
        elif fam == 'hexagonal':
            p = [a, a, round(a * (rc if i % 2 else rb), 4), 90.0, 90.0, 120.0]
        elif fam == 'rhombohedral':
            al = [41.7, 73.9, 99.1, 113.2][(i // 7) % 4]
            p = [a, a, a, al, al, al]
        elif fam == 'monoclinic':
            p = [round(a * rc, 4), a, round(a * rb, 4), 90.0, [96.3, 104.9, 119.4, 128.8][(i // 7) % 4], 90.0]
        else:
            p = [a, round(a * rb, 4), round(a * rc, 4)] + ang
        more.append({'family': fam, 'abc': p, 'rot': _ROTS[i % 8] if i % 2 == 0 else None})
    cells = q + more
    for c in cells:
        ref.cell_matrix(c)          # raises if not realisable
    return cells


FIXED_CELLS = _fixed_cells()
HEX_CELLS = [c for c in FIXED_CELLS if c['family'] == 'hexagonal']


SCALAR_TYPES = ['int8', 'int16', 'int32', 'int64', 'uint8', 'uint16', 'uint32', 'uint64']


def enum_normal(tier):
    n, cells = (6, FIXED_CELLS[:24]) if tier == 'quick' else (10, FIXED_CELLS)
    return [{'cell': c, 'h': h, 'k': k, 'n': n} for c in cells for h in range(-n, n + 1) for k in range(-n, n + 1)]


def enum_conv34(tier):
    n, cells = (6, HEX_CELLS[:2]) if tier == 'quick' else (10, HEX_CELLS)
    return [{'cell': c, 'h': h, 'k': k, 'n': n} for c in cells for h in range(-n, n + 1) for k in range(-n, n + 1)]


def enum_centering(tier):
    n = 6 if tier == 'quick' else 10
    return [{'setting': s, 'h': h, 'n': n} for s in SETTINGS for h in range(-n, n + 1)]


def enum_reduce(tier):
    n = 6 if tier == 'quick' else 10
    cases = [{'kind': 'row', 'h': h, 'k': k, 'n': n} for h in range(-n, n + 1) for k in range(-n, n + 1)]
    cases += [{'kind': 'all_indices', 'maxindex': m, 'reduce': r} for m in range(1, n + 1) for r in (False, True)]
    # maxindex handed in as a numpy integer scalar of every width and signedness
    cases += [{'kind': 'all_indices', 'maxindex': m, 'reduce': r, 'mtype': t} for t in SCALAR_TYPES for m in (1, 2, 3) for r in (False, True)]
    return cases


# ----------------------------------------------------------------------------- random cells

_rot_or_none = st.one_of(st.none(), gens.rotations(min_angle=1.0))
_fam_any = gens.family_params()
_fam_tri = gens.family_params('triclinic')
_fam_hex = gens.family_params('hexagonal')
_fam_skew = st.one_of(gens.family_params('rhombohedral'), gens.family_params('monoclinic'))
_i09 = st.integers(0, 9)


@st.composite
def cells16(draw, hexshare=False):
    k = draw(_i09)
    if hexshare and k >= 8:
        fp = draw(_fam_hex)
    elif k <= 2:
        fp = draw(_fam_tri)
    elif k <= 4:
        fp = draw(_fam_skew)
    else:
        fp = draw(_fam_any)
    return {'family': fp['family'], 'abc': fp['abc'], 'rot': draw(_rot_or_none)}


_cells16h = cells16(hexshare=True)


# ----------------------------------------------------------------------------- indices

_idx = st.one_of(st.integers(-12, 12), st.sampled_from([0, 0, 0, 1, -1, 1, -1, 2, -2, 3, -3]))
_small = st.integers(-5, 5)


def _nz(t):
    t = list(t)
    if not any(t):
        t[-1] = 1
    return t


triple = st.tuples(_idx, _idx, _idx).map(_nz)
small_triple = st.tuples(_small, _small, _small).map(_nz)
_shape = st.sampled_from(['0', 'N', 'N', 'MN', 'MN'])
# input forms of an index array: nested list, int64 / integer-valued float64 C array (the original three), and the other
# documented "array-like" forms: nested tuples, int32 array, non-contiguous view, Fortran order, read-only array, list of
# numpy integer scalars
_form_general = st.sampled_from(['list', 'list', 'list', 'list', 'int', 'int', 'int', 'float', 'float', 'tuple', 'i32', 'nc', 'fortran',
                                 'ro', 'npscalars'])

# Integer dtypes of an index ARRAY other than the default int64 / int32-with-small-values: narrow, unsigned, big-endian, bool.
# form -> (numpy dtype string, lowest, highest index generated).  The index values of such a block are drawn from the WHOLE
# range lo..hi (limits included), so that the intermediate quantities of the conversions (h*k*l, lcm(h,k,l), -m, 2u-v, 2U+V,
# gcd = |lo|) do not fit the dtype: a conversion that does its integer arithmetic in the caller's dtype wraps around.
# 32- and 64-bit types: |index| <= BIG = 100000 (products of three still overflow 32 bits).  Beyond ~1.3e5 the documented
# lcm-based plane algorithm itself leaves exact int64/float64 arithmetic (lcm(h,k,l) > 2^53) for every dtype, int64 and Python
# lists included: that is the arithmetic of the documented algorithm, not a dtype matter, and is kept out.
BIG = 100000
DTYPES = {'i8': ('int8', -128, 127), 'i16': ('int16', -32768, 32767), 'i32w': ('int32', -BIG, BIG), 'i64w': ('int64', -BIG, BIG),
          'u8': ('uint8', 0, 255), 'u16': ('uint16', 0, 65535), 'u32': ('uint32', 0, BIG), 'u64': ('uint64', 0, BIG),
          'be16': ('>i2', -32768, 32767), 'be32': ('>i4', -BIG, BIG), 'be64': ('>i8', -BIG, BIG), 'bool': ('bool', 0, 1)}
UNSIGNED = ('u8', 'u16', 'u32', 'u64', 'bool')
_form_narrow = st.sampled_from(['i8', 'i8', 'i16', 'i16', 'u8', 'u8', 'u16', 'u32', 'u64', 'i32w', 'i64w', 'be16', 'be32', 'be64', 'bool'])
# forms that fit the small (|index| <= 12, signed) pools of the histories: values are small there, the dtype is what varies
_form_narrow_small = st.sampled_from(['i8', 'i8', 'i16', 'u8', 'u8', 'u16', 'u32', 'u64', 'be16', 'be32', 'be64', 'i64w'])
# Floating dtypes of an index array other than native float64 (cross-pollination class C): the whole-number indices are exactly
# representable in the dtype (float16: |index| <= 2048); form -> (numpy dtype string, lowest, highest index generated).  A
# conversion that does its arithmetic in the storage dtype ((2u-v)/3 in float32, 2U+V beyond 2048 in float16) loses digits.
FDTYPES = {'f32': ('float32', -BIG, BIG), 'f16': ('float16', -2048, 2048), 'f64be': ('>f8', -BIG, BIG), 'f32be': ('>f4', -BIG, BIG)}
_form_float = st.sampled_from(['f32', 'f32', 'f16', 'f16', 'f64be', 'f32be'])
_i0_19 = st.integers(0, 19)


@st.composite
def _forms(draw, narrow=_form_narrow):
    """70 % the general forms, 30 % a narrow / unsigned / big-endian / bool integer array; the general form 'float' (integer-valued
    float64 array) is in 6 of 10 cases refined to a float32 / float16 / big-endian floating array of whole numbers"""
    if draw(_i0_19) < 6:
        return draw(narrow)
    f = draw(_form_general)
    if f == 'float' and draw(_i0_9) < 6:
        return draw(_form_float)
    return f


_form = _forms()
_form_hist = _forms(_form_narrow_small)


def _wide_elem(lo, hi):
    if hi == 1:
        return st.sampled_from([0, 1, 1])
    near = [hi, hi, hi - 1, hi - 2, hi // 2, hi // 2 + 1, hi // 3] + ([lo, lo, lo + 1, -hi, lo // 2, -(hi // 2) - 1] if lo < 0 else [hi, hi - 3])
    small = st.integers(max(lo, -12), 12)
    full = st.integers(lo, hi)
    return st.one_of(full, full, full, st.sampled_from(near), st.sampled_from(near), small, small, st.just(0))


_wide_triple = {f: st.tuples(_wide_elem(lo, hi), _wide_elem(lo, hi), _wide_elem(lo, hi)).map(lambda t: _nz(t))
                for f, (dt, lo, hi) in list(DTYPES.items()) + list(FDTYPES.items())}


def fit4(t, lo, hi):
    """(h,k,l) -> (h,k',l) such that the induced third Miller-Bravais index -(h+k') is inside lo..hi as well (signed lo)"""
    h, k, l = t
    i = max(lo, min(hi, -(h + k)))
    return [h, -i - h, l]


def _map_block(idx, fn):
    if isinstance(idx[0], list):
        return [_map_block(x, fn) for x in idx]
    return fn(idx)


@st.composite
def index_block(draw, elem=triple, shapes=_shape):
    """{'shape': '0'|'N'|'MN', 'idx': nested list} with leading shape (), (N,), (M,N)"""
    sh = draw(shapes)
    if sh == '0':
        return {'shape': sh, 'idx': draw(elem)}
    n = draw(_i15)
    if sh == 'N':
        return {'shape': sh, 'idx': [draw(elem) for _ in range(n)]}
    m = draw(_i13)
    return {'shape': sh, 'idx': [[draw(elem) for _ in range(n)] for _ in range(m)]}


_den = st.sampled_from([1, 1, 2, 3, 4, 6])
_mult = st.sampled_from([1, 1, 2, 2, 3, 4, 5, 6, -1])
_ops = st.sampled_from(['normal', 'normal', 'normal', 'vector', 'conv34', 'centering', 'reduce', 'reduce'])
_setting = st.sampled_from(SETTINGS)
_bool = st.booleans()
_uvws = st.lists(small_triple, min_size=1, max_size=4)
_via = st.sampled_from(['box', 'miller'])
_via_f = st.sampled_from(['method', 'function'])
_bad = st.sampled_from([0, 0, 0, 1, -2])
_i05 = st.integers(0, 5)
_i15 = st.integers(1, 5)
_i13 = st.integers(1, 3)
_i04 = st.integers(0, 4)
_i02 = st.integers(0, 2)
_i03 = st.integers(0, 3)
_i016 = st.integers(0, 17)
_n34 = st.sampled_from([3, 3, 4])


_gmul = st.integers(0, 10 ** 6)
_i0_11 = st.integers(0, 11)
_wide_block = {f: index_block(_wide_triple[f]) for f in list(DTYPES) + list(FDTYPES)}
_min_elem = {f: st.sampled_from([lo, lo, 0, lo // 2, -(lo // 2)]) for f, (dt, lo, hi) in DTYPES.items() if lo < 0}


def _reduce_elem_narrow(draw, form):
    """a row for reduce_indices in a narrow dtype: 60 % g x (small triple) with g up to hi/5 (large common factor, still inside
    the dtype), 1/12 (signed) rows of {lo, lo/2, 0} (gcd = |lo| has no representation in the dtype), else a full-range row"""
    dt, lo, hi = DTYPES[form]
    k = draw(_i0_11)
    if k == 0 and lo < 0:
        return _nz([draw(_min_elem[form]) for _ in range(3)])
    if k <= 7:
        s = draw(small_triple)
        if lo == 0:
            s = [abs(x) for x in s]
        g = 1 + draw(_gmul) % max(1, hi // 5)
        return [x * g for x in s]
    return draw(_wide_triple[form])


@st.composite
def random_cases(draw):
    op = draw(_ops)
    form = draw(_form)
    case = {'op': op, 'form': form}
    if form in DTYPES:
        # narrow / unsigned / big-endian / bool integer array: indices from the whole range of the dtype
        if op == 'reduce' and form == 'bool':
            form = case['form'] = 'u8'          # reduce_indices documents 'an array of ints': bool is not one (numpy's gcd refuses it)
        dt, lo, hi = DTYPES[form]
        if op == 'reduce':
            sh = draw(_shape)
            rows = lambda n: [_reduce_elem_narrow(draw, form) for _ in range(n)]
            if sh == '0':
                blk = {'shape': sh, 'idx': rows(1)[0]}
            elif sh == 'N':
                blk = {'shape': sh, 'idx': rows(draw(_i15))}
            else:
                n = draw(_i15)
                blk = {'shape': sh, 'idx': [rows(n) for _ in range(draw(_i13))]}
        else:
            blk = draw(_wide_block[form])
        case.update(blk)
        four = False
        if lo < 0 and op in ('normal', 'vector', 'reduce'):
            if op == 'reduce':
                four = draw(_bool)
            else:
                case['cell'] = draw(_cells16h)
                four = draw(_bool) if case['cell']['family'] == 'hexagonal' else draw(_i05) == 0
        elif op in ('normal', 'vector'):
            # unsigned: the third index -(h+k) of a 4-index form is not representable (unless h = k = 0): 3-index only
            case['cell'] = draw(_cells16h)
        if four or (op == 'conv34' and lo < 0):
            # the induced quadruple (h, k, -(h+k), l) has to fit the dtype too
            case['idx'] = _map_block(case['idx'], lambda t: _nz(fit4(t, lo, hi)))
        if op in ('normal', 'vector'):
            case['via'] = draw(_via)
            case['four'] = four
            if op == 'normal':
                case['uvw'] = draw(_uvws)
            else:
                case['den'] = 1
        elif op == 'conv34':
            case['bad'] = draw(_bad)
        elif op == 'centering':
            case['setting'] = draw(_setting)
            case['den'] = 1
        else:
            case['mult'] = 1
            case['four'] = four
        return case
    wide = None
    if form in FDTYPES:
        # float32 / float16 / big-endian floating array of whole numbers (a refinement of the form 'float'): small indices or
        # (half) the whole exactly representable range
        if op == 'reduce':
            form = case['form'] = 'int'         # reduce_indices documents 'an array of ints'
        elif draw(_bool):
            wide = FDTYPES[form]
    case.update(draw(_wide_block[form]) if wide else draw(index_block()))
    if op == 'normal':
        case['cell'] = draw(_cells16h)
        case['via'] = draw(_via)
        case['four'] = draw(_bool) if case['cell']['family'] == 'hexagonal' else draw(_i05) == 0
        case['uvw'] = draw(_uvws)
    elif op == 'vector':
        case['cell'] = draw(_cells16h)
        case['via'] = draw(_via)
        case['four'] = draw(_bool) if case['cell']['family'] == 'hexagonal' else draw(_i05) == 0
        case['den'] = draw(_den)
    elif op == 'conv34':
        case['bad'] = draw(_bad)
    elif op == 'centering':
        case['setting'] = draw(_setting)
        case['den'] = draw(_den)
    elif op == 'reduce':
        case['mult'] = draw(_mult)
        case['four'] = draw(_bool)
        if case['form'] == 'float':
            case['form'] = 'int'
    if wide and (op == 'conv34' or case.get('four')):
        case['idx'] = _map_block(case['idx'], lambda t: _nz(fit4(t, wide[1], wide[2])))
    return case


_random_cases = random_cases()


# ----------------------------------------------------------------------------- histories
#
# box_history: ONE Box object (optionally held by a System) is built, queried, modified in place through every public
# route, queried again (same planes / vectors / family), copied, replaced ...  A step is a dict with key 'k':
#   q       query: 'what' normal | vector | family | read, 'sel' bitmask over the case's plane pool (0 = all)
#   mod     in-place change of the cell: 'how' (index into the routes that apply to the cell), 'cell', 'form', 'sys', 'origin', 'omit'
#   origin  only the origin is changed (the cell is not)             default  box.set() -> unit cube
#   scribble  write into arrays that atomman handed out (vects, avect, earlier results): must not change anything
#   new     the object is dropped and a fresh Box of another cell takes its place      copy  deepcopy, continue on the copy
# cells are the family cells of the other clauses or {'family': 'intvects', 'vects': 3x3 whole numbers, 'rot': None}.

_fam_generic = gens.family_params()
_i5_9 = st.integers(5, 9)
_off = st.sampled_from([0, 0, 1, -1, 2, -2])
_i0_9 = st.integers(0, 9)
_i0_31 = st.integers(0, 31)
_i0_99 = st.integers(0, 99)
_origin = st.one_of(st.none(), st.lists(gens.nice(-5.0, 5.0, 2), min_size=3, max_size=3), st.lists(st.integers(-4, 4), min_size=3, max_size=3))
_origin3 = st.lists(st.one_of(gens.nice(-5.0, 5.0, 2), st.integers(-4, 4).map(float)), min_size=3, max_size=3)
_vform = st.sampled_from(['arr', 'arr', 'list', 'tuple', 'fortran', 'nc', 'ro', 'int', 'f32'])
_qwhat = st.sampled_from(['normal', 'normal', 'normal', 'normal', 'vector', 'vector', 'family', 'read'])
_qfour = st.sampled_from([0, 0, 0, 1, 2, 2])          # 4-index form: never / always / exactly when the cell is hexagonal now
_modkind = st.sampled_from(['mod'] * 7 + ['default', 'new', 'copy'])
_how = st.sampled_from(list(range(10)))
_sys = st.sampled_from([0, 1, 2, 2])
_setting_t = st.sampled_from(SETTINGS + ['t1', 't2', 't1', 't2'])
_planes_pool = st.lists(triple, min_size=1, max_size=5)
_uvw_pool = st.lists(small_triple, min_size=1, max_size=3)
_holder = st.sampled_from(['box', 'system'])
_nmods = st.sampled_from([1, 1, 2, 3])
_nq = st.sampled_from([1, 1, 2])
_qshape = st.sampled_from(['N', 'N', '0', 'MN'])


def _hist_cell(draw, prev=None):
    """a cell for a history: independent (family cell, a quarter hexagonal, a sixth with whole-number vectors), or - when
    there is a previous cell - the same lattice rigidly rotated (same a, b, c, angles: only the orientation changes), or
    the very same cell again"""
    k = draw(_i0_9)
    if prev is not None and 'abc' in prev and k == 0:
        return {'family': prev['family'], 'abc': prev['abc'], 'rot': draw(_rot_or_none), 'rel': 'rotated_prev'}
    if prev is not None and k == 1:
        return dict(prev, rel='same')
    if k == 2:
        d = [draw(_i5_9) for _ in range(3)]
        o = [draw(_off) for _ in range(6)]
        return {'family': 'intvects', 'vects': [[d[0], o[0], o[1]], [o[2], d[1], o[3]], [o[4], o[5], d[2]]], 'rot': None}
    if k <= 4:
        fp = draw(_fam_hex)
    elif k <= 6:
        fp = draw(_fam_skew) if k == 5 else draw(_fam_tri)
    else:
        fp = draw(_fam_generic)
    return {'family': fp['family'], 'abc': fp['abc'], 'rot': draw(_rot_or_none)}


@st.composite
def _query(draw):
    return {'k': 'q', 'what': draw(_qwhat), 'sel': 0 if draw(_bool) else draw(_i0_31), 'via': draw(_via),
            'four': draw(_qfour), 'form': draw(_form_hist), 'shape': draw(_qshape), 'den': draw(_den), 'perm': draw(_i0_99)}


_query_s = _query()


@st.composite
def box_history_cases(draw):
    cell0 = _hist_cell(draw)
    case = {'cell': cell0, 'how0': draw(_how), 'form0': draw(_vform), 'holder': draw(_holder), 'planes': draw(_planes_pool), 'uvw': draw(_uvw_pool)}
    steps = [draw(_query_s) for _ in range(draw(_nq))]
    prev = cell0
    for _ in range(draw(_nmods)):
        k = draw(_i0_9)
        if k == 0:
            steps.append({'k': 'origin', 'o': draw(_origin3), 'via': draw(_via)})
        elif k == 1:
            steps.append({'k': 'scribble'})
        elif k == 2:
            steps.append(draw(_query_s))
        mk = draw(_modkind)
        if mk == 'default':
            steps.append({'k': 'default'})
            prev = None
        elif mk == 'new':
            prev = _hist_cell(draw, prev)
            steps.append({'k': 'new', 'cell': prev, 'how': draw(_how), 'form': draw(_vform)})
        else:
            if mk == 'copy':
                steps.append({'k': 'copy'})
            prev = _hist_cell(draw, prev)
            steps.append({'k': 'mod', 'how': draw(_how), 'cell': prev, 'form': draw(_vform), 'sys': draw(_sys),
                          'origin': draw(_origin), 'omit': draw(_bool)})
        steps += [draw(_query_s) for _ in range(draw(_nq))]
    case['steps'] = steps
    return case


# call_history: a sequence of module-level calls in one process, each a complete case of another clause ('random', 'strings',
# 'family'), judged by that clause's oracle; the oracle then repeats every call in another order.  Half of the sequences are
# 'related': the same index block sent through the same operation with one ingredient changed (other centring setting, the
# same lattice in another orientation, another lattice in the same orientation, the identical call again).

_seqlen = st.sampled_from([2, 3, 3, 4, 5])


def _variant_form(draw, base_form):
    """the form of a repeat of the same index block: a block drawn for a narrow dtype (values from that dtype's range) is
    repeated in that dtype or in a general form (int64 based: holds every value); a general block in any general form"""
    if (base_form in DTYPES or base_form in FDTYPES) and draw(_bool):
        return base_form
    return draw(_form_general)


@st.composite
def call_history_cases(draw):
    n = draw(_seqlen)
    ops = []
    fl = draw(_i0_9)
    if fl <= 2:
        # one index block through both centring conversions with several settings (the trigonal ones twice as often)
        rc = draw(_random_cases)
        den = draw(_den)
        for _ in range(n):
            ops.append(['random', {'op': 'centering', 'form': _variant_form(draw, rc['form']), 'shape': rc['shape'], 'idx': rc['idx'],
                                   'setting': draw(_setting_t), 'den': den}])
        return {'related': True, 'ops': ops, 'order': draw(_i0_99)}
    if fl <= 6:
        base = draw(_random_cases)
        ops.append(['random', base])
        for _ in range(n - 1):
            v = dict(base)
            k = draw(_i03)
            if base['op'] == 'centering':
                v['setting'] = draw(_setting)
            elif base['op'] in ('normal', 'vector'):
                c = base['cell']
                if k == 0:
                    v['cell'] = {'family': c['family'], 'abc': c['abc'], 'rot': draw(_rot_or_none)}
                elif k == 1:
                    fp = draw(_fam_hex) if c['family'] == 'hexagonal' else draw(_fam_generic)
                    v['cell'] = {'family': fp['family'], 'abc': fp['abc'], 'rot': c['rot']}
                v['via'] = draw(_via)
            elif base['op'] == 'reduce':
                v['mult'] = draw(_mult)
            v['form'] = _variant_form(draw, base['form'])
            if base['op'] == 'reduce' and v['form'] == 'float':
                v['form'] = 'int'
            if base['op'] == 'reduce' and v['form'] in DTYPES:
                v['mult'] = base['mult']            # a multiple of the block need not fit the narrow dtype
            ops.append(['random', v])
        return {'related': True, 'ops': ops, 'order': draw(_i0_99)}
    for _ in range(n):
        k = draw(_i0_9)
        if k == 0:
            ops.append(['strings', draw(_string_cases)])
        elif k == 1:
            ops.append(['family', draw(_family_cases)])
        else:
            ops.append(['random', draw(_random_cases)])
    return {'related': False, 'ops': ops, 'order': draw(_i0_99)}


# ----------------------------------------------------------------------------- family

_a = gens.nice(2.0, 9.0, 3)
_rb = gens.nice(1.15, 1.6, 3)
_rc = gens.nice(1.75, 2.4, 3)
_ratio = st.one_of(gens.nice(1.15, 2.4, 3), gens.nice(0.42, 0.87, 3))
_trig = st.one_of(gens.nice(35.0, 85.0, 2), gens.nice(95.0, 115.0, 2))
_beta = gens.nice(95.0, 135.0, 2)
_tri_ang = st.one_of(gens.nice(55.0, 85.0, 2), gens.nice(95.0, 125.0, 2))
_perm = st.sampled_from(list(itertools.permutations(range(3))))
_fam = st.sampled_from(['cubic', 'tetragonal', 'orthorhombic', 'hexagonal', 'trigonal', 'monoclinic', 'triclinic',
                        'trigonal', 'monoclinic', 'triclinic'])


@st.composite
def family_cases(draw):
    fam = draw(_fam)
    a = draw(_a)
    if fam == 'cubic':
        p = [a]
    elif fam in ('tetragonal', 'hexagonal'):
        p = [a, round(a * draw(_ratio), 4)]
    elif fam == 'trigonal':
        p = [a, draw(_trig)]
    else:
        l3 = [a, round(a * draw(_rb), 4), round(a * draw(_rc), 4)]
        pm = draw(_perm)
        l3 = [l3[pm[0]], l3[pm[1]], l3[pm[2]]]
        if fam == 'orthorhombic':
            p = l3
        elif fam == 'monoclinic':
            p = l3 + [draw(_beta)]
        else:
            ang = None
            for _ in range(20):
                t = [draw(_tri_ang) for _ in range(3)]
                if min(abs(t[0] - t[1]), abs(t[0] - t[2]), abs(t[1] - t[2])) >= 0.5 and gens.realisable(t[0], t[1], t[2], 0.05):
                    ang = t
                    break
            p = l3 + (ang or [81.0, 104.0, 97.0])
    case = {'ctor': fam, 'params': p, 'rot': draw(_rot_or_none), 'via': draw(_via_f)}
    if draw(_i0_9) < 3:
        # class C: the lattice parameters as whole numbers handed over as Python ints or numpy scalars of a narrow integer /
        # floating dtype, lengths up to the dtype's limit (so that b**2, b*c leave an 8/16-bit integer)
        pt = draw(_ptype)
        case['params'] = _whole_params(draw, fam, PTYPES[pt])
        case['ptype'] = pt
    return case


# parameter type -> largest whole number used for a length
PTYPES = {'pyint': 400, 'int8': 127, 'uint8': 255, 'int16': 400, 'uint16': 400, 'int32': 400, 'int64': 400, 'f32': 400, 'f16': 400, 'f64': 400}
_ptype = st.sampled_from(['pyint', 'pyint', 'int8', 'int8', 'uint8', 'uint8', 'int16', 'uint16', 'int32', 'int64', 'f32', 'f32', 'f16', 'f64'])
_u01 = st.integers(0, 1000)
_wtrig = st.sampled_from([35, 47, 60, 71, 85, 95, 101, 108, 115])
_wbeta = st.sampled_from([95, 98, 104, 113, 120, 127])
_wtri = st.sampled_from([[81, 104, 97], [70, 80, 100], [55, 66, 77], [117, 66, 100], [62, 99, 84], [100, 110, 120], [83, 57, 124]])


def _whole_params(draw, fam, lim):
    """whole-number constructor parameters with non-coincident values, the longest length up to lim"""
    a = 2 + draw(_u01) % max(1, int(lim / 2.4) - 2)
    if draw(_bool):
        a = max(2, int(lim / 2.4) - draw(_u01) % 4)        # at the limit: c = round(2.4 a) reaches lim
    b = max(a + 1, int(round(a * (1.15 + (draw(_u01) % 45) / 100.0))))
    c = min(lim, max(b + 1, int(round(a * (1.75 + (draw(_u01) % 65) / 100.0)))))
    if fam == 'cubic':
        return [min(lim, c)]
    if fam in ('tetragonal', 'hexagonal'):
        return [a, c] if draw(_bool) else [c, a]
    if fam == 'trigonal':
        return [c, draw(_wtrig)]
    pm = draw(_perm)
    l3 = [a, b, c]
    l3 = [l3[pm[0]], l3[pm[1]], l3[pm[2]]]
    if fam == 'orthorhombic':
        return l3
    if fam == 'monoclinic':
        return l3 + [draw(_wbeta)]
    return l3 + list(draw(_wtri))


# ----------------------------------------------------------------------------- index strings

_sint = st.one_of(st.integers(-9, 9), st.integers(-9, 9), st.integers(-999, 999))
_sep = st.sampled_from([' ', ' ', ' ', '  ', '   '])
_open = st.sampled_from(['[', '(', '<', '{', ''])
_fracnum = st.integers(-12, 12)
_fracden = st.sampled_from([1, 2, 3, 4, 5, 6, 7, 8, 9, 10, 12, 16, -2, -3])
_fracsp = st.sampled_from([' ', ' ', '', '  '])


@st.composite
def string_cases(draw):
    n = draw(_n34)
    ints = [draw(_sint) for _ in range(n)]
    body = str(ints[0])
    for x in ints[1:]:
        body += draw(_sep) + str(x)
    o = draw(_open)
    if o == '':
        return {'text': body, 'ints': ints, 'frac': None}
    text = o + body + ref.PAIRS[o]
    frac = None
    if draw(_bool):
        frac = [draw(_fracnum), draw(_fracden)]
        text = '%d/%d%s%s' % (frac[0], frac[1], draw(_fracsp), text)
    return {'text': text, 'ints': ints, 'frac': frac}


_ALPHA = '0123456789 -/[](){}<>.+e\t,'
_fuzztext = st.text(alphabet=_ALPHA, min_size=0, max_size=16)
_fuzzchar = st.sampled_from(list(_ALPHA))


_wnum = st.one_of(st.integers(-20, 20).map(str), st.sampled_from(['1.5', '0.25', '-2.', '+3', '1e1', '2E0', '-0.5', '+0', '007']))
_wsep = st.sampled_from([' ', '\t', '  ', ' \t'])
_wpad = st.sampled_from(['', '', ' ', '\t', '  '])
_wfrac = st.sampled_from(['', '', '1/2', '1 / 3', '-2/4 ', '1/0', '0/0 ', '1.5/3', '2/-0', '+1/4\t', '3/0.0'])
_wopen = st.sampled_from(['[', '(', '<', '{'])
_wtail = st.sampled_from(['', '', '', ' ', '\n', ' \n'])


@st.composite
def wide_strings(draw):
    n = draw(_n34)
    body = draw(_wnum)
    for _ in range(n - 1):
        body += draw(_wsep) + draw(_wnum)
    o = draw(_wopen)
    return draw(_wfrac) + o + draw(_wpad) + body + draw(_wpad) + ref.PAIRS[o] + draw(_wtail)


_wide_strings = wide_strings()
_string_cases = string_cases()
_family_cases = family_cases()


@st.composite
def fuzz_cases(draw):
    k = draw(_i05)
    if k == 0:
        return {'text': draw(_fuzztext)}
    if k == 1:
        return {'text': draw(_wide_strings)}
    s = draw(_string_cases)['text']
    for _ in range(draw(_i02)):
        kind = draw(_i03)
        pos = min(draw(_i016), len(s))
        if kind == 0 and s:
            pos = min(pos, len(s) - 1)
            s = s[:pos] + s[pos + 1:]
        elif kind == 1:
            s = s[:pos] + draw(_fuzzchar) + s[pos:]
        elif kind == 2 and s:
            pos = min(pos, len(s) - 1)
            s = s[:pos] + draw(_fuzzchar) + s[pos + 1:]
        elif s:
            pos = min(pos, len(s) - 1)
            s = s[:pos] + s[pos] + s[pos:]
    return {'text': s}


# ============================================================================= cross-pollination round (classes A-H)
#
# Extended cells ("cellx"): a family cell {'family', 'abc', 'rot'} optionally carrying
#   'sym': {'rp': row permutation, 'rs': row signs, 'cp': column permutation, 'cs': column signs}   (class G)
#       V -> exact signed permutation of the lattice vectors (rows: a relabelling / inversion of a, b, c) and of the
#       Cartesian axes (columns), overall determinant kept positive: cells with exact zeros in unusual places, upper
#       triangular cells, negative diagonal entries; nothing is rounded (entries are moved and negated only);
#   'tilt': [dxy, dxz, dyz, dyx, dzx, dzy]                                                           (class E)
#       added to the unrotated family matrix as fractions (1e-12 ... 1e-3, signed) of its largest entry: almost-zero tilts,
#       almost-right angles, almost-equal lengths, entries inside and outside Box's documented 1e-9 clean-up window.
# The matrix is built by c16._cellV.

_SPERMS = list(itertools.permutations(range(3)))
_sperm = st.sampled_from(_SPERMS)
_ssign = st.sampled_from([[1, 1, 1], [1, 1, -1], [1, -1, 1], [-1, 1, 1], [-1, -1, 1], [-1, 1, -1], [1, -1, -1], [-1, -1, -1]])
_id3 = [0, 1, 2]
_pos3 = [1, 1, 1]


def perm_parity(p):
    p = list(p)
    return 1 if p in ([0, 1, 2], [1, 2, 0], [2, 0, 1]) else -1


def fix_sym(rp, rs, cp, cs):
    """make the overall determinant of the row / column operations +1 by flipping the last column sign if needed"""
    det = perm_parity(rp) * perm_parity(cp) * rs[0] * rs[1] * rs[2] * cs[0] * cs[1] * cs[2]
    cs = list(cs)
    if det < 0:
        cs[2] = -cs[2]
    return {'rp': list(rp), 'rs': list(rs), 'cp': list(cp), 'cs': cs}


@st.composite
def syms(draw):
    """half: Cartesian axes only (lattice parameters, family unchanged), half: lattice vectors relabelled / inverted as well"""
    k = draw(_i0_9)
    cp, cs = draw(_sperm), draw(_ssign)
    if k < 4:
        return fix_sym(_id3, _pos3, cp, cs)
    if k == 4:
        return fix_sym(_id3, _pos3, _id3, cs)                       # lower triangular, negative diagonal entries
    if k == 5:
        return fix_sym([2, 1, 0], draw(_ssign), [2, 1, 0], cs)      # lattice vectors and axes both reversed: upper triangular
    if k < 8:
        return fix_sym(draw(_sperm), draw(_ssign), _id3, _pos3)
    return fix_sym(draw(_sperm), draw(_ssign), cp, cs)


_syms = syms()
_dexp = st.integers(-12, -3)
_dman = st.sampled_from([1.0, 1.0, 1.3, 2.0, 2.9, 4.0, 7.0, -1.0, -1.7, -2.5, -5.0])


@st.composite
def deltas(draw):
    """signed relative offset m x 10^k, k = -12 ... -3"""
    return draw(_dman) * 10.0 ** draw(_dexp)


_delta = deltas()
_delta0 = st.one_of(st.just(0.0), _delta)


@st.composite
def cellsx(draw, kind=None):
    """family cell; 30 % with an exact signed permutation (no rotation), 20 % with tiny tilts, else as cells16"""
    c = draw(_cells16h)
    k = draw(_i0_9) if kind is None else {'sym': 0, 'tilt': 3, 'plain': 9}[kind]
    if k < 3:
        c = dict(c, rot=None, sym=draw(_syms))
    elif k < 5:
        t = [draw(_delta0) for _ in range(6)]
        if not any(t):
            t[0] = 1e-7
        c = dict(c, rot=None, tilt=t)
        if draw(_bool):
            c['sym'] = draw(_syms)
    return c


_cellsx = cellsx()
_cells_sym = cellsx('sym')
_cells_tilt = cellsx('tilt')


# ----------------------------------------------------------------------------- ledger (classes A, B)
# {'ops': [[kind, sub-case], ...], 'post': [[what, i], ...]}: the sub-cases are complete cases of the clauses random / strings
# (judged by those oracles); every array handed in and out is kept and compared bit for bit after each later call; 'post' =
# what the caller does afterwards: 0 overwrite the arrays handed IN to call i, 1 overwrite the array handed OUT by call i,
# 2 make call i again with fresh arguments, 3 make call i again on the same Box object.

_lops = st.sampled_from(['normal', 'normal', 'vector', 'vector', 'conv34', 'centering', 'centering', 'reduce', 'strings'])
_lform = st.sampled_from(['int', 'int', 'int', 'float', 'i32', 'nc', 'fortran', 'i8', 'i16', 'u8', 'f32', 'be32', 'list'])
_post = st.tuples(st.sampled_from([0, 0, 1, 1, 2, 3]), st.integers(0, 7)).map(list)


@st.composite
def ledger_cases(draw):
    n = draw(st.sampled_from([2, 3, 3, 4]))
    ops = []
    shared_cell = draw(_cellsx)
    shared_hex = draw(_fam_hex)
    for _ in range(n):
        op = draw(_lops)
        if op == 'strings':
            ops.append(['strings', draw(_string_cases)])
            continue
        form = draw(_lform)
        sub = {'op': op, 'form': form}
        sub.update(draw(index_block(small_triple if form in ('i8', 'u8', 'i16') else triple)))
        if form == 'u8':
            sub['idx'] = _map_block(sub['idx'], lambda t: _nz([abs(x) for x in t]))
        if op in ('normal', 'vector'):
            k = draw(_i0_9)
            sub['cell'] = shared_cell if k < 5 else ({'family': 'hexagonal', 'abc': shared_hex['abc'], 'rot': None} if k < 7 else draw(_cellsx))
            sub['via'] = draw(_via)
            sub['four'] = form != 'u8' and (draw(_bool) if sub['cell']['family'] == 'hexagonal' and 'sym' not in sub['cell'] and 'tilt' not in sub['cell'] else False)
            if op == 'normal':
                sub['uvw'] = draw(_uvws)
            else:
                sub['den'] = draw(_den) if form in ('int', 'list') else 1
        elif op == 'conv34':
            sub['bad'] = 0
            if form == 'u8':
                sub['form'] = 'i8'
        elif op == 'centering':
            sub['setting'] = draw(_setting_t)
            sub['den'] = draw(_den) if form in ('int', 'list') else 1
        else:
            sub['mult'] = 1 if form in DTYPES else draw(_mult)
            sub['four'] = form != 'u8' and draw(_bool)
            if form in ('float', 'f32'):
                sub['form'] = 'int'
        ops.append(['random', sub])
    return {'ops': ops, 'post': draw(st.lists(_post, min_size=2, max_size=5))}


# ----------------------------------------------------------------------------- working-unit configurations (class D)
# cfg = {'kind': 'named', 'units': {...}} | {'kind': 'seed', 'seed': n} | {'kind': 'SI'}; a plan = {'pre': cfg | None, 'W': cfg,
# 'back': bool}: the judged calls run under pre (when given), then under W, then (back) under the restored default units, in
# one process; the cell is the same PHYSICAL cell (angstrom numbers x the size of the angstrom in the working units).

ULEN = ['nm', 'pm', 'm', 'cm', 'aBohr', 'um', 'nm', 'm']
_ulen = st.sampled_from(ULEN)
_uextra = st.sampled_from([{}, {}, {'energy': 'J'}, {'mass': 'kg'}, {'time': 'ns', 'charge': 'C'}, {'energy': 'kcal', 'mass': 'g'}])
_ukind = st.sampled_from(['named', 'named', 'named', 'seed', 'SI'])
_useed = st.integers(0, 2 ** 31 - 1)
DEFAULT_CFG = {'kind': 'named', 'units': {'length': 'angstrom', 'mass': 'amu', 'energy': 'eV', 'charge': 'e'}}


@st.composite
def unit_cfgs(draw):
    kind, ln, ex, seed = draw(_ukind), draw(_ulen), draw(_uextra), draw(_useed)
    if kind == 'named':
        return {'kind': 'named', 'units': dict(ex, length=ln)}
    if kind == 'seed':
        return {'kind': 'seed', 'seed': seed}
    return {'kind': 'SI'}


_ucfg = unit_cfgs()
_upre = st.sampled_from(['default', 'default', 'other', 'none'])
_ukinds = st.sampled_from(['normal', 'normal', 'vector', 'vector', 'family', 'family', 'family'])


def apply_units(uc, cfg):
    if cfg['kind'] == 'named':
        uc.reset_units(**cfg['units'])
    elif cfg['kind'] == 'seed':
        uc.reset_units(seed=int(cfg['seed']))
    else:
        uc.reset_units(seed='SI')


def restore_units(uc):
    uc.reset_units(length='angstrom', mass='amu', energy='eV', charge='e')


@st.composite
def units_cases(draw):
    W, pk, P = draw(_ucfg), draw(_upre), draw(_ucfg)
    if W == DEFAULT_CFG:
        W = {'kind': 'SI'}
    pre = DEFAULT_CFG if pk == 'default' else (None if pk == 'none' else (P if P != W else {'kind': 'named', 'units': {'length': 'nm'}}))
    kind = draw(_ukinds)
    case = {'plan': {'pre': pre, 'W': W, 'back': draw(_bool)}, 'kind': kind, 'via_model': draw(_bool)}
    if kind == 'family':
        sub = draw(_family_cases)
        sub.pop('ptype', None)
        if 'ptype' not in sub and any(isinstance(x, int) for x in sub['params']):
            sub['params'] = [float(x) for x in sub['params']]
        case['sub'] = sub
        return case
    sub = {'op': kind, 'form': draw(_lform)}
    if sub['form'] in ('i8', 'u8', 'i16', 'be32'):
        sub['form'] = 'int'
    sub.update(draw(index_block()))
    sub['cell'] = draw(_cellsx)
    sub['via'] = draw(_via)
    sub['four'] = draw(_bool) if sub['cell']['family'] == 'hexagonal' and 'sym' not in sub['cell'] and 'tilt' not in sub['cell'] else False
    if kind == 'normal':
        sub['uvw'] = draw(_uvws)
    else:
        sub['den'] = draw(_den) if sub['form'] in ('int', 'list') else 1
    case['sub'] = sub
    return case


# ----------------------------------------------------------------------------- near-threshold values (class E)
# kinds: 'family'  a family constructor with ONE relation off its higher-symmetry value by a relative delta (1e-12 ... 1e-3),
#                  optional rtol / atol arguments: judged against my own reading of the documented definitions and tolerances,
#                  outside a factor-3 band around each documented threshold; hexagonal bases also decide the 4-index acceptance;
#        'tilt'    plane normals / vectors in a cell with tiny tilts (cellsx 'tilt');
#        'almost_int'  plane indices off whole numbers by a relative delta: the documented refusal or the normal of the rounded plane;
#        'guard'   a 4-index quadruple whose first three indices sum to delta instead of 0.

NEAR_BASES = ['tetragonal', 'trigonal', 'orthorhombic', 'monoclinic', 'triclinic', 'hex_ab', 'hex_gamma']
_nbase = st.sampled_from(NEAR_BASES + ['tetragonal', 'hex_ab', 'hex_gamma'])
_nopts = st.sampled_from([None, None, None, None, {'rtol': 1e-3}, {'rtol': 1e-8}, {'rtol': 1e-8, 'atol': 0.0}, {'atol': 1e-3}, {'rtol': 1e-2, 'atol': 0.0}])
_nkind = st.sampled_from(['family', 'family', 'family', 'tilt', 'tilt', 'almost_int', 'guard'])
_nbuild = st.sampled_from(['ctor', 'ctor', 'vects', 'vects_rot'])
_rot1 = gens.rotations(min_angle=1.0)


@st.composite
def near_cases(draw):
    kind = draw(_nkind)
    if kind == 'family':
        base = draw(_nbase)
        fp = draw(gens.family_params('triclinic' if base == 'triclinic' else ('monoclinic' if base == 'monoclinic' else 'orthorhombic')))
        a, b, c, al, be, ga = fp['abc']
        d = draw(_delta)
        if base == 'monoclinic':
            d = abs(d)                         # Box.monoclinic documents beta > 90
        case = {'kind': 'family', 'base': base, 'abc': [a, b, c, al, be, ga], 'delta': d, 'build': draw(_nbuild), 'rot': draw(_rot1),
                'opts': draw(_nopts), 'via': draw(_via_f), 'sel': draw(_i0_9)}
        blk = draw(index_block(small_triple, st.sampled_from(['0', 'N'])))
        case.update(blk)
        case['uvw'] = draw(_uvws)
        return case
    if kind == 'tilt':
        sub = {'op': draw(st.sampled_from(['normal', 'normal', 'vector'])), 'form': draw(st.sampled_from(['int', 'list', 'float', 'i8']))}
        sub.update(draw(index_block()))
        sub['cell'] = draw(_cells_tilt)
        sub['via'] = draw(_via)
        sub['four'] = False
        sub['uvw'] = draw(_uvws)
        sub['den'] = 1
        return {'kind': 'tilt', 'sub': sub}
    if kind == 'almost_int':
        blk = draw(index_block())
        flat = blk['idx'] if blk['shape'] != 'MN' else [t for r in blk['idx'] for t in r]
        n = 1 if blk['shape'] == '0' else len(flat)
        return {'kind': 'almost_int', 'shape': blk['shape'], 'idx': blk['idx'], 'cell': draw(_cellsx), 'via': draw(_via),
                'eps': [[draw(_delta0) for _ in range(3)] for _ in range(n)]}
    blk = draw(index_block())
    return {'kind': 'guard', 'shape': blk['shape'], 'idx': blk['idx'], 'delta': draw(_delta), 'where': draw(_i0_9), 'den': draw(_den),
            'hexcell': draw(_fam_hex)['abc']}


# ----------------------------------------------------------------------------- many decades in one call (class F)
# {'op': ..., 'rows': [[t, e], ...]}: row i of the array argument is the small integer triple t scaled by 2**e (vector, centring,
# 3<->4: floating indices spanning 2**-40 ... 2**40, exact) or multiplied by the integer g (planes: g <= 1e4 with |g t| <= 1e5,
# reduce: g up to 1e15); every row is judged relative to its OWN magnitude and against the call made with that row alone.

_dop = st.sampled_from(['vector', 'vector', 'normal', 'normal', 'centering', 'conv34', 'reduce'])
_e2 = st.integers(-40, 40)
_g10 = st.integers(0, 15)
_gm = st.sampled_from([1, 1, 2, 3, 7, 9])


@st.composite
def decades_cases(draw):
    op = draw(_dop)
    n = draw(st.integers(3, 6))
    case = {'op': op, 'via': draw(_via), 'shape': draw(st.sampled_from(['N', 'N', 'MN']))}
    if op in ('vector', 'normal'):
        case['cell'] = draw(_cellsx)
        hexok = case['cell']['family'] == 'hexagonal' and 'sym' not in case['cell'] and 'tilt' not in case['cell']
        case['four'] = hexok and draw(_bool)
    elif op in ('conv34', 'reduce'):
        case['four'] = draw(_bool)
    if op == 'centering':
        case['setting'] = draw(_setting_t)
    rows = []
    lo_first = draw(_bool)
    for i in range(n):
        t = draw(small_triple)
        if op in ('normal', 'reduce'):
            kmax = 4 if op == 'normal' else 15
            k = (0 if lo_first else kmax) if i == 0 else ((kmax if lo_first else 0) if i == 1 else draw(_g10) % (kmax + 1))
            rows.append([t, draw(_gm) * 10 ** k])
        else:
            e = (-30 if lo_first else 30) if i == 0 else ((30 if lo_first else -30) if i == 1 else draw(_e2))
            rows.append([t, e])
    case['rows'] = rows
    return case


# ----------------------------------------------------------------------------- exactly structured inputs (class G)
# one index block in a cell with an exact signed permutation of lattice vectors / Cartesian axes: plane normal + zone law, vector,
# the mirrored block (-h,-k,-l), the cyclically relabelled case ((k,l,h) in the cell (b,c,a)), exact halves as vector indices,
# family identification when only the Cartesian axes were permuted.

@st.composite
def structured_cases(draw):
    blk = draw(index_block())
    return {'shape': blk['shape'], 'idx': blk['idx'], 'cell': draw(_cells_sym), 'uvw': draw(_uvws), 'via': draw(_via),
            'form': draw(st.sampled_from(['int', 'list', 'float', 'i8', 'nc', 'f32'])), 'den': draw(st.sampled_from([1, 2, 2, 4])),
            'via_f': draw(_via_f), 'vform': draw(st.sampled_from(['arr', 'list', 'int', 'f32', 'fortran']))}


# ----------------------------------------------------------------------------- enumerated option combinations (class H)

CENTRING_CALLS = [(s, d) for s in SETTINGS for d in ('c2p', 'p2c')]
FAM_FUNCS = ['identifyfamily', 'iscubic', 'ishexagonal', 'istetragonal', 'isrhombohedral', 'isorthorhombic', 'ismonoclinic', 'istriclinic']
FAM_OPTS = [None, {'rtol': 1e-2}, {'rtol': 1e-9, 'atol': 0.0}]
# boxes 1e-3 (relative) away from a higher-symmetry family: the loose option (rtol 1e-2) changes the documented answer
FAM_BOXES = [['tetragonal', [3.1, 3.1 * 1.001]], ['orthorhombic', [2.9, 2.9 * 1.001, 6.7]], ['monoclinic', [3.3, 4.9, 7.1, 90.0 * 1.001]],
             ['trigonal', [4.2, 90.0 * 1.001]], ['hex_ab', [2.95, 2.95 * 1.001, 4.68]]]


def enum_options(tier):
    cases = []
    nc = len(CENTRING_CALLS)
    for i in range(nc):
        for j in range(nc):
            for k in range(nc):
                if tier == 'quick':
                    # quick: all ordered pairs (k == i closes the pair by repeating the first call) and every triple of calls
                    # that touch the same table (same setting, or the two trigonal settings)
                    s = [CENTRING_CALLS[x][0] for x in (i, j, k)]
                    shared = len({x[0] for x in s}) < 3
                    if not (k == i or shared):
                        continue
                cases.append({'kind': 'centring', 'calls': [i, j, k]})
    for m1 in (1, 2, 3):
        for r1 in (False, True):
            for m2 in (1, 2, 3):
                for r2 in (False, True):
                    cases.append({'kind': 'all_indices', 'calls': [[m1, r1], [m2, r2]]})
    calls = [(f, o, v) for f in range(len(FAM_FUNCS)) for o in range(len(FAM_OPTS)) for v in ('method', 'function')]
    for b in range(len(FAM_BOXES)):
        for x in calls:
            for y in calls:
                if tier == 'quick' and x[2] != y[2] and (x[0] + y[0] + b) % 2:
                    continue
                cases.append({'kind': 'family', 'box': b, 'calls': [list(x), list(y)]})
    return cases
