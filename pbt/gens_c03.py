"""Strategies for C03 (neighbour list): a cell, a periodicity setting, atoms inside the cell, a cutoff and the two
storage-size parameters.  Everything is JSON-able; positions are stored in Cartesian coordinates (exact floats).

Placement kinds (DESIGN section 4, C03):
  sparse    1-6 atoms, uniformly random, cell many cutoffs wide (bins that hold only periodic images are common)
  targeted  2-4 atoms, one axis made periodic, two atoms close to the two opposite faces along it (distance from the
            face 0, <= 0.02 cutoff, or <= 1 cutoff) with transverse offset of at most one cutoff; cutoff 0.15-0.45 of
            the smallest perpendicular width
  faces     1-8 atoms with relative coordinates from {0, 1, 1/2} mixed with generic values (faces, edges, corners)
  binedge   2-8 atoms, some Cartesian coordinates moved onto an edge of the cutoff-sized bins (offset 0, +-1e-12,
            +-1e-9, +-1e-6 cutoff), kept only if the moved atom is still inside the cell
  dense     a jittered n1 x n2 x n3 lattice with 1-2 basis atoms (<= 60 atoms), cutoff up to 1.6 widths
  cluster   40-70 atoms inside one cube of side <= cutoff (more than 40 entries in one bin, long rows)
  dyadic    orthogonal unrotated cell, lengths/origin multiples of 1/4, positions multiples of 1/8, one pair placed at a
            Pythagorean separation m*(a,b,c)/8 (through the periodic boundary where there is one) and the cutoff set
            exactly to its length m*r/8 or 2^-20 above: all arithmetic is exact, the boundary '<' itself is tested;
            half of them scaled by 8 ('whole': every position, length and origin a whole number, so that the positions
            can be handed over integer-typed and atomman stores them as integers)

  near      (cross-pollination round) 2-6 atoms in pairs built around a threshold of the property, each 1e-12 .. 5e-3
            (relative) away from it: a partner at distance cutoff*(1 +- d) in a random direction (wrapped through a
            periodic face when it leaves the cell), a partner at distance cutoff*d (almost coincident atoms), an atom
            at relative coordinate d or 1 - d (almost on a face) with or without a partner across that face; half of
            the cells get tilts of +-d * length (almost orthogonal) and / or a second length (1 + d) times the first
            (almost equal); one system so holds separations over 8+ decades.  The oracle's exempt band stays
            1e-9 * cutoff: everything from 2e-9 outward is judged.

Exact symmetry images of the cell (cell['sym'], absent = none; about 30 % of all systems, every kind): after everything
gens.cell_vects does the cell is acted on - exactly, by indexing and sign changes only - by
   m  one of the 48 signed permutations M of the Cartesian axes (vects -> vects . M^T: rotations by exactly 90 / 120 /
      180 degrees, mirrors, the inversion; numbers 0..7 are the diagonal ones),
   p  one of the 6 renamings of the cell vectors (rows),
   s  one of the 8 reversals of cell vectors (a reversed vector moves the origin to its tip: the same region of space),
so that exact zeros survive where a generic rotation leaves none: lower-triangular cells with negative diagonal
entries (the LAMMPS form turned by 180 degrees / mirrored), upper-triangular cells (vectors and axes both in reverse
order), axis-permuted orthogonal cells, left-handed cells.  The generic kinds are CONSTRUCTED in the final cell; the
dyadic kind is transformed afterwards (positions permuted / negated: exact).

Input forms (case['form'], absent = everything plain): how the numbers are handed to atomman.
  pos     array (float64, C-contiguous, writeable) / readonly (setflags(write=False)) / frombuffer (numpy.frombuffer,
          read-only) / memmap (numpy.load(mmap_mode='r'), read-only) / fortran / strided (non-contiguous view into a
          NaN-filled larger array) / list / tuple; dyadic systems also float32 (exact: eighths below 2^9) and, when
          whole, intarray / intlist / inttuple (stored by Atoms as int64)
          narrow (cross-pollination round): an array of the dtype number form['narrow'] among those that hold the
          positions exactly (narrow_pos_dtypes): big-endian float64 always; float16 / big-endian float32 / float16
          for small dyadic values; int8 / uint8 / int16 / uint16 / int32 / uint32 / uint64 and big-endian integers
          / bool for whole numbers inside the limits of the dtype
  cutoff  float / npfloat (numpy.float64); a whole cutoff also int / npint; narrow: numpy.longdouble always, float32 /
          float16 / int8 .. uint64 numpy scalars where they hold the value exactly
  sizes   int / npint64 / npint32 / npint8 / npuint8 / npint16 / npuint16 / npuint32 / npuint64
  pbc     list / tuple / nparray (of bool)

Length scale (cell['scale'], absent = 1): the whole geometric input of a system - cell vectors, origin, positions and
cutoff - is expressed in a length unit 10^k times the angstrom-like one, k in -12..+6 (1e-10, i.e. SI metres,
favoured; exactly 1 in about half of the systems).  The generic kinds are CONSTRUCTED in the scaled unit (cell vectors
first, then widths, cutoff, positions from them), so nothing is rescaled afterwards.  Dyadic systems use a power of two
(2^-33 ~ 1.2e-10 favoured, 2^-40 .. 2^30; whole-number systems 2^0 .. 2^30 only) so that every sum, square and
comparison still rounds - not at all - exactly as at scale 1 and the boundary '<' stays decidable exactly.  The cap on
the number of bins (MAXBINS) is a count, the ratio of superbox extent to cutoff: scale free.
"""
import numpy as np
from hypothesis import strategies as st

from . import gens
from .gens import nice

MAXBINS = 30000          # cap on the number of cutoff-sized bins of the padded superbox (memory/time of nlist)

CELLS = gens.cells(rotated=True, lefthanded=False, origin=True, lmin=1.0, lmax=12.0, maxtilt=1.5, families=True)
KINDS = st.sampled_from(['sparse'] * 3 + ['targeted'] * 5 + ['faces'] * 2 + ['binedge'] * 4 + ['dense'] * 5 + ['cluster'] * 2
                        + ['dyadic'] * 3 + ['near'] * 3)
_unit = st.integers(0, 10000).map(lambda k: k / 10000.0)      # not st.floats: those return exactly 0.0/1.0 very often
_sym = nice(-1.0, 1.0, 4)
_facecoord = st.one_of(st.sampled_from([0.0, 1.0, 0.0, 1.0, 0.5]), _unit)
_facedist = st.one_of(st.just(0.0), nice(0.0, 0.02, 5), nice(0.0, 1.0, 4))     # in units of the cutoff
_size = st.one_of(st.none(), st.integers(1, 25), st.integers(1, 4))
_bool = st.booleans()
_seed = st.integers(0, 2 ** 32 - 1)
_edgeoff = st.sampled_from([0.0, 1e-12, -1e-12, 1e-9, -1e-9, 1e-6, -1e-6])
_jit = st.sampled_from([0.0, 1e-6, 0.02, 0.1, 0.3])
_i02 = st.integers(0, 2)
_i14 = st.integers(1, 4)
_i12 = st.integers(1, 2)
FRAC = {'sparse': nice(0.05, 0.45, 4), 'targeted': nice(0.15, 0.45, 4), 'faces': nice(0.05, 1.6, 4),
        'binedge': nice(0.1, 0.8, 4), 'dense': nice(0.2, 1.6, 4), 'cluster': nice(0.1, 0.6, 4), 'near': nice(0.15, 0.8, 4)}
QUADS = [((1, 0, 0), 1), ((3, 4, 0), 5), ((1, 2, 2), 3), ((2, 3, 6), 7), ((4, 4, 7), 9), ((1, 4, 8), 9), ((2, 6, 9), 11),
         ((6, 6, 7), 11)]
_quad = st.sampled_from(QUADS)
_perm = st.permutations([0, 1, 2])
_signs = st.lists(st.sampled_from([1, -1]), min_size=3, max_size=3)
_len4 = st.integers(4, 48).map(lambda k: k / 4.0)
_org4 = st.one_of(st.just(0.0), st.integers(-64, 64).map(lambda k: k / 4.0))
_above = st.sampled_from([0.0, 0.0, 2.0 ** -20, -2.0 ** -20])
POSFORMS = st.sampled_from(['array'] * 7 + ['readonly'] * 3 + ['frombuffer', 'memmap', 'fortran', 'strided', 'strided', 'list', 'tuple', 'narrow', 'narrow'])
DYADIC_POSFORMS = st.sampled_from(['array'] * 3 + ['float32'] + ['readonly', 'frombuffer', 'list', 'strided'] + ['narrow'] * 5)
WHOLE_POSFORMS = st.sampled_from(['intarray'] * 3 + ['intlist'] * 2 + ['inttuple', 'float32', 'readonly', 'list', 'strided'] + ['array'] * 2
                                 + ['narrow'] * 12)
CUTFORMS = st.sampled_from(['float'] * 3 + ['npfloat'])
DYADIC_CUTFORMS = st.sampled_from(['float'] * 3 + ['npfloat'] + ['narrow'] * 2)
WHOLE_CUTFORMS = st.sampled_from(['float', 'npfloat', 'int', 'int', 'npint'] + ['narrow'] * 5)
SIZEFORMS = st.sampled_from(['int'] * 6 + ['npint64', 'npint32'] * 2 + ['npint8', 'npuint8', 'npint16', 'npuint16', 'npuint32', 'npuint64'])
GENERIC_CUTFORMS = st.sampled_from(['float'] * 6 + ['npfloat'] * 2 + ['narrow'])
_narrow = st.integers(0, 59)
_TINYVALS = [m * 10.0 ** -k for k in range(3, 13) for m in (1.0, 2.0, 5.0)]          # 1e-12 .. 5e-3
_tiny = st.sampled_from(_TINYVALS)
_tinysigned = st.sampled_from([0.0] * 6 + _TINYVALS + [-x for x in _TINYVALS])
_nearmode = st.sampled_from(['cut', 'cut', 'cut', 'coin', 'coin', 'face', 'facepair', 'facepair'])
_i13 = st.integers(1, 3)
PBCFORMS = st.sampled_from(['list'] * 2 + ['tuple', 'nparray'])
# overall length scale: decimal exponents for the generic kinds, binary exponents for the dyadic kind
_SCALE10 = st.sampled_from([0] * 10 + [-10] * 4 + [-12, -11, -9, -8, -6, -3, -1, 1, 3, 6])
_SCALE2 = st.sampled_from([0] * 9 + [-33] * 4 + [-40, -36, -30, -27, -20, -10, -3, 3, 20])
_SCALE2_WHOLE = st.sampled_from([0] * 5 + [3, 10, 20, 20, 30])
NATOMS = {'sparse': st.sampled_from([1, 2, 2, 3, 3, 4, 4, 5, 6]), 'dyadic': st.integers(2, 6), 'targeted': st.integers(2, 4), 'faces': st.integers(1, 8),
          'binedge': st.integers(2, 8), 'cluster': st.integers(40, 70)}

# ----------------------------------------------------------------------------- narrow / unsigned / big-endian storage dtypes
NARROW_POS = ['>f8', 'float16', '>f2', '>f4', 'int8', 'uint8', 'int16', '>i2', 'uint16', '>u2', 'int32', '>i4', 'uint32', '>u4',
              'uint64', '>i8', '>u8', 'bool']
NARROW_CUT = ['longdouble', 'float32', 'float16', 'int8', 'uint8', 'int16', 'uint16', 'int32', 'uint32', 'uint64']


def _holds_exactly(values, dt):
    """does the dtype hold every number of the float64 array exactly?"""
    dt = np.dtype(dt)
    if not np.all(np.isfinite(values)):
        return False
    if dt.kind == 'b':
        return bool(np.all((values == 0.0) | (values == 1.0)))
    if dt.kind in 'iu':
        info = np.iinfo(dt)
        return bool(np.all(values == np.rint(values)) and values.min() >= info.min and values.max() <= info.max
                    and np.abs(values).max() < 2.0 ** 53)
    with np.errstate(over='ignore', under='ignore', invalid='ignore'):
        a = values.astype(dt)
        return bool(np.all(np.isfinite(a)) and np.array_equal(a.astype(np.float64), values))


def narrow_pos_dtypes(pos0):
    """the dtypes of NARROW_POS that hold the positions exactly ('>f8' always does); narrow integers first where
    there are any"""
    pos0 = np.asarray(pos0, dtype=np.float64)
    return [dt for dt in NARROW_POS if _holds_exactly(pos0, dt)]


def narrow_pos_dtype(pos0, k):
    cand = narrow_pos_dtypes(pos0)
    k = int(k)
    ints = [dt for dt in cand if np.dtype(dt).kind in 'iub']
    if ints and k % 6 in (1, 2, 3, 4):
        cand = ints                       # whole numbers: an integer dtype 4 times of 6 ...
    elif len(cand) > 1 and k % 6:
        cand = [dt for dt in cand[1:] if dt not in ints] or cand[1:]    # ... a narrower float where one holds the numbers, big-endian float64 once
    return cand[(k // 6) % len(cand)]


def narrow_cut_types(cutoff):
    v = np.array([float(cutoff)])
    return ['longdouble'] + [t for t in NARROW_CUT[1:] if _holds_exactly(v, t)]


def narrow_cut_type(cutoff, k):
    cand = narrow_cut_types(cutoff)
    k = int(k)
    ints = [t for t in cand if np.dtype(t).kind in 'iu']
    if ints and k % 6 in (1, 2, 3, 4):
        cand = ints
    elif len(cand) > 1 and k % 6:
        cand = [t for t in cand[1:] if t not in ints] or cand[1:]
    return cand[(k // 6) % len(cand)]


# ----------------------------------------------------------------------------- exact symmetry images of a cell
SIGNS8 = [(a, b, c) for a in (1.0, -1.0) for b in (1.0, -1.0) for c in (1.0, -1.0)]
PERMS6 = [(0, 1, 2), (1, 0, 2), (0, 2, 1), (2, 1, 0), (1, 2, 0), (2, 0, 1)]


def sym_parts(c):
    """(q, t, perm, signs) of c['sym'] or None: Cartesian axis j of the image is axis q[j] of the original times t[j];
    cell vector k of the image is vector perm[k] of the original times signs[k]"""
    sym = c.get('sym')
    if not sym:
        return None
    m, p, k = int(sym['m']) % 48, int(sym['p']) % 6, int(sym['s']) % 8
    if not (m or p or k):
        return None
    return PERMS6[m // 8], np.array(SIGNS8[m % 8]), PERMS6[p], np.array(SIGNS8[k])


def sym_cartesian(c, x):
    """the Cartesian part of the image (axes permuted and reversed) of points / vectors x (..., 3): exact"""
    parts = sym_parts(c)
    x = np.asarray(x, dtype=float)
    if parts is None:
        return x
    q, t = parts[0], parts[1]
    return x[..., list(q)] * t + 0.0


def cell_vects3(c):
    """gens.cell_vects followed by the exact symmetry image c['sym']"""
    V = gens.cell_vects(c)
    parts = sym_parts(c)
    if parts is None:
        return V
    V = sym_cartesian(c, V)[list(parts[2])]
    return V * parts[3][:, None] + 0.0


def cell_origin3(c):
    """gens.cell_origin under c['sym']: a reversed cell vector moves the origin to its tip"""
    o = gens.cell_origin(c)
    parts = sym_parts(c)
    if parts is None:
        return o
    o = sym_cartesian(c, o)
    V = sym_cartesian(c, gens.cell_vects(c))[list(parts[2])]
    for k in range(3):
        if parts[3][k] < 0:
            o = o + V[k]
    return o + 0.0


def sym_labels(c, V):
    labs = set()
    if sym_parts(c) is not None:
        labs.add('sym')
        low = V[1, 0] != 0.0 or V[2, 0] != 0.0 or V[2, 1] != 0.0
        up = V[0, 1] != 0.0 or V[0, 2] != 0.0 or V[1, 2] != 0.0
        if not up:
            labs.add('sym_negdiag' if (V[0, 0] < 0 or V[1, 1] < 0 or V[2, 2] < 0) else 'sym_lowertri')
        elif not low:
            labs.add('sym_upper')
        else:
            labs.add('sym_mixed')
        if c.get('rot'):
            labs.add('sym_rot')
    if np.linalg.det(V / np.abs(V).max()) < 0:
        labs.add('lefthanded')
    return labs


_int12 = st.integers(0, 11)
_int48 = st.integers(0, 47)
_int6 = st.integers(0, 5)
_int8 = st.integers(0, 7)
_int17 = st.integers(1, 7)
_int4 = st.integers(0, 3)


def draw_sym(draw, c):
    """about 1 cell in 3 gets an exact symmetry image: 2 of 12 the LAMMPS form with axes reversed / vectors reversed (lower
    triangular, negative diagonal entries; no generic rotation), 1 of 12 the upper-triangular image (axes and vectors in
    reverse order), 1 of 12 any of the 48 x 6 x 8 images (three quarters of them without a generic rotation)"""
    j = draw(_int12)
    if j < 8:
        return c
    if j < 10:
        m, p, k = draw(_int8), 0, draw(_int8)
        if m == 0 and k == 0:
            m = draw(_int17)
        c['rot'] = None
    elif j == 10:
        m, p, k = 3 * 8, 3, (draw(_int8) if draw(_int4) == 0 else 0)       # axes (z,y,x), vectors (c,b,a)
        c['rot'] = None
    else:
        m, p, k = draw(_int48), draw(_int6), draw(_int8)
        if draw(_int4):
            c['rot'] = None
    c['sym'] = {'m': m, 'p': p, 's': k}
    return c


def finish_forms(case):
    """position forms that need exactly representable numbers are kept only where the (final) numbers are"""
    f = case.get('form')
    if f:
        pos0 = np.asarray(case['pos'], dtype=float)
        pf = f.get('pos')
        if pf == 'float32' and not _holds_exactly(pos0, 'float32'):
            f['pos'] = 'array'
        if pf in ('intarray', 'intlist', 'inttuple') and not _holds_exactly(pos0, 'int64'):
            f['pos'] = 'array'
    return case


def widths(V):
    return 1.0 / np.linalg.norm(np.linalg.inv(V), axis=0)


def superbox(V, o, cutoff, pad=1.01):
    corners = np.array([o + x * V[0] + y * V[1] + z * V[2] for z in (0, 1) for y in (0, 1) for x in (0, 1)])
    return np.minimum(corners.min(axis=0), o) - pad * cutoff, np.maximum(corners.max(axis=0), o) + pad * cutoff


def bin_count(V, cutoff):
    smin, smax = superbox(V, np.zeros(3), cutoff)
    return float(np.prod(np.floor((smax - smin) / cutoff) + 2))


def clamp_cutoff(V, cutoff):
    """raise the cutoff (deterministically) until the padded superbox has at most MAXBINS bins"""
    while bin_count(V, cutoff) > MAXBINS:
        cutoff *= 1.1
    return float(cutoff)


@st.composite
def dyadic_systems(draw):
    L = [draw(_len4) for _ in range(3)]
    org = [draw(_org4) for _ in range(3)]
    c = {'lx': L[0], 'ly': L[1], 'lz': L[2], 'xy': 0.0, 'xz': 0.0, 'yz': 0.0, 'origin': org, 'rot': None, 'lefthanded': False}
    pbc = list(draw(gens.pbcs))
    N = draw(NATOMS['dyadic'])
    k = [[draw(st.integers(0, int(8 * L[a]))) for a in range(3)] for _ in range(N)]      # positions in eighths
    (abc, r) = draw(_quad)
    perm = draw(_perm)
    sg = draw(_signs)
    m = max(draw(_i14), int(np.ceil(max(L) * 8.0 / (14.0 * r))))          # cutoff >= max(L)/14: at most ~18^3 bins
    sep = [sg[a] * m * abc[perm[a]] for a in range(3)]                      # in eighths
    for a in range(3):
        t = k[0][a] + sep[a]
        n8 = int(8 * L[a])
        if pbc[a]:
            t = t % n8
        elif not 0 <= t <= n8:
            t = k[0][a] - sep[a]
            if not 0 <= t <= n8:
                t = k[1][a]
        k[1][a] = t
    pos = [[org[a] + k[i][a] / 8.0 for a in range(3)] for i in range(N)]
    cutoff = m * r / 8.0 + draw(_above)
    case = {'cell': c, 'kind': 'dyadic', 'dyadic': True, 'initialsize': draw(_size), 'deltasize': draw(_size),
            'pbc': [bool(p) for p in pbc], 'cutoff': float(cutoff), 'pos': pos}
    if draw(_bool):
        # the same system in units of 1/8: a power-of-two scaling, so every sum, square and comparison rounds (not at
        # all) exactly as before; all positions, lengths and origins are now whole numbers
        for key in ('lx', 'ly', 'lz'):
            c[key] = c[key] * 8.0
        c['origin'] = [x * 8.0 for x in org]
        case['pos'] = [[x * 8.0 for x in p] for p in pos]
        case['cutoff'] = float(cutoff) * 8.0
        case['scale'] = 8.0
        whole_cut = case['cutoff'] == np.rint(case['cutoff'])
        case['form'] = {'pos': draw(WHOLE_POSFORMS), 'cutoff': draw(WHOLE_CUTFORMS if whole_cut else DYADIC_CUTFORMS),
                        'sizes': draw(SIZEFORMS), 'pbc': draw(PBCFORMS), 'narrow': draw(_narrow)}
        e = draw(_SCALE2_WHOLE)
    else:
        case['form'] = {'pos': draw(DYADIC_POSFORMS), 'cutoff': draw(DYADIC_CUTFORMS), 'sizes': draw(SIZEFORMS), 'pbc': draw(PBCFORMS),
                        'narrow': draw(_narrow)}
        e = draw(_SCALE2)
    if e:
        # overall length scale, a power of two: exact, no rounding decision changes (gens.cell_vects / cell_origin
        # multiply lengths and origin by cell['scale'])
        f = 2.0 ** e
        c['scale'] = f
        case['pos'] = [[x * f for x in p] for p in case['pos']]
        case['cutoff'] = case['cutoff'] * f
    # exact symmetry image: axes permuted / reversed, vectors renamed / reversed (positions follow exactly; a reversed
    # vector moves the origin to its tip, so every atom stays where it is relative to the region of the cell)
    draw_sym(draw, c)
    parts = sym_parts(c)
    if parts is not None:
        case['pos'] = sym_cartesian(c, np.array(case['pos'], dtype=float)).tolist()
        case['pbc'] = [case['pbc'][parts[2][k]] for k in range(3)]
    return finish_forms(case)


@st.composite
def systems(draw, kind=None):
    kind = kind or draw(KINDS)
    if kind == 'dyadic':
        return draw(DYADIC)
    c = draw(CELLS)
    k10 = draw(_SCALE10)
    if k10:
        c['scale'] = float('1e%d' % k10)      # V, o below - and everything derived from them - are in the scaled unit
    if kind == 'near' and draw(_bool):
        # almost orthogonal / almost equal lengths: tilts of +-d * length, a second length (1 + d) times the first
        for key, ref in (('xy', 'lx'), ('xz', 'lx'), ('yz', 'ly')):
            c[key] = draw(_tinysigned) * c[ref]
        if draw(_bool):
            c['ly'] = c['lx'] * (1.0 + draw(_tinysigned))
        c['tiny'] = True
    draw_sym(draw, c)
    pbc = list(draw(gens.pbcs))
    V, o = cell_vects3(c), cell_origin3(c)
    inv = np.linalg.inv(V)
    w = 1.0 / np.linalg.norm(inv, axis=0)
    cutoff = clamp_cutoff(V, draw(FRAC[kind]) * float(w.min()))
    case = {'cell': c, 'kind': kind, 'initialsize': draw(_size), 'deltasize': draw(_size)}

    if kind == 'dense':
        n = [draw(_i14) for _ in range(3)]
        nb = draw(_i12)
        if n[0] * n[1] * n[2] * nb > 60:
            n[2] = 1
        amp = draw(_jit)
        rng = np.random.default_rng(draw(_seed))
        idx = np.array([[i, j, k] for i in range(n[0]) for j in range(n[1]) for k in range(n[2])], dtype=float)
        pts = [idx] + ([idx + 0.5] if nb == 2 else [])
        s = np.vstack(pts)
        s = (s + amp * (rng.random(s.shape) - 0.5)) / np.array(n, dtype=float)
        s = s - np.floor(s)
        pos = s @ V + o
    elif kind == 'cluster':
        N = draw(NATOMS[kind])
        l1 = np.abs(inv).sum(axis=0)                         # |delta . inv[:,k]| <= h * l1[k] for |delta|_inf <= h
        side = min(draw(nice(0.2, 1.0, 3)) * cutoff, 0.98 / float(l1.max()))
        m = 0.5 * side * l1
        u = np.array([draw(_unit) for _ in range(3)])
        centre = (m + u * (1 - 2 * m)) @ V + o
        rng = np.random.default_rng(draw(_seed))
        pos = centre + (rng.random((N, 3)) - 0.5) * side
        s = (pos - o) @ inv
        pos = np.clip(s, 0.0, 1.0) @ V + o
    elif kind == 'near':
        pts = []
        for _ in range(draw(_i13)):
            mode = draw(_nearmode)
            sb = np.array([draw(_unit) for _ in range(3)], dtype=float)
            ax = draw(_i02)
            low = draw(_bool)
            if mode in ('face', 'facepair'):
                sb[ax] = draw(_tiny) if low else 1.0 - draw(_tiny)
            b = sb @ V + o
            pts.append(b)
            if mode == 'face':
                continue
            if mode == 'facepair':
                # across the face the atom is next to (a pair only where that axis is periodic)
                pbc[ax] = pbc[ax] or draw(_bool)
                u = np.cross(V[(ax + 1) % 3], V[(ax + 2) % 3])
                u = u / np.linalg.norm(u) * (1.0 if np.dot(u, V[ax]) > 0 else -1.0) * (-1.0 if low else 1.0)
            else:
                u = np.array([draw(_sym) for _ in range(3)], dtype=float)
                if not u.any():
                    u = np.array([1.0, 0.0, 0.0])
                u = u / np.linalg.norm(u)
            d = draw(_tiny)
            dist = cutoff * d if mode == 'coin' else cutoff * (1.0 + d) if draw(_bool) else cutoff * (1.0 - d)
            q = None
            for sgn in (1.0, -1.0):
                t = b + sgn * dist * u
                st_ = (t - o) @ inv
                if np.all(st_ >= 0.0) and np.all(st_ <= 1.0):
                    q = t                                     # inside as it is: no further rounding
                    break
                wr = np.array([st_[k] - np.floor(st_[k]) if pbc[k] else st_[k] for k in range(3)])
                if np.all(wr >= 0.0) and np.all(wr <= 1.0):
                    q = t - np.rint(st_ - wr) @ V             # moved by whole cell vectors through periodic faces
                    sq = (q - o) @ inv
                    if not (np.all(sq >= 0.0) and np.all(sq <= 1.0)):
                        q = np.clip(sq, 0.0, 1.0) @ V + o
                    break
            if q is None:
                q = np.clip(st_, 0.0, 1.0) @ V + o
            pts.append(q)
        pos = np.array(pts)
    else:
        N = draw(NATOMS[kind])
        coord = _facecoord if kind == 'faces' else _unit
        s = np.array([[draw(coord) for _ in range(3)] for _ in range(N)], dtype=float)
        if kind == 'targeted':
            ax = draw(_i02)
            pbc[ax] = True
            lo, hi = (0, 1) if draw(_bool) else (1, 0)
            s[lo, ax] = min(0.5, draw(_facedist) * cutoff / w[ax])
            s[hi, ax] = 1.0 - min(0.5, draw(_facedist) * cutoff / w[ax])
            for k in range(3):
                if k != ax:
                    s[hi, k] = min(1.0, max(0.0, s[lo, k] + draw(_sym) * cutoff / float(np.linalg.norm(V[k]))))
        pos = s @ V + o
        if kind == 'binedge':
            smin, smax = superbox(V, o, cutoff)
            for i in range(N):
                for k in range(3):
                    if draw(_bool):
                        edges = np.arange(smin[k], smax[k] + cutoff, cutoff)
                        e = edges[int(np.argmin(np.abs(edges - pos[i, k])))]
                        trial = pos[i].copy()
                        trial[k] = e + draw(_edgeoff) * cutoff
                        st_ = (trial - o) @ inv
                        if np.all(st_ >= 0.0) and np.all(st_ <= 1.0):
                            pos[i] = trial
    case['pbc'] = [bool(p) for p in pbc]
    case['cutoff'] = cutoff
    case['pos'] = np.asarray(pos, dtype=float).tolist()
    case['form'] = {'pos': draw(POSFORMS), 'cutoff': draw(GENERIC_CUTFORMS), 'sizes': draw(SIZEFORMS), 'pbc': draw(PBCFORMS),
                    'narrow': draw(_narrow)}
    return case


DYADIC = dyadic_systems()
