"""Strategies for C03 (neighbour list): a cell, a periodicity setting, atoms inside the cell, a cutoff and the two
storage-size parameters.  Everything is JSON-able; positions are stored in Cartesian coordinates (exact floats).

Placement kinds (DESIGN section 4, C03):
  sparse    1-6 atoms, uniformly random, cell many cutoffs wide (bins that hold only periodic images are common)
  targeted  2-4 atoms, one axis made periodic, two atoms close to the two opposite faces along it (distance from the
            face 0, <= 0.02 cutoff, or <= 1 cutoff) with transverse offset of at most one cutoff; cutoff 0.15-0.45 of
            the smallest perpendicular width
  faces     1-8 atoms with relative coordinates from {0, 1, 1/2} mixed with generic values (faces, edges, corners)
  binedge   2-8 atoms, some Cartesian coordinates moved onto an edge of the cutoff-sized bins (offset 0, +-1e-12,
            +-1e-9, +-1e-6 cutoff), kept only if the moved atom is still inside the cell
  dense     a jittered n1 x n2 x n3 lattice with 1-2 basis atoms (<= 60 atoms), cutoff up to 1.6 widths
  cluster   40-70 atoms inside one cube of side <= cutoff (more than 40 entries in one bin, long rows)
  dyadic    orthogonal unrotated cell, lengths/origin multiples of 1/4, positions multiples of 1/8, one pair placed at a
            Pythagorean separation m*(a,b,c)/8 (through the periodic boundary where there is one) and the cutoff set
            exactly to its length m*r/8 or 2^-20 above: all arithmetic is exact, the boundary '<' itself is tested;
            half of them scaled by 8 ('whole': every position, length and origin a whole number, so that the positions
            can be handed over integer-typed and atomman stores them as integers)

Input forms (case['form'], absent = everything plain): how the numbers are handed to atomman.
  pos     array (float64, C-contiguous, writeable) / readonly (setflags(write=False)) / frombuffer (numpy.frombuffer,
          read-only) / memmap (numpy.load(mmap_mode='r'), read-only) / fortran / strided (non-contiguous view into a
          NaN-filled larger array) / list / tuple; dyadic systems also float32 (exact: eighths below 2^9) and, when
          whole, intarray / intlist / inttuple (stored by Atoms as int64)
  cutoff  float / npfloat (numpy.float64); a whole cutoff also int / npint
  sizes   int / npint64 / npint32
  pbc     list / tuple / nparray (of bool)

Length scale (cell['scale'], absent = 1): the whole geometric input of a system - cell vectors, origin, positions and
cutoff - is expressed in a length unit 10^k times the angstrom-like one, k in -12..+6 (1e-10, i.e. SI metres,
favoured; exactly 1 in about half of the systems).  The generic kinds are CONSTRUCTED in the scaled unit (cell vectors
first, then widths, cutoff, positions from them), so nothing is rescaled afterwards.  Dyadic systems use a power of two
(2^-33 ~ 1.2e-10 favoured, 2^-40 .. 2^30; whole-number systems 2^0 .. 2^30 only) so that every sum, square and
comparison still rounds - not at all - exactly as at scale 1 and the boundary '<' stays decidable exactly.  The cap on
the number of bins (MAXBINS) is a count, the ratio of superbox extent to cutoff: scale free.
"""
import numpy as np
from hypothesis import strategies as st

from . import gens
from .gens import nice

MAXBINS = 30000          # cap on the number of cutoff-sized bins of the padded superbox (memory/time of nlist)

CELLS = gens.cells(rotated=True, lefthanded=False, origin=True, lmin=1.0, lmax=12.0, maxtilt=1.5, families=True)
KINDS = st.sampled_from(['sparse'] * 3 + ['targeted'] * 5 + ['faces'] * 2 + ['binedge'] * 3 + ['dense'] * 4 + ['cluster'] * 2
                        + ['dyadic'] * 3)
_unit = st.integers(0, 10000).map(lambda k: k / 10000.0)      # not st.floats: those return exactly 0.0/1.0 very often
_sym = nice(-1.0, 1.0, 4)
_facecoord = st.one_of(st.sampled_from([0.0, 1.0, 0.0, 1.0, 0.5]), _unit)
_facedist = st.one_of(st.just(0.0), nice(0.0, 0.02, 5), nice(0.0, 1.0, 4))     # in units of the cutoff
_size = st.one_of(st.none(), st.integers(1, 25), st.integers(1, 4))
_bool = st.booleans()
_seed = st.integers(0, 2 ** 32 - 1)
_edgeoff = st.sampled_from([0.0, 1e-12, -1e-12, 1e-9, -1e-9, 1e-6, -1e-6])
_jit = st.sampled_from([0.0, 1e-6, 0.02, 0.1, 0.3])
_i02 = st.integers(0, 2)
_i14 = st.integers(1, 4)
_i12 = st.integers(1, 2)
FRAC = {'sparse': nice(0.05, 0.45, 4), 'targeted': nice(0.15, 0.45, 4), 'faces': nice(0.05, 1.6, 4),
        'binedge': nice(0.1, 0.8, 4), 'dense': nice(0.2, 1.6, 4), 'cluster': nice(0.1, 0.6, 4)}
QUADS = [((1, 0, 0), 1), ((3, 4, 0), 5), ((1, 2, 2), 3), ((2, 3, 6), 7), ((4, 4, 7), 9), ((1, 4, 8), 9), ((2, 6, 9), 11),
         ((6, 6, 7), 11)]
_quad = st.sampled_from(QUADS)
_perm = st.permutations([0, 1, 2])
_signs = st.lists(st.sampled_from([1, -1]), min_size=3, max_size=3)
_len4 = st.integers(4, 48).map(lambda k: k / 4.0)
_org4 = st.one_of(st.just(0.0), st.integers(-64, 64).map(lambda k: k / 4.0))
_above = st.sampled_from([0.0, 0.0, 2.0 ** -20, -2.0 ** -20])
POSFORMS = st.sampled_from(['array'] * 7 + ['readonly'] * 2 + ['frombuffer', 'memmap', 'fortran', 'strided', 'list', 'tuple'])
DYADIC_POSFORMS = st.sampled_from(['array'] * 3 + ['float32'] + ['readonly', 'frombuffer', 'list', 'strided'])
WHOLE_POSFORMS = st.sampled_from(['intarray'] * 3 + ['intlist'] * 2 + ['inttuple', 'float32', 'readonly', 'list', 'strided'] + ['array'] * 2)
CUTFORMS = st.sampled_from(['float'] * 3 + ['npfloat'])
WHOLE_CUTFORMS = st.sampled_from(['float', 'npfloat', 'int', 'int', 'npint'])
SIZEFORMS = st.sampled_from(['int'] * 3 + ['npint64', 'npint32'])
PBCFORMS = st.sampled_from(['list'] * 2 + ['tuple', 'nparray'])
# overall length scale: decimal exponents for the generic kinds, binary exponents for the dyadic kind
_SCALE10 = st.sampled_from([0] * 10 + [-10] * 4 + [-12, -11, -9, -8, -6, -3, -1, 1, 3, 6])
_SCALE2 = st.sampled_from([0] * 9 + [-33] * 4 + [-40, -36, -30, -27, -20, -10, -3, 3, 20])
_SCALE2_WHOLE = st.sampled_from([0] * 5 + [3, 10, 20, 20, 30])
NATOMS = {'sparse': st.sampled_from([1, 2, 2, 3, 3, 4, 4, 5, 6]), 'dyadic': st.integers(2, 6), 'targeted': st.integers(2, 4), 'faces': st.integers(1, 8),
          'binedge': st.integers(2, 8), 'cluster': st.integers(40, 70)}


def widths(V):
    return 1.0 / np.linalg.norm(np.linalg.inv(V), axis=0)


def superbox(V, o, cutoff, pad=1.01):
    corners = np.array([o + x * V[0] + y * V[1] + z * V[2] for z in (0, 1) for y in (0, 1) for x in (0, 1)])
    return np.minimum(corners.min(axis=0), o) - pad * cutoff, np.maximum(corners.max(axis=0), o) + pad * cutoff


def bin_count(V, cutoff):
    smin, smax = superbox(V, np.zeros(3), cutoff)
    return float(np.prod(np.floor((smax - smin) / cutoff) + 2))


def clamp_cutoff(V, cutoff):
    """raise the cutoff (deterministically) until the padded superbox has at most MAXBINS bins"""
    while bin_count(V, cutoff) > MAXBINS:
        cutoff *= 1.1
    return float(cutoff)


@st.composite
def dyadic_systems(draw):
    L = [draw(_len4) for _ in range(3)]
    org = [draw(_org4) for _ in range(3)]
    c = {'lx': L[0], 'ly': L[1], 'lz': L[2], 'xy': 0.0, 'xz': 0.0, 'yz': 0.0, 'origin': org, 'rot': None, 'lefthanded': False}
    pbc = list(draw(gens.pbcs))
    N = draw(NATOMS['dyadic'])
    k = [[draw(st.integers(0, int(8 * L[a]))) for a in range(3)] for _ in range(N)]      # positions in eighths
    (abc, r) = draw(_quad)
    perm = draw(_perm)
    sg = draw(_signs)
    m = max(draw(_i14), int(np.ceil(max(L) * 8.0 / (14.0 * r))))          # cutoff >= max(L)/14: at most ~18^3 bins
    sep = [sg[a] * m * abc[perm[a]] for a in range(3)]                      # in eighths
    for a in range(3):
        t = k[0][a] + sep[a]
        n8 = int(8 * L[a])
        if pbc[a]:
            t = t % n8
        elif not 0 <= t <= n8:
            t = k[0][a] - sep[a]
            if not 0 <= t <= n8:
                t = k[1][a]
        k[1][a] = t
    pos = [[org[a] + k[i][a] / 8.0 for a in range(3)] for i in range(N)]
    cutoff = m * r / 8.0 + draw(_above)
    case = {'cell': c, 'kind': 'dyadic', 'dyadic': True, 'initialsize': draw(_size), 'deltasize': draw(_size),
            'pbc': [bool(p) for p in pbc], 'cutoff': float(cutoff), 'pos': pos}
    if draw(_bool):
        # the same system in units of 1/8: a power-of-two scaling, so every sum, square and comparison rounds (not at
        # all) exactly as before; all positions, lengths and origins are now whole numbers
        for key in ('lx', 'ly', 'lz'):
            c[key] = c[key] * 8.0
        c['origin'] = [x * 8.0 for x in org]
        case['pos'] = [[x * 8.0 for x in p] for p in pos]
        case['cutoff'] = float(cutoff) * 8.0
        case['scale'] = 8.0
        whole_cut = case['cutoff'] == np.rint(case['cutoff'])
        case['form'] = {'pos': draw(WHOLE_POSFORMS), 'cutoff': draw(WHOLE_CUTFORMS if whole_cut else CUTFORMS),
                        'sizes': draw(SIZEFORMS), 'pbc': draw(PBCFORMS)}
        e = draw(_SCALE2_WHOLE)
    else:
        case['form'] = {'pos': draw(DYADIC_POSFORMS), 'cutoff': draw(CUTFORMS), 'sizes': draw(SIZEFORMS), 'pbc': draw(PBCFORMS)}
        e = draw(_SCALE2)
    if e:
        # overall length scale, a power of two: exact, no rounding decision changes (gens.cell_vects / cell_origin
        # multiply lengths and origin by cell['scale'])
        f = 2.0 ** e
        c['scale'] = f
        case['pos'] = [[x * f for x in p] for p in case['pos']]
        case['cutoff'] = case['cutoff'] * f
    return case


@st.composite
def systems(draw, kind=None):
    kind = kind or draw(KINDS)
    if kind == 'dyadic':
        return draw(DYADIC)
    c = draw(CELLS)
    k10 = draw(_SCALE10)
    if k10:
        c['scale'] = float('1e%d' % k10)      # V, o below - and everything derived from them - are in the scaled unit
    pbc = list(draw(gens.pbcs))
    V, o = gens.cell_vects(c), gens.cell_origin(c)
    inv = np.linalg.inv(V)
    w = 1.0 / np.linalg.norm(inv, axis=0)
    cutoff = clamp_cutoff(V, draw(FRAC[kind]) * float(w.min()))
    case = {'cell': c, 'kind': kind, 'initialsize': draw(_size), 'deltasize': draw(_size)}

    if kind == 'dense':
        n = [draw(_i14) for _ in range(3)]
        nb = draw(_i12)
        if n[0] * n[1] * n[2] * nb > 60:
            n[2] = 1
        amp = draw(_jit)
        rng = np.random.default_rng(draw(_seed))
        idx = np.array([[i, j, k] for i in range(n[0]) for j in range(n[1]) for k in range(n[2])], dtype=float)
        pts = [idx] + ([idx + 0.5] if nb == 2 else [])
        s = np.vstack(pts)
        s = (s + amp * (rng.random(s.shape) - 0.5)) / np.array(n, dtype=float)
        s = s - np.floor(s)
        pos = s @ V + o
    elif kind == 'cluster':
        N = draw(NATOMS[kind])
        l1 = np.abs(inv).sum(axis=0)                         # |delta . inv[:,k]| <= h * l1[k] for |delta|_inf <= h
        side = min(draw(nice(0.2, 1.0, 3)) * cutoff, 0.98 / float(l1.max()))
        m = 0.5 * side * l1
        u = np.array([draw(_unit) for _ in range(3)])
        centre = (m + u * (1 - 2 * m)) @ V + o
        rng = np.random.default_rng(draw(_seed))
        pos = centre + (rng.random((N, 3)) - 0.5) * side
        s = (pos - o) @ inv
        pos = np.clip(s, 0.0, 1.0) @ V + o
    else:
        N = draw(NATOMS[kind])
        coord = _facecoord if kind == 'faces' else _unit
        s = np.array([[draw(coord) for _ in range(3)] for _ in range(N)], dtype=float)
        if kind == 'targeted':
            ax = draw(_i02)
            pbc[ax] = True
            lo, hi = (0, 1) if draw(_bool) else (1, 0)
            s[lo, ax] = min(0.5, draw(_facedist) * cutoff / w[ax])
            s[hi, ax] = 1.0 - min(0.5, draw(_facedist) * cutoff / w[ax])
            for k in range(3):
                if k != ax:
                    s[hi, k] = min(1.0, max(0.0, s[lo, k] + draw(_sym) * cutoff / float(np.linalg.norm(V[k]))))
        pos = s @ V + o
        if kind == 'binedge':
            smin, smax = superbox(V, o, cutoff)
            for i in range(N):
                for k in range(3):
                    if draw(_bool):
                        edges = np.arange(smin[k], smax[k] + cutoff, cutoff)
                        e = edges[int(np.argmin(np.abs(edges - pos[i, k])))]
                        trial = pos[i].copy()
                        trial[k] = e + draw(_edgeoff) * cutoff
                        st_ = (trial - o) @ inv
                        if np.all(st_ >= 0.0) and np.all(st_ <= 1.0):
                            pos[i] = trial
    case['pbc'] = [bool(p) for p in pbc]
    case['cutoff'] = cutoff
    case['pos'] = np.asarray(pos, dtype=float).tolist()
    case['form'] = {'pos': draw(POSFORMS), 'cutoff': draw(CUTFORMS), 'sizes': draw(SIZEFORMS), 'pbc': draw(PBCFORMS)}
    return case


DYADIC = dyadic_systems()
