"""Independent reference code for Miller / Miller-Bravais index conventions (numpy + stdlib only, never
imports atomman).

Conventions
-----------
``V``  3x3 matrix whose *rows* are the lattice vectors a, b, c (right-handed: det V > 0).
``R``  reciprocal basis, rows a*, b*, c* with a_i . a*_j = delta_ij:
            a* = (b x c)/det, b* = (c x a)/det, c* = (a x b)/det.
Plane (hkl): the family of lattice planes with intercepts a/h, b/k, c/l; its normal is along
            g = h a* + k b* + l c*   (g . (u a + v b + w c) = hu + kv + lw, the zone law).
Hexagonal four-index forms use the basal vectors a1 = a, a2 = b, a3 = -(a+b) and c:
   direction [UVTW] = U a1 + V a2 + T a3 + W c with the gauge U+V+T = 0
        => three-index [uvw] with u = U-T = 2U+V, v = V-T = 2V+U, w = W
        <= U = (2u-v)/3, V = (2v-u)/3, T = -(u+v)/3, W = w
   plane (hkil): intercept 1/i on a3, i.e. g . a3 = i = -(h+k);  (hkl) <-> (h k -(h+k) l).
Centring: a conventional cell with centring translations T_s; the lattice is  Z^3 + T_s.
"""
import math
import re
from fractions import Fraction

import numpy as np

EPS = 2.220446049250313e-16


# --------------------------------------------------------------------------- cells

def _rotation(axis, angle_deg):
    a = np.asarray(axis, dtype=float)
    a = a / np.linalg.norm(a)
    t = math.radians(angle_deg)
    K = np.array([[0, -a[2], a[1]], [a[2], 0, -a[0]], [-a[1], a[0], 0]])
    return np.eye(3) + math.sin(t) * K + (1 - math.cos(t)) * (K @ K)


def cell_matrix(cell):
    """rows a,b,c from {'abc': [a,b,c,alpha,beta,gamma(deg)], 'rot': None | [axis, angle_deg]}:
    a along x, b in the xy plane, c completing a right-handed set, then an optional proper rotation."""
    a, b, c, al, be, ga = (float(x) for x in cell['abc'])
    ca, cb, cg = (0.0 if x == 90.0 else math.cos(math.radians(x)) for x in (al, be, ga))
    sg = 1.0 if ga == 90.0 else math.sin(math.radians(ga))
    cx = c * cb
    cy = c * (ca - cb * cg) / sg
    cz2 = c * c - cx * cx - cy * cy
    if not cz2 > 0:
        raise ValueError('lattice parameters not realisable: %r' % (cell['abc'],))
    V = np.array([[a, 0.0, 0.0], [b * cg, b * sg, 0.0], [cx, cy, math.sqrt(cz2)]])
    if cell.get('rot'):
        V = V @ _rotation(*cell['rot']).T
    return V


def reciprocal(V):
    d = float(np.linalg.det(V))
    return np.array([np.cross(V[1], V[2]), np.cross(V[2], V[0]), np.cross(V[0], V[1])]) / d


def is_orthogonal_family(cell):
    return all(float(x) == 90.0 for x in cell['abc'][3:])


def is_hexagonal_cell(cell):
    a, b, c, al, be, ga = cell['abc']
    return a == b and al == 90.0 and be == 90.0 and ga == 120.0


# --------------------------------------------------------------------------- 3 <-> 4 index (exact, Fractions)

def v3to4(u, v, w):
    U = Fraction(2 * u - v, 3)
    Vv = Fraction(2 * v - u, 3)
    return (U, Vv, -(U + Vv), Fraction(w))


def v4to3(U, Vv, T, W):
    return (U - T, Vv - T, W)


def p3to4(h, k, l):
    return (h, k, -(h + k), l)


def hex_cart_vector(quad, V):
    """U a1 + V a2 + T a3 + W c with a3 = -(a1+a2)"""
    a1, a2, c = V[0], V[1], V[2]
    a3 = -(a1 + a2)
    q = np.asarray(quad, dtype=float)
    return q[..., 0:1] * a1 + q[..., 1:2] * a2 + q[..., 2:3] * a3 + q[..., 3:4] * c


# --------------------------------------------------------------------------- centring

H, T3, TT3 = Fraction(1, 2), Fraction(1, 3), Fraction(2, 3)
CENTRING = {
    'p': [(0, 0, 0)],
    'a': [(0, 0, 0), (0, H, H)],
    'b': [(0, 0, 0), (H, 0, H)],
    'c': [(0, 0, 0), (H, H, 0)],
    'i': [(0, 0, 0), (H, H, H)],
    'f': [(0, 0, 0), (0, H, H), (H, 0, H), (H, H, 0)],
    'r_obverse': [(0, 0, 0), (TT3, T3, T3), (T3, TT3, TT3)],
    'r_reverse': [(0, 0, 0), (T3, TT3, T3), (TT3, T3, TT3)],
}
NPOINTS = {'p': 1, 'a': 2, 'b': 2, 'c': 2, 'i': 2, 'f': 4, 't1': 3, 't2': 3}
SETTINGS = ('p', 'a', 'b', 'c', 'i', 'f', 't1', 't2')


def frac_part_class(x, den):
    """x (float array (...,3)) -> integer array of round(den * (x mod 1)) mod den and the rounding residue"""
    y = np.asarray(x, dtype=float) * den
    r = np.rint(y)
    return (r.astype(np.int64) % den), float(np.abs(y - r).max()) if y.size else 0.0


def centring_members(name, den):
    """set of tuples den*(translation) mod den"""
    return {tuple(int(t * den) % den for t in tr) for tr in CENTRING[name]}


# --------------------------------------------------------------------------- reduce

def gcd_reduce(vec):
    g = 0
    for x in vec:
        g = math.gcd(g, abs(int(x)))
    return g


def reduced(vec):
    g = gcd_reduce(vec)
    return [int(x) // g if x >= 0 else -((-int(x)) // g) for x in vec]


# --------------------------------------------------------------------------- index strings

_INT = r'-?[0-9]+'
_STRICT_BR = re.compile(r'^(?:(?P<num>%s)/(?P<den>%s) *)?(?P<open>[\[({<])(?P<body>%s(?: +%s){2,3})(?P<close>[\])}>])$'
                        % (_INT, _INT, _INT, _INT))
_STRICT_BARE = re.compile(r'^(?P<body>%s(?: +%s){2,3})$' % (_INT, _INT))
_NUM = r'[+-]?[0-9]+(?:\.[0-9]*)?(?:[eE][+-]?[0-9]+)?'
_WIDE_BR = re.compile(r'^(?:(?P<num>%s)[ \t]*/[ \t]*(?P<den>%s)[ \t]*)?(?P<open>[\[({<])[ \t]*(?P<body>%s(?:[ \t]+%s){2,3})[ \t]*(?P<close>[\])}>])[ \t\n]*$'
                      % (_NUM, _NUM, _NUM, _NUM))
_WIDE_BARE = re.compile(r'^[ \t]*(?P<body>%s(?:[ \t]+%s){2,3})[ \t\n]*$' % (_NUM, _NUM))
PAIRS = {'[': ']', '(': ')', '<': '>', '{': '}'}
# fromstring looks for the bracket kinds in this fixed order; a string holding two different kinds is not in
# either grammar below (exactly one bracket pair, matching kinds)
_BRACKET_CHARS = set('[](){}<>')


def parse_strict(text):
    """DESIGN grammar  [frac ]? open int( int){2,3} close | int( int){2,3}   (ASCII digits, single spaces or
    runs of spaces between integers, fraction = int/int with non-zero denominator, followed by zero or more spaces).
    Returns (Fraction factor, [ints]) or None."""
    m = _STRICT_BR.match(text)
    if m:
        if PAIRS[m.group('open')] != m.group('close'):
            return None
        fac = Fraction(1)
        if m.group('num') is not None:
            if int(m.group('den')) == 0:
                return None
            fac = Fraction(int(m.group('num')), int(m.group('den')))
        return fac, [int(t) for t in m.group('body').split()]
    m = _STRICT_BARE.match(text)
    if m:
        return Fraction(1), [int(t) for t in m.group('body').split()]
    return None


def parse_wide(text):
    """A wider reading of 'what the string shows' (decimal numbers, tabs, padding inside the brackets, spaces around
    the slash).  Returns (factor float | None if denominator is zero, [floats]) or None."""
    m = _WIDE_BR.match(text)
    if m:
        if PAIRS[m.group('open')] != m.group('close'):
            return None
        if sum(ch in _BRACKET_CHARS for ch in text) != 2:
            return None
        fac = 1.0
        if m.group('num') is not None:
            den = float(m.group('den'))
            fac = None if den == 0 else float(m.group('num')) / den
        return fac, [float(t) for t in m.group('body').split()]
    m = _WIDE_BARE.match(text)
    if m:
        return 1.0, [float(t) for t in m.group('body').split()]
    return None
