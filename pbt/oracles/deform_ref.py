"""Independent reference code for C17 (numpy only, never imports atomman).

Conventions: ``V`` is the 3x3 matrix whose *rows* are the cell vectors, ``o`` the cell origin, ``pbc`` three
bools, positions are (N,3) Cartesian arrays.

unit_cell(kind, a, ca)        conventional cells of fcc / bcc / hcp / B2 / L1_2 written out by hand
shell_radii(V, rel, rmax)     sorted distinct interatomic distances of the infinite crystal (all sites)
lattice_vectors(V, rmax)      non-zero lattice vectors shorter than rmax (neighbour vectors of a Bravais lattice)
perp_widths(V)                perpendicular widths of the cell
pairs_within(pos, V, pbc, rc) all ordered neighbour pairs (i, j, d_ij) with |d_ij| < rc, d_ij = p_j - p_i + n.V.
                              Uses the rounded minimum image, which is *exact* for rc < w_min/2 over the
                              periodic axes:  |d| < w_min/2  implies  |d . recip_k| <= |d| / w_k < 1/2  for every
                              periodic k, so the image with all periodic relative components in (-1/2, 1/2) is the
                              only one that short (the caller guarantees rc < w_min/2; asserted here).
wrap(pos, V, o, pbc)          positions moved by whole cell vectors into [0,1) relative coordinates along
                              periodic axes
curl_minus(G, i, nbr_idx, nbr_vec)   -curl of a per-atom tensor field at atom i from a least-squares gradient
                              over its neighbours:  alpha_jk = -eps_jim d_i G_mk  (Hartley & Mishin 2005, the
                              definition of the Nye tensor cited by atomman.defect.nye_tensor / Strain)
splitmix / permutation / uniform      deterministic expansion of an integer in the case (no RNG state)
"""
import itertools
import math

import numpy as np

EPS = 2.220446049250313e-16


# ----------------------------------------------------------------------------- crystals

def unit_cell(kind, a, ca=1.633):
    """(V rows = cell vectors, rel (n,3) relative coordinates, atype (n,) ints >= 1)"""
    if kind == 'fcc':
        V = a * np.eye(3)
        rel = [[0, 0, 0], [.5, .5, 0], [.5, 0, .5], [0, .5, .5]]
        t = [1, 1, 1, 1]
    elif kind == 'bcc':
        V = a * np.eye(3)
        rel = [[0, 0, 0], [.5, .5, .5]]
        t = [1, 1]
    elif kind == 'b2':
        V = a * np.eye(3)
        rel = [[0, 0, 0], [.5, .5, .5]]
        t = [1, 2]
    elif kind == 'l12':
        V = a * np.eye(3)
        rel = [[0, 0, 0], [.5, .5, 0], [.5, 0, .5], [0, .5, .5]]
        t = [1, 2, 2, 2]
    elif kind == 'hcp':
        c = a * ca
        V = np.array([[a, 0.0, 0.0], [-0.5 * a, a * math.sqrt(3.0) / 2.0, 0.0], [0.0, 0.0, c]])
        rel = [[0, 0, 0], [1.0 / 3.0, 2.0 / 3.0, 0.5]]
        t = [1, 1]
    else:
        raise ValueError(kind)
    return np.array(V, dtype=float), np.array(rel, dtype=float), np.array(t, dtype=int)


def perp_widths(V):
    V = np.asarray(V, dtype=float)
    inv = np.linalg.inv(V)
    return 1.0 / np.linalg.norm(inv, axis=0)


def _ranges(V, rmax):
    w = perp_widths(V)
    return [range(-int(math.ceil(rmax / wi)) - 1, int(math.ceil(rmax / wi)) + 2) for wi in w]


def lattice_vectors(V, rmax):
    """all non-zero n.V with |n.V| < rmax, sorted by (length, x, y, z)"""
    V = np.asarray(V, dtype=float)
    n = np.array(list(itertools.product(*_ranges(V, rmax))), dtype=float)
    v = n @ V
    L = np.sqrt((v * v).sum(axis=1))
    keep = (L < rmax) & (L > 1e-9 * rmax)
    v, L = v[keep], L[keep]
    order = np.lexsort((v[:, 2], v[:, 1], v[:, 0], np.round(L, 9)))
    return v[order]


def site_vectors(V, rel, rmax):
    """for every site of the cell: (M_s,3) vectors to all other atoms of the infinite crystal closer than rmax"""
    V = np.asarray(V, dtype=float)
    cart = np.asarray(rel, dtype=float) @ V
    n = np.array(list(itertools.product(*_ranges(V, rmax + np.abs(cart).max()))), dtype=float)
    T = n @ V
    out = []
    for s in range(len(cart)):
        d = (cart[None, :, :] + T[:, None, :] - cart[s]).reshape(-1, 3)
        L = np.sqrt((d * d).sum(axis=1))
        keep = (L < rmax) & (L > 1e-9 * rmax)
        d, L = d[keep], L[keep]
        out.append(d[np.argsort(L, kind='stable')])
    return out


def shell_radii(V, rel, rmax):
    """sorted distinct neighbour distances (< rmax) over all sites, merged at 1e-7 relative"""
    L = np.concatenate([np.sqrt((d * d).sum(axis=1)) for d in site_vectors(V, rel, rmax)])
    L.sort()
    out = []
    for x in L:
        if not out or x > out[-1] * (1 + 1e-7):
            out.append(float(x))
    return out


def shell_gaps(radii, minratio):
    """[(r_below, r_above)] for every pair of consecutive shells with r_above / r_below >= minratio"""
    return [(radii[k], radii[k + 1]) for k in range(len(radii) - 1) if radii[k + 1] / radii[k] >= minratio]


# ----------------------------------------------------------------------------- neighbours

def rel_coords(pos, V, o):
    return np.linalg.solve(np.asarray(V, dtype=float).T, (np.asarray(pos, dtype=float) - o).T).T


def wrap(pos, V, o, pbc):
    s = rel_coords(pos, V, o)
    shift = np.floor(s)
    for k in range(3):
        if not pbc[k]:
            shift[:, k] = 0.0
    return np.asarray(pos, dtype=float) - shift @ np.asarray(V, dtype=float), shift


def min_width(V, pbc):
    w = perp_widths(V)
    ws = [w[k] for k in range(3) if pbc[k]]
    return min(ws) if ws else float('inf')


def pairs_within(pos, V, pbc, rc):
    """(I, J, D): ordered pairs i != j with |D| < rc, D = p_j - p_i + n.V (the unique image that short).
    Sorted by (i, j)."""
    pos = np.asarray(pos, dtype=float)
    V = np.asarray(V, dtype=float)
    assert rc < 0.5 * min_width(V, pbc), 'pairs_within needs rc < w_min/2'
    inv = np.linalg.inv(V)
    d0 = pos[None, :, :] - pos[:, None, :]          # d0[i, j] = p_j - p_i
    s = d0 @ inv
    for k in range(3):
        if pbc[k]:
            s[:, :, k] -= np.rint(s[:, :, k])
    d = s @ V
    L2 = (d * d).sum(axis=-1)
    np.fill_diagonal(L2, np.inf)
    I, J = np.nonzero(L2 < rc * rc)
    return I, J, d[I, J], np.sqrt(L2[I, J])


def min_pair_margin(pos, V, pbc, rc):
    """smallest | |d_ij| - rc | over all pairs (how far the neighbour decision is from its discontinuity)"""
    pos = np.asarray(pos, dtype=float)
    V = np.asarray(V, dtype=float)
    inv = np.linalg.inv(V)
    d0 = pos[None, :, :] - pos[:, None, :]
    s = d0 @ inv
    for k in range(3):
        if pbc[k]:
            s[:, :, k] -= np.rint(s[:, :, k])
    d = s @ V
    L = np.sqrt((d * d).sum(axis=-1))
    np.fill_diagonal(L, np.inf)
    return float(np.abs(L - rc).min())


# ----------------------------------------------------------------------------- tensors

LEVI = np.zeros((3, 3, 3))
LEVI[0, 1, 2] = LEVI[1, 2, 0] = LEVI[2, 0, 1] = 1.0
LEVI[0, 2, 1] = LEVI[2, 1, 0] = LEVI[1, 0, 2] = -1.0


def curl_minus(G, i, nbr_idx, nbr_vec):
    """alpha_jk = -eps_jim d_i G_mk at atom i; gradient d_i G_mk from least squares over the neighbour vectors:
    G(neighbour) - G(i) ~ q . grad"""
    dG = G[nbr_idx] - G[i]                                  # (c,3,3)
    grad = np.linalg.lstsq(nbr_vec, dG.reshape(len(nbr_idx), 9), rcond=None)[0].reshape(3, 3, 3)   # grad[i,m,k]
    return -np.einsum('jim,imk->jk', LEVI, grad)


def invariants(e):
    """(I1, I2, I3) of a symmetric 3x3 tensor: trace, sum of principal 2x2 minors, determinant"""
    i1 = e[0, 0] + e[1, 1] + e[2, 2]
    i2 = 0.5 * (i1 * i1 - np.trace(e @ e))
    i3 = float(np.linalg.det(e))
    return float(i1), float(i2), i3


# ----------------------------------------------------------------------------- deterministic expansion

_M64 = (1 << 64) - 1


def splitmix(state):
    """one step of splitmix64: (new_state, 64-bit output)"""
    state = (state + 0x9E3779B97F4A7C15) & _M64
    z = state
    z = ((z ^ (z >> 30)) * 0xBF58476D1CE4E5B9) & _M64
    z = ((z ^ (z >> 27)) * 0x94D049BB133111EB) & _M64
    return state, z ^ (z >> 31)


def permutation(n, seed):
    """Fisher-Yates permutation of range(n) driven by splitmix64(seed); seed 0 -> identity"""
    p = list(range(n))
    if not seed:
        return np.array(p, dtype=int)
    st = int(seed) & _M64
    for k in range(n - 1, 0, -1):
        st, z = splitmix(st)
        j = z % (k + 1)
        p[k], p[j] = p[j], p[k]
    return np.array(p, dtype=int)


def uniform(n, seed):
    """(n,) floats in [-1, 1) from splitmix64(seed), multiples of 2**-20 (exactly representable)"""
    st = int(seed) & _M64
    out = np.empty(n)
    for k in range(n):
        st, z = splitmix(st)
        out[k] = ((z >> 43) / float(1 << 20)) - 1.0
    return out
