"""Independent geometry of a gamma surface (C18): fractional <-> Cartesian <-> plotting coordinates, nearest sample.

Never imports atomman.  A1, A2 are the Cartesian shift vectors (crystal shift vector times the box vectors).
"""
import math

import numpy as np


def frac_to_pos(u, v, A1, A2):
    u = np.atleast_1d(np.asarray(u, dtype=float))
    v = np.atleast_1d(np.asarray(v, dtype=float))
    return u[:, None] * A1[None, :] + v[:, None] * A2[None, :]


def pos_to_frac(pos, A1, A2):
    """least-squares (Gram) solve in the 2D basis (A1, A2): exact for in-plane positions"""
    pos = np.atleast_2d(np.asarray(pos, dtype=float))
    G = np.array([[A1 @ A1, A1 @ A2], [A1 @ A2, A2 @ A2]])
    rhs = np.array([pos @ A1, pos @ A2])
    uv = np.linalg.solve(G, rhs)
    return uv[0], uv[1]


def plot_axes(A1, A2, xvect=None):
    """unit vectors of the plotting frame: x along xvect (default A1), z along A1 x A2, y = z x x"""
    xv = A1 if xvect is None else np.asarray(xvect, dtype=float)
    n = np.cross(A1, A2)
    n = n / np.linalg.norm(n)
    ex = xv / np.linalg.norm(xv)
    ey = np.cross(n, ex)
    ey = ey / np.linalg.norm(ey)
    return ex, ey, n


def pos_to_xy(pos, A1, A2, xvect=None):
    ex, ey, n = plot_axes(A1, A2, xvect)
    pos = np.atleast_2d(np.asarray(pos, dtype=float))
    return pos @ ex, pos @ ey


def xy_to_pos(x, y, A1, A2, xvect=None):
    ex, ey, n = plot_axes(A1, A2, xvect)
    x = np.atleast_1d(np.asarray(x, dtype=float))
    y = np.atleast_1d(np.asarray(y, dtype=float))
    return x[:, None] * ex[None, :] + y[:, None] * ey[None, :]


def basis_cond(A1, A2):
    s = np.linalg.svd(np.array([A1, A2]), compute_uv=False)
    return float(s[0] / s[-1])


def nearest_index(u, n, band=1e-9):
    """index of the sample i/n (periodic) nearest to fractional coordinate u, and whether u is within `band`
    (in units of the fractional coordinate) of a midpoint between two samples (tie: undecidable)"""
    t = u * n
    i = math.floor(t + 0.5)
    tie = abs((t + 0.5) - round(t + 0.5)) < band * n
    return int(i) % n, tie
