"""Independent reader for LAMMPS data files, written from the `read_data` page of the LAMMPS manual.

File layout (read_data): the first line is a title and is skipped; then a header of lines
`value(s) keyword` (blank lines and everything after '#' ignored), ended by the first section
keyword; each section is `Keyword [# comment]`, one blank line, the body lines, (blank line).
Header keywords used here: `N atoms`, `N atom types`, `lo hi xlo xhi`, `lo hi ylo yhi`,
`lo hi zlo zhi`, `xy xz yz xy xz yz` (triclinic tilt factors; the box is orthogonal if absent).
Atoms lines carry the per-style columns below, optionally followed by three integer image flags
(all lines of a file either have them or not).  Velocities lines: `atom-ID vx vy vz` plus
`ervel` (electron), `lx ly lz` (ellipsoid), `wx wy wz` (sphere).  For atom_style hybrid the
columns are `atom-ID atom-type x y z` followed by the columns of each sub-style that are not among
these five, in the order the sub-styles are named (a value shared by several sub-styles listed once).

Column names below are the manual's; integer columns are marked.  Two styles have had two
published orders; both are accepted (ATOM_COLUMNS_ALT).
"""
import re


class FormatError(Exception):
    """the text is not a well-formed LAMMPS data file"""


# manual column names per atom style (Atoms section)
ATOM_COLUMNS = {
    'angle':      ['id', 'mol', 'type', 'x', 'y', 'z'],
    'atomic':     ['id', 'type', 'x', 'y', 'z'],
    'body':       ['id', 'type', 'bodyflag', 'mass', 'x', 'y', 'z'],
    'bond':       ['id', 'mol', 'type', 'x', 'y', 'z'],
    'charge':     ['id', 'type', 'q', 'x', 'y', 'z'],
    'dipole':     ['id', 'type', 'q', 'x', 'y', 'z', 'mux', 'muy', 'muz'],
    'electron':   ['id', 'type', 'q', 'spin', 'eradius', 'x', 'y', 'z'],
    'ellipsoid':  ['id', 'type', 'ellipsoidflag', 'density', 'x', 'y', 'z'],
    'full':       ['id', 'mol', 'type', 'q', 'x', 'y', 'z'],
    'line':       ['id', 'mol', 'type', 'lineflag', 'density', 'x', 'y', 'z'],
    'meso':       ['id', 'type', 'rho', 'e', 'cv', 'x', 'y', 'z'],
    'molecular':  ['id', 'mol', 'type', 'x', 'y', 'z'],
    'peri':       ['id', 'type', 'volume', 'density', 'x', 'y', 'z'],
    'smd':        ['id', 'type', 'mol', 'volume', 'mass', 'kradius', 'cradius', 'x', 'y', 'z'],
    'sphere':     ['id', 'type', 'diameter', 'density', 'x', 'y', 'z'],
    'template':   ['id', 'mol', 'templateindex', 'templateatom', 'type', 'x', 'y', 'z'],
    'tri':        ['id', 'mol', 'type', 'triangleflag', 'density', 'x', 'y', 'z'],
    'wavepacket': ['id', 'type', 'q', 'spin', 'eradius', 'etag', 'cs_re', 'cs_im', 'x', 'y', 'z'],
}
# the other published order of the two styles whose line changed between LAMMPS releases
ATOM_COLUMNS_ALT = {
    'template':   ['id', 'type', 'mol', 'templateindex', 'templateatom', 'x', 'y', 'z'],
    'smd':        ['id', 'type', 'mol', 'volume', 'mass', 'kradius', 'cradius', 'x0', 'y0', 'z0', 'x', 'y', 'z'],
}
INT_COLUMNS = {'id', 'mol', 'type', 'bodyflag', 'ellipsoidflag', 'lineflag', 'triangleflag', 'spin', 'etag',
               'templateindex', 'templateatom'}

VELOCITY_EXTRA = {'electron': ['ervel'], 'ellipsoid': ['lx', 'ly', 'lz'], 'sphere': ['wx', 'wy', 'wz']}

SECTION_KEYWORDS = {'Atoms', 'Velocities', 'Masses', 'Bonds', 'Angles', 'Dihedrals', 'Impropers', 'Ellipsoids',
                    'Lines', 'Triangles', 'Bodies', 'Pair Coeffs', 'PairIJ Coeffs', 'Bond Coeffs', 'Angle Coeffs'}

_INT = re.compile(r'^[+-]?\d+$')
_FLOAT = re.compile(r'^[+-]?(\d+\.?\d*|\.\d+)([eE][+-]?\d+)?$')


def is_int(tok):
    return bool(_INT.match(tok))


def is_float(tok):
    return bool(_FLOAT.match(tok))


def hybrid_columns(substyles, table=ATOM_COLUMNS):
    cols = ['id', 'type', 'x', 'y', 'z']
    for s in substyles:
        for c in table[s]:
            if c not in cols:
                cols.append(c)
    return cols


def atom_columns(atom_style):
    """list of admissible column-name lists for the Atoms section of `atom_style`"""
    words = atom_style.split()
    if words[0] == 'hybrid':
        return [hybrid_columns(words[1:])]
    out = [ATOM_COLUMNS[words[0]]]
    if words[0] in ATOM_COLUMNS_ALT:
        out.append(ATOM_COLUMNS_ALT[words[0]])
    return out


def velocity_columns(atom_style):
    words = atom_style.split()
    cols = ['id', 'vx', 'vy', 'vz']
    subs = words[1:] if words[0] == 'hybrid' else words[:1]
    for s in subs:
        for c in VELOCITY_EXTRA.get(s, []):
            if c not in cols:
                cols.append(c)
    return cols


def _strip(line):
    i = line.find('#')
    comment = None
    if i >= 0:
        comment = line[i + 1:].strip()
        line = line[:i]
    return line.strip(), comment


def parse(text):
    """Returns dict(natoms, natypes, bounds={'x':(lo,hi),..} as token strings, tilt=None|(xy,xz,yz) tokens,
    sections={name: dict(comment, rows=[[tok,..],..])}, header_keywords=[...]).  Raises FormatError."""
    if not isinstance(text, str):
        raise FormatError('content is not text')
    lines = text.split('\n')
    if len(lines) < 2:
        raise FormatError('no header')
    out = dict(natoms=None, natypes=None, bounds={}, tilt=None, sections={}, header_keywords=[])
    i = 1                       # line 0 is the title
    # ---- header
    while i < len(lines):
        body, _ = _strip(lines[i])
        if body == '':
            i += 1
            continue
        if body in SECTION_KEYWORDS:
            break
        toks = body.split()
        matched = False
        for kw, nval in (('atom types', 1), ('atoms', 1), ('xlo xhi', 2), ('ylo yhi', 2), ('zlo zhi', 2), ('xy xz yz', 3)):
            kwt = kw.split()
            if len(toks) == nval + len(kwt) and toks[nval:] == kwt:
                vals = toks[:nval]
                if kw in out['header_keywords']:
                    raise FormatError('header keyword %r given twice' % kw)
                out['header_keywords'].append(kw)
                if kw == 'atoms' or kw == 'atom types':
                    if not is_int(vals[0]) or int(vals[0]) < 0:
                        raise FormatError('header %r: count %r is not a non-negative integer' % (kw, vals[0]))
                    out['natoms' if kw == 'atoms' else 'natypes'] = int(vals[0])
                else:
                    for v in vals:
                        if not is_float(v):
                            raise FormatError('header %r: %r is not a number' % (kw, v))
                    if kw == 'xy xz yz':
                        out['tilt'] = tuple(vals)
                    else:
                        out['bounds'][kw[0]] = tuple(vals)
                matched = True
                break
        if not matched:
            raise FormatError('unrecognised header line %d: %r' % (i + 1, lines[i]))
        i += 1
    if out['natoms'] is None:
        raise FormatError('header has no "atoms" line')
    if out['natypes'] is None:
        raise FormatError('header has no "atom types" line')
    for d in 'xyz':
        if d not in out['bounds']:
            raise FormatError('header has no "%slo %shi" line' % (d, d))
    # ---- sections
    while i < len(lines):
        body, comment = _strip(lines[i])
        if body == '':
            i += 1
            continue
        if body not in SECTION_KEYWORDS:
            raise FormatError('line %d: expected a section keyword, found %r' % (i + 1, lines[i]))
        name = body
        if name in out['sections']:
            raise FormatError('section %s appears twice' % name)
        if name not in ('Atoms', 'Velocities'):
            raise FormatError('section %s is not understood by this reader' % name)
        i += 1
        if i >= len(lines) or lines[i].strip() != '':
            raise FormatError('section %s: the line after the keyword must be blank' % name)
        i += 1
        rows = []
        for k in range(out['natoms']):
            if i >= len(lines):
                raise FormatError('section %s: file ends after %d of %d lines' % (name, k, out['natoms']))
            b, _ = _strip(lines[i])
            if b == '':
                raise FormatError('section %s: blank line after %d of %d lines' % (name, k, out['natoms']))
            rows.append(b.split())
            i += 1
        if i < len(lines) and lines[i].strip() != '':
            raise FormatError('section %s: more than %d lines (line %d: %r)' % (name, out['natoms'], i + 1, lines[i]))
        out['sections'][name] = dict(comment=comment, rows=rows)
    if 'Atoms' not in out['sections'] and out['natoms'] > 0:
        raise FormatError('no Atoms section')
    if 'Velocities' in out['sections'] and list(out['sections']).index('Velocities') < list(out['sections']).index('Atoms'):
        raise FormatError('Velocities before Atoms')
    return out


def split_atoms(rows, atom_style):
    """Interpret the Atoms rows under every admissible column list.  Returns a list of
    (columns, records, imageflags|None) - one per admissible interpretation; records is a list of
    {column: token}.  Raises FormatError when no interpretation fits the number of columns or an
    integer column holds a non-integer token."""
    if not rows:
        return [(atom_columns(atom_style)[0], [], None)]
    n = len(rows[0])
    for r in rows:
        if len(r) != n:
            raise FormatError('Atoms lines have differing numbers of columns (%d and %d)' % (n, len(r)))
    out = []
    errs = []
    for cols in atom_columns(atom_style):
        if n == len(cols):
            flags = None
        elif n == len(cols) + 3:
            flags = []
        else:
            errs.append('%d columns, style %s has %d (+3 image flags)' % (n, atom_style, len(cols)))
            continue
        recs = []
        ok = True
        for r in rows:
            rec = dict(zip(cols, r))
            for c, t in rec.items():
                if c in INT_COLUMNS:
                    if not is_int(t):
                        errs.append('column %s holds %r, an integer is required' % (c, t)); ok = False
                elif not is_float(t):
                    errs.append('column %s holds %r, a number is required' % (c, t)); ok = False
            if flags is not None:
                fl = r[len(cols):]
                if not all(is_int(t) for t in fl):
                    errs.append('image flags %r are not integers' % (fl,)); ok = False
                else:
                    flags.append([int(t) for t in fl])
            if not ok:
                break
            recs.append(rec)
        if ok:
            out.append((cols, recs, flags))
    if not out:
        raise FormatError('Atoms section: ' + '; '.join(errs[:3]))
    return out


def split_velocities(rows, atom_style):
    cols = velocity_columns(atom_style)
    recs = []
    for r in rows:
        if len(r) != len(cols):
            raise FormatError('Velocities line has %d columns, style %s needs %d (%s)' % (len(r), atom_style, len(cols), ' '.join(cols)))
        rec = dict(zip(cols, r))
        if not is_int(rec['id']):
            raise FormatError('Velocities: atom-ID %r is not an integer' % rec['id'])
        for c, t in rec.items():
            if c != 'id' and not is_float(t):
                raise FormatError('Velocities: column %s holds %r' % (c, t))
        recs.append(rec)
    return cols, recs
