"""Independent evaluation of the semidiscrete variational Peierls-Nabarro energy terms (C18).

Written from the formulas in the SDVPN docstrings (Bulatov & Kaxiras 1997 form); never imports atomman.
Every function returns (value, absscale) where absscale is the sum of the absolute values of the summands,
used by the caller to scale the rounding tolerance (the sums cancel heavily).

x   : (N,) uniform grid,  d : (N,3) disregistry,  K : (3,3) energy coefficient tensor in the [m, n, xi] frame
"""
import math

import numpy as np


def density(x, d, cdiff):
    """rho[i] = (d[i]-d[i-1])/(x[i]-x[i-1]) at x[1:]   or   (d[i+1]-d[i-1])/(x[i+1]-x[i-1]) at x[1:-1]"""
    n = len(x)
    if cdiff:
        idx = range(1, n - 1)
        rho = np.array([[(d[i + 1][k] - d[i - 1][k]) / (x[i + 1] - x[i - 1]) for k in range(3)] for i in idx]).reshape(-1, 3)
        return np.array([x[i] for i in idx]), rho
    idx = range(1, n)
    rho = np.array([[(d[i][k] - d[i - 1][k]) / (x[i] - x[i - 1]) for k in range(3)] for i in idx]).reshape(-1, 3)
    return np.array([x[i] for i in idx]), rho


def _psi(k, dx):
    """psi(i,j) = 1/2 (i-j)^2 dx^2 ln(|i-j| dx), 0 for i == j; depends on k = i-j only"""
    if k == 0:
        return 0.0
    return 0.5 * k * k * dx * dx * math.log(abs(k) * dx)


def chi_table(n, dx):
    """chi(i,j) = 3/2 dx^2 + psi(i-1,j-1) + psi(i,j) - psi(i,j-1) - psi(j,i-1) as a function of k=|i-j|, k=0..n-1
    (psi(i-1,j-1)=psi(i,j)=psi(k); psi(i,j-1)=psi(k+1); psi(j,i-1)=psi(-(k-1))=psi(k-1); even in k)"""
    return np.array([1.5 * dx * dx + 2.0 * _psi(k, dx) - _psi(k + 1, dx) - _psi(k - 1, dx) for k in range(n)])


def elastic(x, d, K, cdiff):
    """1/(4 pi) sum_i sum_j chi(i,j) K_lm rho_l[i] rho_m[j]"""
    dx = x[1] - x[0]
    rho = density(x, d, cdiff)[1]
    n = len(rho)
    if n == 0:
        return 0.0, 0.0
    chi = chi_table(n, dx)
    ii = np.arange(n)
    X = chi[np.abs(ii[:, None] - ii[None, :])]
    C = rho @ np.asarray(K, dtype=float) @ rho.T          # C[i,j] = rho_l[i] K_lm rho_m[j]
    terms = X * C
    return float(terms.sum() / (4 * math.pi)), float(np.abs(terms).sum() / (4 * math.pi))


def elastic_scalar_loop(x, d, K, cdiff):
    """the same double sum as a plain Python loop over (i,j) with chi written out from psi(i,j) (small n only)"""
    dx = x[1] - x[0]
    rho = density(x, d, cdiff)[1]
    n = len(rho)

    def psi(i, j):
        return _psi(i - j, dx)
    tot = 0.0
    for i in range(n):
        for j in range(n):
            chi = 1.5 * dx * dx + psi(i - 1, j - 1) + psi(i, j) - psi(i, j - 1) - psi(j, i - 1)
            q = 0.0
            for l in range(3):
                for m in range(3):
                    q += K[l][m] * rho[i][l] * rho[j][m]
            tot += chi * q
    return tot / (4 * math.pi)


def longrange(K, b, L):
    """1/(2 pi) K_lm b_l b_m ln(L)"""
    q = sum(K[l][m] * b[l] * b[m] for l in range(3) for m in range(3))
    qa = sum(abs(K[l][m] * b[l] * b[m]) for l in range(3) for m in range(3))
    return q * math.log(L) / (2 * math.pi), qa * abs(math.log(L)) / (2 * math.pi)


def stress_full(x, d, tau, cdiff):
    """-1/2 sum_i (x[i]^2 - x[i-1]^2) rho_l[i] tau_2l, i over the points where rho[i] is defined
    (i = 1..N-1 for neighbour differences, i = 1..N-2 for central differences)"""
    newx, rho = density(x, d, cdiff)
    tot = 0.0
    sc = 0.0
    for r in range(len(rho)):
        i = r + 1
        w = x[i] ** 2 - x[i - 1] ** 2
        s = sum(rho[r][l] * tau[1][l] for l in range(3))
        tot += w * s
        sc += abs(w) * sum(abs(rho[r][l] * tau[1][l]) for l in range(3)) + (x[i] ** 2 + x[i - 1] ** 2) * 1e-3 * abs(s)
    return -0.5 * tot, 0.5 * sc


def stress_alt(x, d, tau):
    """+1/2 sum_i tau_2l (d_l[i] + d_l[i+1]) dx.

    Sign: the docstring prints "-1/2 sum tau_2l (...) dx" but also states that this form differs from the full
    form by a configuration-independent constant ("should apply a similar force"); summation by parts of the full
    form gives  -1/2[(x[N-1]+x[N-2]) d[N-1] - (x[1]+x[0]) d[0]].tau + sum_{i=1}^{N-2} d[i].tau dx,  so only the
    + sign is consistent with that statement (the code flips tau for this reason)."""
    dx = x[1] - x[0]
    tot = 0.0
    sc = 0.0
    for i in range(len(x) - 1):
        for l in range(3):
            t = tau[1][l] * (d[i][l] + d[i + 1][l]) * dx
            tot += t
            sc += abs(tau[1][l]) * (abs(d[i][l]) + abs(d[i + 1][l])) * dx
    return 0.5 * tot, 0.5 * sc


def stress_full_minus_alt_constant(x, d, tau):
    """E_full(neighbour differences) - E_alt, which by summation by parts depends on the end rows only"""
    dx = x[1] - x[0]
    n = len(x)
    t = [tau[1][l] for l in range(3)]
    a = sum(((x[n - 1] + x[n - 2]) * d[n - 1][l] - (x[1] + x[0]) * d[0][l]) * t[l] for l in range(3))
    b = sum((d[0][l] + d[n - 1][l]) * t[l] for l in range(3)) * dx
    return -0.5 * a - 0.5 * b


def surface(x, d, beta, cdiff):
    """sum_j beta_lj / 4 sum_i rho_l[i]^2 dx"""
    dx = x[1] - x[0]
    rho = density(x, d, cdiff)[1]
    tot = 0.0
    sc = 0.0
    for l in range(3):
        s2 = float(sum(r[l] ** 2 for r in rho))
        for j in range(3):
            tot += beta[l][j] / 4.0 * s2 * dx
            sc += abs(beta[l][j]) / 4.0 * s2 * dx
    return tot, sc


def nonlocal_(x, d, alphas):
    """sum_m alpha_m sum_i d[i].(d[i] - (d[i+m] + d[i-m])/2) dx, i = m .. N-1-m"""
    dx = x[1] - x[0]
    n = len(x)
    tot = 0.0
    sc = 0.0
    for num, a in enumerate(alphas):
        m = num + 1
        for i in range(m, n - m):
            for l in range(3):
                t = d[i][l] * (d[i][l] - 0.5 * (d[i + m][l] + d[i - m][l])) * dx
                tot += a * t
                sc += abs(a) * abs(d[i][l]) * (abs(d[i][l]) + 0.5 * (abs(d[i + m][l]) + abs(d[i - m][l]))) * dx
    return tot, sc


def arctan_disregistry(x, b, center, halfwidth):
    """delta(x) = b/pi arctan((x-c)/xi) + b/2  (rows), b a 3-vector"""
    return np.array([[bk / math.pi * math.atan((xi - center) / halfwidth) + bk / 2.0 for bk in b] for xi in x])


def arctan_density(x, b, center, halfwidth):
    """rho(x) = b/pi xi/((x-c)^2 + xi^2)"""
    return np.array([[bk / math.pi * halfwidth / ((xi - center) ** 2 + halfwidth ** 2) for bk in b] for xi in x])
