"""Independent reference code for periodic separations (numpy only, never imports atomman).

Conventions: ``V`` is the 3x3 matrix whose *rows* are the cell vectors; ``pbc`` is a triple of bools; an
image of a separation ``d0`` is ``d0 + n.V`` with integer ``n`` and ``n_i = 0`` on non-periodic axes.

NearestImage(V, pbc).search(d0) is an exhaustive search with a *proven* finite radius:

  Let B (k x 3) be any basis of the lattice spanned by the periodic cell vectors, G = pinv(B).T its dual
  basis inside span(B) (G_i . B_j = delta_ij).  Split d0 = d_par + d_perp (d_perp orthogonal to span(B)) and
  write d_par = t.B.  Every image is y + d_perp with y = (t+m).B, m integer, and |image|^2 = |d_perp|^2 + |y|^2.
  Because (t+m)_i = y . G_i, Cauchy-Schwarz gives |t_i + m_i| <= |y| |G_i|.  Hence every image not longer
  than a known image of length L0 has m_i in the finite interval |t_i + m_i| <= sqrt(L0^2-|d_perp|^2) |G_i|.
  All m in that box are enumerated, so the minimum found is the global minimum.

  For k = 3 and B = V this is DESIGN's bound |n_i + s_i| <= L0 / w_i with w_i = 1/|reciprocal_i| the
  perpendicular widths.  To keep the box small for skewed cells, B is first replaced by U.B with U an
  integer matrix of determinant +-1 (pairwise size reduction; same lattice, asserted), which does not
  affect the proof.  L0 comes from rounding t in the reduced basis.

Length unit: everything here is scale free - the integer ranges are computed from dimensionless quantities (t, rad*|G_i|),
every absolute margin is EPS times the size of the inputs, tie thresholds are relative unless the caller passes tie_abs
(in the caller's unit).  C02 runs it on cells from 1e-12 to 1e+8 in size.
"""
import itertools

import numpy as np

EPS = 2.220446049250313e-16


def perp_widths(V):
    """perpendicular widths w_i = 1/|i-th reciprocal vector| = volume / |v_j x v_k|"""
    V = np.asarray(V, dtype=float)
    inv = np.linalg.inv(V)           # columns are the reciprocal vectors (s = x.inv)
    return 1.0 / np.linalg.norm(inv, axis=0)


def is_orthogonal_exact(V):
    """cell vectors mutually orthogonal (to rounding: |cos| <= 1e-14)"""
    V = np.asarray(V, dtype=float)
    nr = np.linalg.norm(V, axis=1)
    c = (V @ V.T) / np.outer(nr, nr)
    return bool(abs(c[0, 1]) <= 1e-14 and abs(c[0, 2]) <= 1e-14 and abs(c[1, 2]) <= 1e-14)


def candidates27(d0, V, pbc):
    """(shifts (M,3) int, vectors (M,3)): all d0 + n.V with n_i in {-1,0,1} on periodic axes, 0 elsewhere
    (M = 27, 9, 3 or 1); the first entry is n = 0."""
    rngs = [(0, -1, 1) if p else (0,) for p in pbc]
    n = np.array(list(itertools.product(*rngs)), dtype=int)
    return n, np.asarray(d0, dtype=float) + n @ np.asarray(V, dtype=float)


def _reduce(B):
    """pairwise size reduction of the rows of B (k x 3); returns (U, U.B) with U integer, |det U| = 1"""
    k = len(B)
    U = np.eye(k, dtype=np.int64)
    R = B.copy()
    for _ in range(200):
        changed = False
        for i in range(k):
            for j in range(k):
                if i == j:
                    continue
                q = int(np.rint(np.dot(R[i], R[j]) / np.dot(R[j], R[j])))
                if q != 0:
                    new = R[i] - q * R[j]
                    if np.dot(new, new) < np.dot(R[i], R[i]) * (1 - 1e-12):
                        R[i] = new
                        U[i] -= q * U[j]
                        changed = True
        if not changed:
            break
    if k:
        d = int(round(float(np.linalg.det(U.astype(float)))))
        assert abs(d) == 1, 'reduction matrix not unimodular'
        # recompute from the integers so that R is exactly (in floating point) U.B
        R = U.astype(float) @ B
    return U, R


class NearestImage:
    """exhaustive nearest-image search for one (cell, pbc)"""

    def __init__(self, V, pbc):
        self.V = np.array(V, dtype=float)
        self.pbc = [bool(p) for p in pbc]
        self.axes = [i for i in range(3) if self.pbc[i]]
        self.k = len(self.axes)
        B = self.V[self.axes] if self.k else np.zeros((0, 3))
        self.U, self.R = _reduce(B)
        if self.k:
            self.P = np.linalg.pinv(self.R)          # (3,k): t = d0 @ P
            self.G = self.P.T                        # dual basis rows
            self.gn = np.linalg.norm(self.G, axis=1)
        self.max_enum = 0

    def search(self, d0, tie_rel=1e-9, tie_abs=None):
        """returns dict(L=min length, n=integer shift (3,) in the ORIGINAL cell vectors achieving it,
        vec=the image, second=length of the shortest image that differs from vec by more than rounding
        (inf if none inside the searched ball), nenum=number of images enumerated, ntie=number of enumerated
        images whose length is within the tie threshold L*(1+tie_rel)+tie_abs of the minimum (1 = the minimiser
        is unique at that resolution)).  tie_abs defaults to 64*EPS*scale; a caller that compares against code
        accumulating the shift in the *unreduced* cell vectors should pass its own (larger) absolute threshold."""
        d0 = np.asarray(d0, dtype=float)
        if self.k == 0:
            return dict(L=float(np.linalg.norm(d0)), n=np.zeros(3, dtype=int), vec=d0.copy(), second=float('inf'), nenum=1,
                        ntie=1)
        t = d0 @ self.P
        m0 = -np.rint(t)
        y0 = d0 + m0 @ self.R
        L0 = float(np.linalg.norm(y0))
        # in-span part of the trial image, computed directly (L0^2 - |d_perp|^2 cancels catastrophically when
        # d_perp dominates, e.g. one periodic axis and a separation nearly perpendicular to it)
        ypar = (t + m0) @ self.R
        r2 = float(ypar @ ypar)
        # radius enlarged so that ties and rounding are inside; scale term covers |d0| >> |cell|
        scale = float(np.abs(d0).max() + np.abs(self.R).sum())
        rad = (r2 ** 0.5) * (1 + 1e-6) + 64 * EPS * scale
        los = np.ceil(-t - rad * self.gn - 1e-9).astype(int)
        his = np.floor(-t + rad * self.gn + 1e-9).astype(int)
        rngs = [np.arange(lo, hi + 1) for lo, hi in zip(los, his)]
        grid = np.stack(np.meshgrid(*rngs, indexing='ij'), axis=-1).reshape(-1, self.k)
        n_orig = np.zeros((len(grid), 3), dtype=np.int64)
        n_orig[:, self.axes] = grid @ self.U                 # m.(U.B) = (m.U).B
        vecs = d0 + n_orig @ self.V
        lens = np.sqrt((vecs * vecs).sum(axis=1))
        i = int(np.argmin(lens))
        L = float(lens[i])
        thr = L * (1 + tie_rel) + (64 * EPS * scale if tie_abs is None else float(tie_abs))
        other = lens[lens > thr]
        self.max_enum = max(self.max_enum, len(grid))
        return dict(L=L, n=n_orig[i].astype(int), vec=vecs[i], second=float(other.min()) if len(other) else float('inf'),
                    nenum=len(grid), ntie=int(len(lens) - len(other)))


def brute_force(d0, V, pbc, radius):
    """plain enumeration |n_i| <= radius on periodic axes; used only to cross-check NearestImage in its self test"""
    rngs = [range(-radius, radius + 1) if p else (0,) for p in pbc]
    n = np.array(list(itertools.product(*rngs)), dtype=int)
    v = np.asarray(d0, dtype=float) + n @ np.asarray(V, dtype=float)
    l = np.sqrt((v * v).sum(axis=1))
    return float(l.min())


def pair_distances(pos, V, pbc):
    """true nearest-image distance for every atom pair i<j, in the fixed order (0,1),(0,2),...; (N(N-1)/2,)"""
    pos = np.asarray(pos, dtype=float)
    ni = NearestImage(V, pbc)
    out = []
    for i in range(len(pos)):
        for j in range(i + 1, len(pos)):
            out.append(ni.search(pos[j] - pos[i])['L'])
    return np.array(out, dtype=float)
