"""Reference pieces for straight Volterra dislocations in an infinite linear-elastic medium.  numpy only; never
imports atomman.

Frame: right-handed orthonormal (m, n, xi), xi = m x n the line direction, n the normal of the cut plane.  In-plane
coordinates x = pos.m, y = pos.n.  Convention of the code under judgement (and of Hirth & Lothe): the displacement
jumps by +b from y = 0- to y = 0+ on the half-plane x < 0.

What is here
  frame_of(mn)                    (m, n, xi) of a JSON m/n description
  point(m, n, xi, r, phi, z)      Cartesian position of cylindrical coordinates in that frame
  fd_gradient(f, x, h)            4th-order central differences, G[..., j] = d f[...] / d x_j
  sextic_roots(C4, m, n)          the three roots with Im p > 0 of det[(m + p n) C (m + p n)] = 0 (companion matrix of the
                                  quadratic matrix polynomial; only used to *classify* cases and scale tolerances)
  iso_reference(...)              textbook closed forms (Hirth & Lothe, Theory of Dislocations, 2nd ed., eqs 3-2, 3-3,
                                  3-43, 3-45, 3-46) for stress; strain through the inverse Hooke law; displacement
  miller_transform(...)           orientation matrix from a line direction [uvw] and a slip plane (hkl) in a cell
  lattice_to_cartesian / plane_normal   crystal vector and plane normal (reciprocal-lattice route), 3 or 4 indices
"""
import math

import numpy as np

AXES = {'x': (1.0, 0.0, 0.0), 'y': (0.0, 1.0, 0.0), 'z': (0.0, 0.0, 1.0)}


def rotation_matrix(axis, angle_deg):
    a = np.asarray(axis, dtype=float)
    a = a / np.linalg.norm(a)
    t = math.radians(angle_deg)
    K = np.array([[0, -a[2], a[1]], [a[2], 0, -a[0]], [-a[1], a[0], 0]])
    return np.eye(3) + math.sin(t) * K + (1 - math.cos(t)) * (K @ K)


def frame_of(mn):
    """mn: {'kind': 'default'} | {'kind': 'str', 'm': 'z', 'n': 'x'} | {'kind': 'vec', 'rot': [axis, angle]}
    | {'kind': 'axis', 'm': [0, -1, 0], 'n': [0, 0, 1]}  (signed Cartesian axes handed over as vectors, exact)
    ('vec': m, n are the images of x, y under the rotation).  Returns float arrays m, n, xi = m x n."""
    k = mn['kind']
    if k == 'default':
        m, n = np.array(AXES['x']), np.array(AXES['y'])
    elif k == 'str':
        m, n = np.array(AXES[mn['m']]), np.array(AXES[mn['n']])
    elif k == 'axis':
        m, n = np.array(mn['m'], dtype=float), np.array(mn['n'], dtype=float)
    elif k == 'vec':
        R = rotation_matrix(*mn['rot'])
        m, n = R @ np.array(AXES['x']), R @ np.array(AXES['y'])
        # exactly unit, exactly perpendicular to rounding (Gram-Schmidt once)
        m = m / np.linalg.norm(m)
        n = n - m * (m @ n)
        n = n / np.linalg.norm(n)
    else:
        raise ValueError(k)
    return m, n, np.cross(m, n)


def point(m, n, xi, r, phi_deg, z):
    t = math.radians(phi_deg)
    return r * math.cos(t) * m + r * math.sin(t) * n + z * xi


def fd_gradient(f, x, h):
    """f: callable on an (N,3) array returning (N, ...) ; x: (3,).  Returns (G, max|f|): G[..., j] = d f[...] / d x_j by the
    4th-order central stencil (-f(+2h) + 8 f(+h) - 8 f(-h) + f(-2h)) / 12h, all 12 points in one call of f."""
    x = np.asarray(x, dtype=float)
    pts = []
    for j in range(3):
        e = np.zeros(3)
        e[j] = h
        pts += [x + 2 * e, x + e, x - e, x - 2 * e]
    pts = np.array(pts)
    v = np.asarray(f(pts))
    out = []
    umax = float(np.abs(v).max())
    for j in range(3):
        a, b, c, d = v[4 * j], v[4 * j + 1], v[4 * j + 2], v[4 * j + 3]
        # the step actually taken, (x+h) - (x-h), differs from 2h by the rounding of x + h: divide by what was taken
        hj = ((pts[4 * j + 1, j] - pts[4 * j + 2, j]) / 2.0)
        out.append((-a + 8 * b - 8 * c + d) / (12.0 * hj))
    return np.stack(out, axis=-1), umax


def sextic_matrices(C4, m, n):
    mm = np.einsum('i,ijkl,l->jk', m, C4, m)
    mn = np.einsum('i,ijkl,l->jk', m, C4, n)
    nm = np.einsum('i,ijkl,l->jk', n, C4, m)
    nn = np.einsum('i,ijkl,l->jk', n, C4, n)
    return mm, mn, nm, nn


def sextic_roots(C4, m, n):
    """roots p (Im p > 0) of det[mm + p (mn + nm) + p^2 nn] = 0 by linearisation; returns the three roots sorted by
    real part then imaginary part, and the smallest mutual distance between them (0 for a single repeated root)"""
    mm, mn, nm, nn = sextic_matrices(np.asarray(C4, dtype=float), np.asarray(m, float), np.asarray(n, float))
    inv = np.linalg.inv(nn)
    comp = np.zeros((6, 6))
    comp[:3, 3:] = np.eye(3)
    comp[3:, :3] = -inv @ mm
    comp[3:, 3:] = -inv @ (mn + nm)
    p = np.linalg.eigvals(comp)
    up = sorted((complex(q) for q in p if q.imag > 0), key=lambda q: (q.real, q.imag))
    gap = min([abs(up[i] - up[j]) for i in range(len(up)) for j in range(i)] or [0.0])
    return up, gap


def iso_reference(mu, nu, b_e, b_s, m, n, xi, pos):
    """Closed-form fields of a straight dislocation in an isotropic medium, Burgers vector b_e m + b_s xi.
    pos (N,3).  Returns dict of arrays: 'stress' (N,3,3), 'strain' (N,3,3) (inverse Hooke law on the stress),
    'disp' (N,3) (defined up to the additive constant of the chosen reference)."""
    pos = np.asarray(pos, dtype=float).reshape(-1, 3)
    x, y = pos @ m, pos @ n
    r2 = x * x + y * y
    D = mu * b_e / (2 * math.pi * (1 - nu))
    S = mu * b_s / (2 * math.pi)
    loc = np.zeros((len(pos), 3, 3))
    loc[:, 0, 0] = -D * y * (3 * x * x + y * y) / r2 ** 2
    loc[:, 1, 1] = D * y * (x * x - y * y) / r2 ** 2
    loc[:, 0, 1] = loc[:, 1, 0] = D * x * (x * x - y * y) / r2 ** 2
    loc[:, 2, 2] = nu * (loc[:, 0, 0] + loc[:, 1, 1])
    loc[:, 0, 2] = loc[:, 2, 0] = -S * y / r2
    loc[:, 1, 2] = loc[:, 2, 1] = S * x / r2
    E = 2 * mu * (1 + nu)
    tr = np.trace(loc, axis1=1, axis2=2)
    eloc = ((1 + nu) * loc - nu * tr[:, None, None] * np.eye(3)) / E
    B = np.array([m, n, xi])            # rows: local axes in the global frame
    stress = np.einsum('ai,nab,bj->nij', B, loc, B)
    strain = np.einsum('ai,nab,bj->nij', B, eloc, B)
    th = np.arctan2(y, x)
    ux = b_e / (2 * math.pi) * (th + x * y / (2 * (1 - nu) * r2))
    uy = -b_e / (2 * math.pi) * ((1 - 2 * nu) / (4 * (1 - nu)) * np.log(r2) + (x * x - y * y) / (4 * (1 - nu) * r2))
    uz = b_s / (2 * math.pi) * th
    disp = ux[:, None] * m + uy[:, None] * n + uz[:, None] * xi
    return {'stress': stress, 'strain': strain, 'disp': disp}


def four_to_three_vector(ind):
    u, v, t, w = ind
    return np.array([2 * u + v, 2 * v + u, w], dtype=float)          # [uvtw] -> [UVW] with t = -(u+v): U = u - t


def four_to_three_plane(ind):
    h, k, i, l = ind
    return np.array([h, k, l], dtype=float)


def lattice_to_cartesian(vects, ind):
    ind = np.asarray(ind, dtype=float)
    if ind.shape == (4,):
        ind = four_to_three_vector(ind)
    return ind @ np.asarray(vects, dtype=float)


def plane_normal(vects, hkl):
    """unit normal of the lattice plane (hkl): direction of h a* + k b* + l c*"""
    hkl = np.asarray(hkl, dtype=float)
    if hkl.shape == (4,):
        hkl = four_to_three_plane(hkl)
    V = np.asarray(vects, dtype=float)
    recip = np.linalg.inv(V).T          # rows a*, b*, c* (without 2 pi)
    g = hkl @ recip
    return g / np.linalg.norm(g)


def miller_transform(vects, uvw, hkl, m, n):
    """rows of the returned matrix: images of the crystal axes such that the crystal direction [uvw] maps on xi = m x n,
    the plane normal of (hkl) on n, and (normal x line) on m"""
    xi_c = lattice_to_cartesian(vects, uvw)
    xi_c = xi_c / np.linalg.norm(xi_c)
    n_c = plane_normal(vects, hkl)
    m_c = np.cross(n_c, xi_c)
    R0 = np.array([m_c, n_c, xi_c])
    T = np.array([m, n, np.cross(m, n)]).T
    return T @ R0
