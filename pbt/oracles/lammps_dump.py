"""Independent reader for LAMMPS text dump files (`dump custom` layout), from the `dump` page of the manual.

    ITEM: TIMESTEP
    <int>
    ITEM: NUMBER OF ATOMS
    <int>
    ITEM: BOX BOUNDS [xy xz yz] bb bb bb        bb = two letters from p,f,s,m (lower/upper face); p only as pp
    xlo_bound xhi_bound [xy]
    ylo_bound yhi_bound [xz]
    zlo_bound zhi_bound [yz]
    ITEM: ATOMS <column names>
    N lines with one value per column

For a triclinic box the three lines give the bounding box of the tilted cell and the tilt factors:
    xlo_bound = xlo + MIN(0, xy, xz, xy+xz)    xhi_bound = xhi + MAX(0, xy, xz, xy+xz)
    ylo_bound = ylo + MIN(0, yz)               yhi_bound = yhi + MAX(0, yz)
    zlo_bound = zlo                            zhi_bound = zhi
Scaled coordinates xs,ys,zs (and xsu..) of a triclinic box are the fractional (lamda) coordinates:
    x = xlo + xs*lx + ys*xy + zs*xz,  y = ylo + ys*ly + zs*yz,  z = zlo + zs*lz.
"""
from .lammps_data import is_int, is_float


class FormatError(Exception):
    """the text is not a well-formed LAMMPS dump snapshot"""


INT_COLUMNS = {'id', 'mol', 'proc', 'procp1', 'type', 'ix', 'iy', 'iz'}


def parse(text):
    """one snapshot -> dict(timestep, natoms, triclinic, boundary=[bb,bb,bb], bounds=[(lo,hi)x3] tokens,
    tilt=None|(xy,xz,yz) tokens, columns=[...], rows=[[tok..]..])"""
    if not isinstance(text, str):
        raise FormatError('content is not text')
    lines = text.split('\n')
    while lines and lines[-1].strip() == '':
        lines.pop()
    pos = [0]

    def nxt(what):
        if pos[0] >= len(lines):
            raise FormatError('file ends where %s was expected' % what)
        ln = lines[pos[0]]
        pos[0] += 1
        return ln

    if nxt('ITEM: TIMESTEP').strip() != 'ITEM: TIMESTEP':
        raise FormatError('first line is not "ITEM: TIMESTEP"')
    t = nxt('the timestep').split()
    if len(t) != 1 or not is_int(t[0]):
        raise FormatError('timestep %r is not an integer' % (t,))
    out = dict(timestep=int(t[0]))
    if nxt('ITEM: NUMBER OF ATOMS').strip() != 'ITEM: NUMBER OF ATOMS':
        raise FormatError('third line is not "ITEM: NUMBER OF ATOMS"')
    t = nxt('the number of atoms').split()
    if len(t) != 1 or not is_int(t[0]) or int(t[0]) < 0:
        raise FormatError('number of atoms %r is not a non-negative integer' % (t,))
    out['natoms'] = int(t[0])
    bb = nxt('ITEM: BOX BOUNDS').split()
    if bb[:3] != ['ITEM:', 'BOX', 'BOUNDS']:
        raise FormatError('expected "ITEM: BOX BOUNDS", found %r' % ' '.join(bb))
    rest = bb[3:]
    tri = rest[:3] == ['xy', 'xz', 'yz']
    if tri:
        rest = rest[3:]
    if len(rest) != 3:
        raise FormatError('BOX BOUNDS line must end with three boundary flags, found %r' % (rest,))
    for f in rest:
        if len(f) != 2 or any(ch not in 'pfsm' for ch in f) or (('p' in f) and f != 'pp'):
            raise FormatError('boundary flag %r is not one of pp, ff, fs, fm, sf, ss, sm, mf, ms, mm' % f)
    out['triclinic'] = tri
    out['boundary'] = rest
    bounds, tilt = [], []
    for d in range(3):
        t = nxt('box bounds line %d' % (d + 1)).split()
        if len(t) != (3 if tri else 2):
            raise FormatError('box bounds line %d has %d numbers, expected %d' % (d + 1, len(t), 3 if tri else 2))
        for v in t:
            if not is_float(v):
                raise FormatError('box bounds line %d: %r is not a number' % (d + 1, v))
        bounds.append((t[0], t[1]))
        if tri:
            tilt.append(t[2])
    out['bounds'] = bounds
    out['tilt'] = tuple(tilt) if tri else None
    hdr = nxt('ITEM: ATOMS').split()
    if hdr[:2] != ['ITEM:', 'ATOMS']:
        raise FormatError('expected "ITEM: ATOMS ...", found %r' % ' '.join(hdr))
    cols = hdr[2:]
    if len(set(cols)) != len(cols):
        raise FormatError('duplicate column names in %r' % (cols,))
    out['columns'] = cols
    rows = []
    for k in range(out['natoms']):
        t = nxt('atom line %d of %d' % (k + 1, out['natoms'])).split()
        if len(t) != len(cols):
            raise FormatError('atom line %d has %d values for %d columns' % (k + 1, len(t), len(cols)))
        for c, v in zip(cols, t):
            if c in INT_COLUMNS:
                if not is_int(v):
                    raise FormatError('column %s holds %r, an integer is required' % (c, v))
            elif c != 'element' and not is_float(v):
                raise FormatError('column %s holds %r, a number is required' % (c, v))
        rows.append(t)
    if pos[0] != len(lines):
        raise FormatError('%d lines after the last atom line (first: %r)' % (len(lines) - pos[0], lines[pos[0]]))
    out['rows'] = rows
    return out
