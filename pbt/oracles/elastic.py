"""Reference linear-elasticity algebra, written from the textbook definitions (Nye, Physical Properties of
Crystals, ch. VIII; Voigt notation) with numpy only.  Never imports atomman.

Conventions
  Voigt index I <-> tensor index pair:  0:11  1:22  2:33  3:23  4:13  5:12
  stiffness   C_ijkl = C_IJ                                  (no weights)
  compliance  S_ijkl = S_IJ / (w_I w_J),  w = 1 (I<3) or 2   (so that eps_ij = S_ijkl sig_kl with tensor strain)
  engineering strain vector  e = (e11, e22, e33, 2e23, 2e13, 2e12),  stress vector s = (s11, s22, s33, s23, s13, s12)
  rotation R: rows are the new axes expressed in the old ones, C'_ijkl = R_ia R_jb R_kc R_ld C_abcd
"""
import math

import numpy as np

PAIRS = ((0, 0), (1, 1), (2, 2), (1, 2), (0, 2), (0, 1))
VI = np.array([[0, 5, 4], [5, 1, 3], [4, 3, 2]])
ORDER9 = (0, 1, 2, 3, 4, 5, 3, 4, 5)                    # 11 22 33 23 13 12 32 31 21
PAIRS9 = ((0, 0), (1, 1), (2, 2), (1, 2), (0, 2), (0, 1), (2, 1), (2, 0), (1, 0))
W = np.array([1.0, 1.0, 1.0, 2.0, 2.0, 2.0])
EPS = 2.220446049250313e-16


# ------------------------------------------------------------------ representations

def voigt_to_tensor(C6):
    C6 = np.asarray(C6, dtype=float)
    return C6[VI[:, :, None, None], VI[None, None, :, :]]


def tensor_to_voigt(C4):
    C4 = np.asarray(C4, dtype=float)
    out = np.empty((6, 6))
    for I, (i, j) in enumerate(PAIRS):
        for J, (k, l) in enumerate(PAIRS):
            out[I, J] = C4[i, j, k, l]
    return out


def voigt_to_9(C6):
    C6 = np.asarray(C6, dtype=float)
    o = np.array(ORDER9)
    return C6[o[:, None], o[None, :]]


def compliance_voigt(C6):
    return np.linalg.inv(np.asarray(C6, dtype=float))


def compliance_voigt_to_tensor(S6):
    S6 = np.asarray(S6, dtype=float) / (W[:, None] * W[None, :])
    return S6[VI[:, :, None, None], VI[None, None, :, :]]


def compliance_tensor_to_voigt(S4):
    return tensor_to_voigt(S4) * (W[:, None] * W[None, :])


def sym_identity():
    d = np.eye(3)
    return 0.5 * (np.einsum('im,jn->ijmn', d, d) + np.einsum('in,jm->ijmn', d, d))


def symmetry_defect(T4):
    """largest violation of the minor (ij<->ji, kl<->lk) and major (ij<->kl) symmetries"""
    T4 = np.asarray(T4, dtype=float)
    return max(np.abs(T4 - T4.transpose(1, 0, 2, 3)).max(), np.abs(T4 - T4.transpose(0, 1, 3, 2)).max(),
               np.abs(T4 - T4.transpose(2, 3, 0, 1)).max())


def strain_vector(eps):
    eps = np.asarray(eps, dtype=float)
    return np.array([eps[0, 0], eps[1, 1], eps[2, 2], 2 * eps[1, 2], 2 * eps[0, 2], 2 * eps[0, 1]])


def stress_vector(sig):
    sig = np.asarray(sig, dtype=float)
    return np.array([sig[0, 0], sig[1, 1], sig[2, 2], sig[1, 2], sig[0, 2], sig[0, 1]])


def nine_vector(t):
    t = np.asarray(t, dtype=float)
    return np.array([t[i, j] for (i, j) in PAIRS9])


# ------------------------------------------------------------------ rotations

def rotation_matrix(axis, angle_deg):
    """proper rotation (Rodrigues) about axis (any length) by angle in degrees; exact for multiples of 90"""
    a = np.asarray(axis, dtype=float)
    a = a / np.linalg.norm(a)
    q = angle_deg % 360.0
    table = {0.0: (0.0, 1.0), 90.0: (1.0, 0.0), 180.0: (0.0, -1.0), 270.0: (-1.0, 0.0)}
    if q in table:
        s, c = table[q]
    else:
        t = math.radians(angle_deg)
        s, c = math.sin(t), math.cos(t)
    K = np.array([[0, -a[2], a[1]], [a[2], 0, -a[0]], [-a[1], a[0], 0]])
    return np.eye(3) + s * K + (1 - c) * (K @ K)


def rotate_tensor(C4, R):
    R = np.asarray(R, dtype=float)
    T = np.einsum('ia,abcd->ibcd', R, C4)
    T = np.einsum('jb,ibcd->ijcd', R, T)
    T = np.einsum('kc,ijcd->ijkd', R, T)
    return np.einsum('ld,ijkd->ijkl', R, T)


def rotate_voigt(C6, R):
    return tensor_to_voigt(rotate_tensor(voigt_to_tensor(C6), R))


def bond_matrix(R):
    """6x6 Bond stress-transformation matrix K with C' = K C K^T (second, independent route)"""
    R = np.asarray(R, dtype=float)
    K = np.empty((6, 6))
    for I, (i, j) in enumerate(PAIRS):
        for J, (k, l) in enumerate(PAIRS):
            K[I, J] = R[i, k] * R[j, l] if k == l else R[i, k] * R[j, l] + R[i, l] * R[j, k]
    return K


def rotation_angle_deg(R):
    c = (np.trace(np.asarray(R, dtype=float)) - 1.0) / 2.0
    return math.degrees(math.acos(max(-1.0, min(1.0, c))))


# ------------------------------------------------------------------ crystal systems

def symmetry_generators(system, consts=None, angle=37.0):
    """list of (name, R) proper rotations that generate (a subgroup of) the point symmetry of a tensor written in the
    standard setting of the system.  consts decides the optional extra 2-fold (C16 == 0 / C15 == 0)."""
    x, y, z = (1, 0, 0), (0, 1, 0), (0, 0, 1)
    rot = rotation_matrix
    if system == 'isotropic':
        return [('z%g' % angle, rot(z, angle)), ('gen', rot((1, 2, 3), 71.3)), ('x90', rot(x, 90.0))]
    if system == 'cubic':
        return [('4x', rot(x, 90.0)), ('4y', rot(y, 90.0)), ('4z', rot(z, 90.0)), ('3[111]', rot((1, 1, 1), 120.0))]
    if system == 'hexagonal':
        return [('z%g' % angle, rot(z, angle)), ('6z', rot(z, 60.0)), ('2x', rot(x, 180.0))]
    if system == 'tetragonal':
        g = [('4z', rot(z, 90.0))]
        if consts is None or not consts.get('C16'):
            g.append(('2x', rot(x, 180.0)))
        return g
    if system == 'rhombohedral':
        g = [('3z', rot(z, 120.0))]
        if consts is None or not consts.get('C15'):
            g.append(('2x', rot(x, 180.0)))
        return g
    if system == 'orthorhombic':
        return [('2x', rot(x, 180.0)), ('2y', rot(y, 180.0)), ('2z', rot(z, 180.0))]
    if system == 'monoclinic':
        return [('2y', rot(y, 180.0))]
    if system == 'triclinic':
        return []
    raise ValueError(system)


# ------------------------------------------------------------------ isotropic moduli and averages

def isotropic_moduli(E, nu):
    """all six isotropic moduli from Young's modulus and Poisson's ratio (Landau & Lifshitz par. 5)"""
    G = E / (2.0 * (1.0 + nu))
    lam = E * nu / ((1.0 + nu) * (1.0 - 2.0 * nu))
    K = E / (3.0 * (1.0 - 2.0 * nu))
    M = E * (1.0 - nu) / ((1.0 + nu) * (1.0 - 2.0 * nu))
    return {'E': E, 'nu': nu, 'mu': G, 'lambda': lam, 'K': K, 'M': M}


def isotropic_voigt(lam, G):
    C = np.zeros((6, 6))
    C[:3, :3] = lam
    for i in range(3):
        C[i, i] = lam + 2 * G
        C[i + 3, i + 3] = G
    return C


def vrh(C6):
    """Voigt, Reuss and Hill bulk and shear moduli from the invariants of the 4-tensors:
    9 K_V = C_iijj, 30 G_V = 3 C_ijij - C_iijj, 1/K_R = S_iijj, 15/G_R = 2 (3 S_ijij - S_iijj)"""
    C4 = voigt_to_tensor(C6)
    S4 = compliance_voigt_to_tensor(compliance_voigt(C6))
    a, b = np.einsum('iijj->', C4), np.einsum('ijij->', C4)
    sa, sb = np.einsum('iijj->', S4), np.einsum('ijij->', S4)
    KV, GV = a / 9.0, (3 * b - a) / 30.0
    KR, GR = 1.0 / sa, 15.0 / (2.0 * (3 * sb - sa))
    return {('bulk', 'Voigt'): KV, ('bulk', 'Reuss'): KR, ('bulk', 'Hill'): (KV + KR) / 2,
            ('shear', 'Voigt'): GV, ('shear', 'Reuss'): GR, ('shear', 'Hill'): (GV + GR) / 2}
