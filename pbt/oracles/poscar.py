"""Independent reader for VASP POSCAR files, written from the POSCAR page of the VASP manual.

    line 1   comment
    line 2   universal scaling factor s (a positive number scales lengths; a negative one is the cell volume)
    line 3-5 lattice vectors; the actual vectors are s * (written numbers)
    line 6   (optional, VASP 5) species names, one per species
    line 7   number of ions per species
    line 8   (optional) "Selective dynamics" (first character S or s)
    next     coordinate mode: first character C, c, K or k = Cartesian, anything else = Direct
    then     one line per ion, species after species: three numbers (+ optional T/F flags).
             Direct: fractions of the (scaled) lattice vectors.
             Cartesian: the actual position is s * (written numbers) - the scaling factor applies to
             Cartesian coordinates as it does to the lattice vectors.
The format has no cell origin.
"""
from .lammps_data import is_int, is_float


class FormatError(Exception):
    """the text is not a well-formed POSCAR"""


def parse(text):
    """-> dict(comment, scale_tok, lattice_tok [[3 tokens]x3], symbols None|[..], counts [ints],
    selective bool, mode_line, cartesian bool, rows [[3 tokens]..])"""
    if not isinstance(text, str):
        raise FormatError('content is not text')
    lines = text.split('\n')
    while lines and lines[-1].strip() == '':
        lines.pop()
    if len(lines) < 7:
        raise FormatError('only %d lines' % len(lines))
    out = dict(comment=lines[0])
    t = lines[1].split()
    if len(t) != 1 or not is_float(t[0]):
        raise FormatError('line 2 (scaling factor) is %r' % lines[1])
    if float(t[0]) == 0.0:
        raise FormatError('scaling factor is zero')
    out['scale_tok'] = t[0]
    lat = []
    for k in range(2, 5):
        t = lines[k].split()
        if len(t) != 3 or not all(is_float(x) for x in t):
            raise FormatError('line %d (lattice vector) is %r' % (k + 1, lines[k]))
        lat.append(t)
    out['lattice_tok'] = lat
    k = 5
    t = lines[k].split()
    if not t:
        raise FormatError('line 6 is blank')
    symbols = None
    if not all(is_int(x) for x in t):
        if any(is_int(x) or is_float(x) for x in t):
            raise FormatError('line 6 mixes names and numbers: %r' % lines[k])
        symbols = t
        k += 1
        if k >= len(lines):
            raise FormatError('file ends after the species names')
        t = lines[k].split()
    if not t or not all(is_int(x) for x in t):
        raise FormatError('ions-per-species line is %r' % lines[k])
    counts = [int(x) for x in t]
    if any(c < 0 for c in counts):
        raise FormatError('negative ion count in %r' % lines[k])
    if symbols is not None and len(symbols) != len(counts):
        raise FormatError('%d species names but %d ion counts' % (len(symbols), len(counts)))
    out['symbols'] = symbols
    out['counts'] = counts
    k += 1
    if k >= len(lines):
        raise FormatError('file ends before the coordinate mode line')
    out['selective'] = False
    if lines[k].strip()[:1] in ('S', 's'):
        out['selective'] = True
        k += 1
        if k >= len(lines):
            raise FormatError('file ends before the coordinate mode line')
    mode = lines[k].strip()
    if mode == '':
        raise FormatError('coordinate mode line is blank')
    if is_float(mode.split()[0]):
        raise FormatError('coordinate mode line is missing (found numbers %r)' % mode)
    out['mode_line'] = mode
    out['cartesian'] = mode[0] in 'CcKk'
    k += 1
    n = sum(counts)
    rows = []
    for a in range(n):
        if k >= len(lines):
            raise FormatError('file ends after %d of %d ion lines' % (a, n))
        t = lines[k].split()
        if len(t) < 3 or not all(is_float(x) for x in t[:3]):
            raise FormatError('ion line %d is %r' % (a + 1, lines[k]))
        if len(t) > 3 and not (out['selective'] and len(t) == 6 and all(x in ('T', 'F') for x in t[3:])):
            raise FormatError('ion line %d has trailing fields %r' % (a + 1, t[3:]))
        rows.append(t[:3])
        k += 1
    # what follows the positions (velocities, MD extras) is optional; for a freshly written structure file
    # anything non-blank directly after the last ion would be read by VASP as velocities
    extra = [l for l in lines[k:] if l.strip() != '']
    if extra:
        raise FormatError('%d non-blank lines after the last of %d ions (first: %r)' % (len(extra), n, extra[0]))
    out['rows'] = rows
    return out
