"""Independent record-per-atom model of atomman.Atoms / System per-atom data (used by C06).

Never imports atomman.  The state is a list of *records* (one dict per atom, name -> immutable Python
value: scalar or nested tuple), a schema name -> (kind, trailing shape), and the per-type lists symbols /
masses plus pbc.  Row selection is done with Python list semantics (int, negative int, slice, int list,
bool mask) - numpy indexing is never used to decide which rows an operation touches.

kinds:  't' atom type (int >= 1)   'i' int64   'f' float64 (dyadic values only)   'b' bool   's' '<U4'
"""
from collections import OrderedDict

import numpy as np

DT = {'t': 'int64', 'i': 'int64', 'f': 'float64', 'b': 'bool', 's': '<U4'}
DEFAULT = {'t': 1, 'i': 0, 'f': 0.0, 'b': False, 's': ''}
NPKIND = {'t': 'iu', 'i': 'iu', 'f': 'f', 'b': 'b', 's': 'U'}
STRS = ['a', 'b', 'Al', 'Cu', 'xyz', 'abcd', 'Fe', 'O', 'w1', 'H2o', 'zzzz', 'Ni', '', 'q', 'Mg', 'u235']

# user-defined property pool: name -> (kind, trailing shape); names never collide with Atoms attributes
POOL = [('i0', 'i', ()), ('f0', 'f', ()), ('b0', 'b', ()), ('s0', 's', ()), ('f3', 'f', (3,)),
        ('i3', 'i', (3,)), ('m22', 'f', (2, 2)), ('s3', 's', (3,)), ('b3', 'b', (3,)), ('i22', 'i', (2, 2))]
BUILTIN = [('atype', 't', ()), ('pos', 'f', (3,))]
KINDS = OrderedDict((n, (k, s)) for n, k, s in BUILTIN + POOL)
ALLNAMES = list(KINDS)


def size_of(tshape):
    n = 1
    for d in tshape:
        n *= d
    return n


def nest(flat, tshape):
    """nested tuple of shape tshape from a flat list (scalar if tshape == ())"""
    if tshape == ():
        return flat[0]
    if len(tshape) == 1:
        return tuple(flat[:tshape[0]])
    step = size_of(tshape[1:])
    return tuple(nest(flat[i * step:(i + 1) * step], tshape[1:]) for i in range(tshape[0]))


def tolist(v):
    """nested tuple -> nested list (for passing to the code under test)"""
    if isinstance(v, tuple):
        return [tolist(x) for x in v]
    return v


def cut(v, w):
    if isinstance(v, tuple):
        return tuple(cut(x, w) for x in v)
    return v[:w]


def default_value(kind, tshape):
    return nest([DEFAULT[kind]] * size_of(tshape), tshape)


class Src:
    """deterministic value source: expands a short list of drawn integers into values of any kind/shape"""

    def __init__(self, vals, tmax=5, whole=False, mode=None):
        self.v = [int(x) for x in vals] or [0]
        self.j = 0
        self.tmax = max(1, int(tmax))
        # mode of the float values (ignored when whole numbers are asked for); every value stays a dyadic rational with few
        # significant bits, so that storing, reading and the cell arithmetic of the scaled routes remain exact:
        #   None    r/8
        #   'tiny'  near-threshold values: a whole number (often 0) plus or minus 2**-e, e = 10..38 (3e-12 ... 1e-3 away from
        #           a whole number / from zero / from the neighbouring rows)
        #   'dec'   many decades in one argument: every row (one() call) is r/8 times its own power of two 2**d, d = -30..30
        if mode not in (None, 'tiny', 'dec'):
            raise ValueError(mode)
        self.mode = mode
        self.rowexp = 0
        self.exps = []           # the row exponents handed out in mode 'dec' (for the labels)
        # float values are whole numbers (so that they can also be handed over integer-typed): True any whole number,
        # 'u' non-negative whole numbers (fit an unsigned dtype), 'b' 0.0 / 1.0 (fit bool)
        if whole not in (False, True, 'u', 'b'):
            raise ValueError(whole)
        self.whole = whole

    def raw(self):
        L = len(self.v)
        r = self.v[self.j % L] + 3 * (self.j // L)
        self.j += 1
        return r

    def scalar(self, kind):
        r = self.raw()
        if kind == 'i':
            return int(r)
        if kind == 'f':
            if self.whole == 'u':
                return float(abs(r))
            if self.whole == 'b':
                return float(r % 2)
            if self.whole:
                return float(r)
            if self.mode == 'tiny':
                r2 = self.raw()
                return float(r % 5 - 2) + (-1.0 if r2 < 0 else 1.0) * 2.0 ** -(10 + abs(r2) % 29)
            if self.mode == 'dec':
                return (r / 8.0) * 2.0 ** self.rowexp
            return r / 8.0
        if kind == 'b':
            return bool(r % 2 == 1)
        if kind == 's':
            return STRS[r % len(STRS)]
        if kind == 't':
            return 1 + abs(r) % self.tmax
        raise ValueError(kind)

    def one(self, kind, tshape):
        if self.mode == 'dec' and kind == 'f' and not self.whole:
            self.rowexp = self.raw() % 61 - 30
            self.exps.append(self.rowexp)
        return nest([self.scalar(kind) for _ in range(size_of(tshape))], tshape)

    def many(self, kind, tshape, count):
        return [self.one(kind, tshape) for _ in range(count)]


def to_array(values, kind, tshape):
    """stack a list of row values into an ndarray (count,)+tshape of the model dtype"""
    return np.array([tolist(v) for v in values], dtype=DT[kind]).reshape((len(values),) + tuple(tshape))


def resolve_index(spec, n):
    """index spec (JSON) + current natoms -> (python index object description, list of selected rows in order)

    returns (form, obj, sel): form in 'int','slice','list','mask','all'; obj a plain Python object
    (int / slice / list of int / list of bool / None); sel the selected row numbers (>= 0) in order.
    n must be >= 1.
    """
    k = spec['k']
    if k == 'all':
        return 'all', None, list(range(n))
    if k == 'int':
        i = spec['a'] % n
        return 'int', i, [i]
    if k == 'neg':
        i = -(1 + spec['a'] % n)
        return 'int', i, [n + i]
    if k == 'slice':
        sl = slice(spec['a'], spec['b'], spec['c'])
        return 'slice', sl, list(range(n))[sl]
    if k == 'list':
        out = []
        for x in spec['l']:
            out.append(x % n if x >= 0 else -(1 + (-x - 1) % n))
        return 'list', out, [i if i >= 0 else n + i for i in out]
    if k == 'mask':
        m = [bool((spec['a'] >> j) & 1) for j in range(n)]
        return 'mask', m, [j for j in range(n) if m[j]]
    if k == 'perm':
        return perm_index(spec, n)
    raise ValueError(k)


PERMS = ['identity', 'reverse', 'cyclic', 'negative', 'affine', 'halves']


def perm_index(spec, n):
    """exactly structured selections of ALL atoms: spec['p'] names the permutation (PERMS), spec['f'] the form it is
    written in (list / slice / mask), spec['sh'] a shift.  Forms that cannot express the permutation fall back to the
    closest structured one (documented next to each)."""
    p = PERMS[spec['p'] % len(PERMS)]
    f = spec['f']
    sh = int(spec.get('sh', 0))
    ident = list(range(n))
    if f == 'mask':
        # a mask cannot reorder: all True for every permutation but 'reverse', which stands for all False
        m = [p != 'reverse'] * n
        return 'mask', m, [j for j in range(n) if m[j]]
    if f == 'slice':
        sl = {'identity': slice(0, n), 'reverse': slice(None, None, -1), 'cyclic': slice(-n, None), 'negative': slice(-n, n, 1),
              'affine': slice(n - 1, None, -1) if n > 1 else slice(0, 1), 'halves': slice(None, n)}[p]
        if p == 'affine' and n > 1:
            sl = slice(n - 1, -n - 1, -1)
        return 'slice', sl, ident[sl]
    if p == 'identity':
        out = ident
    elif p == 'reverse':
        out = ident[::-1]
    elif p == 'cyclic':
        k = 1 + sh % n
        out = [(i + k) % n for i in ident]
    elif p == 'negative':
        out = [i - n for i in ident]
    elif p == 'affine':
        a = 1 + sh % n
        while _gcd(a, n) != 1:
            a += 1
        out = [(a * i + sh) % n for i in ident]
    else:
        h = n // 2
        out = ident[h:] + ident[:h]
    return 'list', out, [i if i >= 0 else n + i for i in out]


def _gcd(a, b):
    while b:
        a, b = b, a % b
    return a


def from_array(arr, kind, tshape, count):
    """rows (model values) of an array_like of leading length 1 or count, or a single per-atom value, cast to the model dtype
    with numpy's assignment semantics"""
    a = np.asarray(arr).astype(DT[kind])
    if a.shape == tuple(tshape):
        a = a.reshape((1,) + tuple(tshape))
    if a.shape[0] == 1 and count != 1:
        a = np.broadcast_to(a, (count,) + tuple(tshape))
    flat = a.reshape(count, -1).tolist() if size_of(tshape) else []
    conv = {'t': int, 'i': int, 'f': float, 'b': bool, 's': str}[kind]
    return [nest([conv(x) for x in row], tuple(tshape)) for row in flat]


class Model:
    def __init__(self):
        self.rows = []
        self.schema = OrderedDict()
        self.symbols = []
        self.masses = []
        self.pbc = [True, True, True]
        self.width = {}      # stored character width of string properties (default 4 = the width they are created with)

    # ---- basic
    @property
    def n(self):
        return len(self.rows)

    def natypes_atoms(self):
        return max(r['atype'] for r in self.rows)

    def natypes_system(self):
        return max(len(self.symbols), self.natypes_atoms())

    def pad(self):
        """what the symbols / masses getters do when read: pad with None up to the number of types (persistent)"""
        na = self.natypes_atoms()
        while len(self.symbols) < na:
            self.symbols.append(None)
        ns = self.natypes_system()
        while len(self.masses) < ns:
            self.masses.append(None)

    def snapshot(self):
        return [dict(r) for r in self.rows], OrderedDict(self.schema)

    def stack(self, name, rows=None):
        rows = self.rows if rows is None else rows
        kind, tshape = self.schema[name]
        return to_array([r[name] for r in rows], kind, tshape)

    def select(self, sel):
        return [dict(self.rows[i]) for i in sel]

    # ---- writes
    def cast(self, name, v):
        """numpy assignment semantics for writing into an existing '<Uw' array: longer strings are cut to w characters"""
        if KINDS[name][0] != 's':
            return v
        return cut(v, self.width.get(name, 4))

    def set_all(self, name, values):
        """values: one value per atom; creates the property if needed"""
        if name not in self.schema:
            self.schema[name] = KINDS[name]
        assert len(values) == len(self.rows)
        for r, v in zip(self.rows, values):
            r[name] = self.cast(name, v)

    def set_rows(self, name, sel, values):
        """sequential assignment (a repeated row keeps the last value, as numpy documents)"""
        if len(values) == 1 and len(sel) != 1:
            values = list(values) * len(sel)
        assert len(values) == len(sel)
        for i, v in zip(sel, values):
            self.rows[i][name] = self.cast(name, v)

    def extended(self, orows, oschema):
        """rows/schema of self.extend(other): own rows then other's rows; a property missing on one side
        gets the default value (0 / False / '' ; atype and pos exist on both sides); other's values are written
        into arrays of self's dtype where self has the property"""
        rows, schema = self.rows, self.schema
        ns = OrderedDict(schema)
        for k, v in oschema.items():
            if k not in ns:
                ns[k] = v
        out = []
        for r in rows:
            out.append({k: (r[k] if k in r else default_value(*ns[k])) for k in ns})
        for r in orows:
            out.append({k: ((self.cast(k, r[k]) if k in schema else r[k]) if k in r else default_value(*ns[k])) for k in ns})
        return out, ns
