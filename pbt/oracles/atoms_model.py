"""Independent record-per-atom model of atomman.Atoms / System per-atom data (used by C06).

Never imports atomman.  The state is a list of *records* (one dict per atom, name -> immutable Python
value: scalar or nested tuple), a schema name -> (kind, trailing shape), and the per-type lists symbols /
masses plus pbc.  Row selection is done with Python list semantics (int, negative int, slice, int list,
bool mask) - numpy indexing is never used to decide which rows an operation touches.

kinds:  't' atom type (int >= 1)   'i' int64   'f' float64 (dyadic values only)   'b' bool   's' '<U4'
"""
from collections import OrderedDict

import numpy as np

DT = {'t': 'int64', 'i': 'int64', 'f': 'float64', 'b': 'bool', 's': '<U4'}
DEFAULT = {'t': 1, 'i': 0, 'f': 0.0, 'b': False, 's': ''}
NPKIND = {'t': 'iu', 'i': 'iu', 'f': 'f', 'b': 'b', 's': 'U'}
STRS = ['a', 'b', 'Al', 'Cu', 'xyz', 'abcd', 'Fe', 'O', 'w1', 'H2o', 'zzzz', 'Ni', '', 'q', 'Mg', 'u235']

# user-defined property pool: name -> (kind, trailing shape); names never collide with Atoms attributes
POOL = [('i0', 'i', ()), ('f0', 'f', ()), ('b0', 'b', ()), ('s0', 's', ()), ('f3', 'f', (3,)),
        ('i3', 'i', (3,)), ('m22', 'f', (2, 2)), ('s3', 's', (3,)), ('b3', 'b', (3,)), ('i22', 'i', (2, 2))]
BUILTIN = [('atype', 't', ()), ('pos', 'f', (3,))]
KINDS = OrderedDict((n, (k, s)) for n, k, s in BUILTIN + POOL)
ALLNAMES = list(KINDS)


def size_of(tshape):
    n = 1
    for d in tshape:
        n *= d
    return n


def nest(flat, tshape):
    """nested tuple of shape tshape from a flat list (scalar if tshape == ())"""
    if tshape == ():
        return flat[0]
    if len(tshape) == 1:
        return tuple(flat[:tshape[0]])
    step = size_of(tshape[1:])
    return tuple(nest(flat[i * step:(i + 1) * step], tshape[1:]) for i in range(tshape[0]))


def tolist(v):
    """nested tuple -> nested list (for passing to the code under test)"""
    if isinstance(v, tuple):
        return [tolist(x) for x in v]
    return v


def cut(v, w):
    if isinstance(v, tuple):
        return tuple(cut(x, w) for x in v)
    return v[:w]


def default_value(kind, tshape):
    return nest([DEFAULT[kind]] * size_of(tshape), tshape)


class Src:
    """deterministic value source: expands a short list of drawn integers into values of any kind/shape"""

    def __init__(self, vals, tmax=5, whole=False):
        self.v = [int(x) for x in vals] or [0]
        self.j = 0
        self.tmax = max(1, int(tmax))
        # float values are whole numbers (so that they can also be handed over integer-typed): True any whole number,
        # 'u' non-negative whole numbers (fit an unsigned dtype), 'b' 0.0 / 1.0 (fit bool)
        if whole not in (False, True, 'u', 'b'):
            raise ValueError(whole)
        self.whole = whole

    def raw(self):
        L = len(self.v)
        r = self.v[self.j % L] + 3 * (self.j // L)
        self.j += 1
        return r

    def scalar(self, kind):
        r = self.raw()
        if kind == 'i':
            return int(r)
        if kind == 'f':
            if self.whole == 'u':
                return float(abs(r))
            if self.whole == 'b':
                return float(r % 2)
            return float(r) if self.whole else r / 8.0
        if kind == 'b':
            return bool(r % 2 == 1)
        if kind == 's':
            return STRS[r % len(STRS)]
        if kind == 't':
            return 1 + abs(r) % self.tmax
        raise ValueError(kind)

    def one(self, kind, tshape):
        return nest([self.scalar(kind) for _ in range(size_of(tshape))], tshape)

    def many(self, kind, tshape, count):
        return [self.one(kind, tshape) for _ in range(count)]


def to_array(values, kind, tshape):
    """stack a list of row values into an ndarray (count,)+tshape of the model dtype"""
    return np.array([tolist(v) for v in values], dtype=DT[kind]).reshape((len(values),) + tuple(tshape))


def resolve_index(spec, n):
    """index spec (JSON) + current natoms -> (python index object description, list of selected rows in order)

    returns (form, obj, sel): form in 'int','slice','list','mask','all'; obj a plain Python object
    (int / slice / list of int / list of bool / None); sel the selected row numbers (>= 0) in order.
    n must be >= 1.
    """
    k = spec['k']
    if k == 'all':
        return 'all', None, list(range(n))
    if k == 'int':
        i = spec['a'] % n
        return 'int', i, [i]
    if k == 'neg':
        i = -(1 + spec['a'] % n)
        return 'int', i, [n + i]
    if k == 'slice':
        sl = slice(spec['a'], spec['b'], spec['c'])
        return 'slice', sl, list(range(n))[sl]
    if k == 'list':
        out = []
        for x in spec['l']:
            out.append(x % n if x >= 0 else -(1 + (-x - 1) % n))
        return 'list', out, [i if i >= 0 else n + i for i in out]
    if k == 'mask':
        m = [bool((spec['a'] >> j) & 1) for j in range(n)]
        return 'mask', m, [j for j in range(n) if m[j]]
    raise ValueError(k)


class Model:
    def __init__(self):
        self.rows = []
        self.schema = OrderedDict()
        self.symbols = []
        self.masses = []
        self.pbc = [True, True, True]
        self.width = {}      # stored character width of string properties (default 4 = the width they are created with)

    # ---- basic
    @property
    def n(self):
        return len(self.rows)

    def natypes_atoms(self):
        return max(r['atype'] for r in self.rows)

    def natypes_system(self):
        return max(len(self.symbols), self.natypes_atoms())

    def pad(self):
        """what the symbols / masses getters do when read: pad with None up to the number of types (persistent)"""
        na = self.natypes_atoms()
        while len(self.symbols) < na:
            self.symbols.append(None)
        ns = self.natypes_system()
        while len(self.masses) < ns:
            self.masses.append(None)

    def snapshot(self):
        return [dict(r) for r in self.rows], OrderedDict(self.schema)

    def stack(self, name, rows=None):
        rows = self.rows if rows is None else rows
        kind, tshape = self.schema[name]
        return to_array([r[name] for r in rows], kind, tshape)

    def select(self, sel):
        return [dict(self.rows[i]) for i in sel]

    # ---- writes
    def cast(self, name, v):
        """numpy assignment semantics for writing into an existing '<Uw' array: longer strings are cut to w characters"""
        if KINDS[name][0] != 's':
            return v
        return cut(v, self.width.get(name, 4))

    def set_all(self, name, values):
        """values: one value per atom; creates the property if needed"""
        if name not in self.schema:
            self.schema[name] = KINDS[name]
        assert len(values) == len(self.rows)
        for r, v in zip(self.rows, values):
            r[name] = self.cast(name, v)

    def set_rows(self, name, sel, values):
        """sequential assignment (a repeated row keeps the last value, as numpy documents)"""
        if len(values) == 1 and len(sel) != 1:
            values = list(values) * len(sel)
        assert len(values) == len(sel)
        for i, v in zip(sel, values):
            self.rows[i][name] = self.cast(name, v)

    def extended(self, orows, oschema):
        """rows/schema of self.extend(other): own rows then other's rows; a property missing on one side
        gets the default value (0 / False / '' ; atype and pos exist on both sides); other's values are written
        into arrays of self's dtype where self has the property"""
        rows, schema = self.rows, self.schema
        ns = OrderedDict(schema)
        for k, v in oschema.items():
            if k not in ns:
                ns[k] = v
        out = []
        for r in rows:
            out.append({k: (r[k] if k in r else default_value(*ns[k])) for k in ns})
        for r in orows:
            out.append({k: ((self.cast(k, r[k]) if k in schema else r[k]) if k in r else default_value(*ns[k])) for k in ns})
        return out, ns
