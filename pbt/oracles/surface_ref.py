"""Reference arithmetic for C14 (surface-oriented cells, terminations, stacking faults).

Pure Python / numpy, exact integer arithmetic wherever the statement is about indices; never imports atomman.

Conventions
-----------
``V``        3x3 float matrix, rows = cell vectors of the cell handed to atomman (the *primitive* cell when a centred
             setting is named).
``setting``  'p','a','b','c','i','f','t1','t2'.  PN[setting]/DEN[setting] has as row i the i-th primitive cell vector
             in indices of the conventional cell (the standard centring choices; this table is the *definition* of
             which conventional cell a primitive box belongs to, i.e. input-side convention data).
``hkl``      three Python ints, plane indices relative to the conventional cell.
``rows``     3x3 Python ints, lattice vectors in indices of the cell handed to atomman.
"""
import math
from fractions import Fraction

import numpy as np

PN = {
    'p': ((1, 0, 0), (0, 1, 0), (0, 0, 1)),
    'a': ((2, 0, 0), (0, 1, 1), (0, -1, 1)),
    'b': ((1, 0, 1), (0, 2, 0), (-1, 0, 1)),
    'c': ((1, 1, 0), (-1, 1, 0), (0, 0, 2)),
    'i': ((1, 1, 1), (-1, 1, -1), (-1, -1, 1)),
    'f': ((1, 1, 0), (0, 1, 1), (1, 0, 1)),
    't1': ((2, 1, 1), (-1, 1, 1), (-1, -2, 1)),
    't2': ((-2, -1, 1), (1, -1, 1), (1, 2, 1)),
}
DEN = {'p': 1, 'a': 2, 'b': 2, 'c': 2, 'i': 2, 'f': 2, 't1': 3, 't2': 3}
NCENTER = {'p': 1, 'a': 2, 'b': 2, 'c': 2, 'i': 2, 'f': 4, 't1': 3, 't2': 3}


def idet(M):
    (a, b, c), (d, e, f), (g, h, i) = [[int(x) for x in r] for r in M]
    return a * (e * i - f * h) - b * (d * i - f * g) + c * (d * h - e * g)


def icross(u, v):
    u = [int(x) for x in u]
    v = [int(x) for x in v]
    return [u[1] * v[2] - u[2] * v[1], u[2] * v[0] - u[0] * v[2], u[0] * v[1] - u[1] * v[0]]


def imatvec(row, M):
    """row (3 ints) times 3x3 int matrix"""
    return [sum(int(row[k]) * int(M[k][j]) for k in range(3)) for j in range(3)]


def prim_vects(Vconv, setting):
    """rows of the primitive cell from the rows of the conventional cell"""
    return np.array(PN[setting], dtype=float) @ np.asarray(Vconv, dtype=float) / DEN[setting]


def conv_vects(Vprim, setting):
    """rows of the conventional cell belonging to a primitive cell (solve PN/DEN . Vc = Vp)"""
    return np.linalg.solve(np.array(PN[setting], dtype=float) / DEN[setting], np.asarray(Vprim, dtype=float))


def conv_to_prim_matrix(setting):
    """exact integer matrix C with  (conventional indices) . C = primitive indices  (inverse of PN/DEN)"""
    P = [[Fraction(x, DEN[setting]) for x in r] for r in PN[setting]]
    d = (P[0][0] * (P[1][1] * P[2][2] - P[1][2] * P[2][1]) - P[0][1] * (P[1][0] * P[2][2] - P[1][2] * P[2][0])
         + P[0][2] * (P[1][0] * P[2][1] - P[1][1] * P[2][0]))
    adj = [[(P[(j + 1) % 3][(i + 1) % 3] * P[(j + 2) % 3][(i + 2) % 3]
             - P[(j + 1) % 3][(i + 2) % 3] * P[(j + 2) % 3][(i + 1) % 3]) for j in range(3)] for i in range(3)]
    C = [[adj[i][j] / d for j in range(3)] for i in range(3)]
    assert all(x.denominator == 1 for r in C for x in r)
    return [[int(x) for x in r] for r in C]


def recip_rows(V):
    """reciprocal vectors (no 2 pi) as rows: a* = b x c / vol, ..."""
    V = np.asarray(V, dtype=float)
    vol = float(np.dot(V[0], np.cross(V[1], V[2])))
    return np.array([np.cross(V[1], V[2]), np.cross(V[2], V[0]), np.cross(V[0], V[1])]) / vol


def plane_g(hkl, Vprim, setting):
    """Cartesian reciprocal-lattice vector h a* + k b* + l c* of the conventional cell"""
    return np.array([int(x) for x in hkl], dtype=float) @ recip_rows(conv_vects(Vprim, setting))


def zone_numerators(hkl, rows, setting):
    """DEN * (h u + k v + l w) for every row, u v w being the row in conventional indices: exact ints"""
    out = []
    for r in rows:
        conv = imatvec(r, PN[setting])
        out.append(sum(int(h) * c for h, c in zip(hkl, conv)))
    return out


def lattice_period_numerator(hkl, setting):
    """gcd over the three primitive cell vectors of DEN*(hkl . vector): the smallest positive value of
    DEN * (hkl . lattice vector); interplanar period of the *lattice* along the normal = this / (DEN |g|)"""
    q = [sum(int(h) * c for h, c in zip(hkl, PN[setting][i])) for i in range(3)]
    return math.gcd(math.gcd(abs(q[0]), abs(q[1])), abs(q[2]))


def hex_plane4to3(hkil):
    h, k, i, l = [int(x) for x in hkil]
    assert h + k + i == 0
    return [h, k, l]


def hex_vector4to3_times3(rows4):
    """[u,v,t,w] (possibly thirds) -> 3*[U,V,W] with U = u - t, V = v - t, W = w as floats"""
    r = np.asarray(rows4, dtype=float)
    return 3.0 * np.stack([r[:, 0] - r[:, 2], r[:, 1] - r[:, 2], r[:, 3]], axis=1)


def default_maxindex(hkl, setting):
    """largest |index| among hkl and two in-plane seed vectors of the standard lcm construction, the seeds expressed
    in the primitive cell (used only to bound the retry of a documented 'Failed to find' refusal)"""
    h, k, l = [int(x) for x in hkl]
    nz = [x for x in (h, k, l) if x]
    m = 1
    for x in nz:
        m = m * abs(x) // math.gcd(m, abs(x))
    seeds = []
    idx = [i for i, x in enumerate((h, k, l)) if x]
    zer = [i for i, x in enumerate((h, k, l)) if not x]
    v = (h, k, l)
    if len(idx) == 3:
        seeds = [[-m // h, m // k, 0], [-m // h, 0, m // l]]
    elif len(idx) == 2:
        i, j = idx
        s = [0, 0, 0]
        s[i] = -m // v[i]
        s[j] = m // v[j]
        e = [0, 0, 0]
        e[zer[0]] = 1
        seeds = [s, e]
    else:
        for z in zer:
            e = [0, 0, 0]
            e[z] = 1
            seeds.append(e)
    C = conv_to_prim_matrix(setting)
    seeds = [imatvec(s, C) for s in seeds]
    return max([abs(x) for s in seeds for x in s] + [abs(h), abs(k), abs(l)])


def lammps_frame(W):
    """rotation T (rows e_x, e_y, e_z) taking the right-handed rows W into LAMMPS orientation: W @ T.T is lower
    triangular with positive diagonal; r' = T r"""
    W = np.asarray(W, dtype=float)
    ex = W[0] / np.linalg.norm(W[0])
    y = W[1] - np.dot(W[1], ex) * ex
    ey = y / np.linalg.norm(y)
    ez = np.cross(ex, ey)
    return np.array([ex, ey, ez])


def distinct_layers(heights, period, tol_same, tol_apart):
    """heights modulo period clustered into layers.
    returns (layers sorted in [0,period), ambiguous flag): two heights closer than tol_same (circularly) are one
    layer, farther than tol_apart are two; anything in between makes the layer structure ambiguous"""
    h = np.mod(np.asarray(heights, dtype=float), period)
    h = np.sort(np.where(h >= period, 0.0, h))        # mod can return period itself through rounding (-1e-17)
    if len(h) == 0:
        return np.array([]), False
    layers = [h[0]]
    amb = False
    for x in h[1:]:
        d = x - layers[-1]
        if d <= tol_same:
            continue
        if d < tol_apart:
            amb = True
        layers.append(x)
    if len(layers) > 1:
        d = layers[0] + period - layers[-1]
        if d <= tol_same:
            layers.pop()
        elif d < tol_apart:
            amb = True
    # chains of near-equal heights can stretch a layer: treat as ambiguous if a layer spans more than tol_same
    return np.array(layers), amb
