"""Independent reference code for neighbour lists (numpy only, never imports atomman).

Conventions as in nearest_image.py: ``V`` rows are the cell vectors, ``o`` the origin, ``pbc`` three bools.

* ``periodic_distances``  : the periodic distance "in the sense of C02", i.e. the shortest of the 27 (9/3/1)
  candidates p_j - p_i + n.V with n_i in {-1,0,1} on periodic axes (uses nearest_image.candidates27 for the
  shift table), for all pairs at once.
* ``Rebin``               : an independent re-computation of the cutoff-sized binning of an orthogonal
  superbox padded by 1.01*cutoff, with the periodic images ("ghosts") that fall inside the superbox.  It is
  used (a) to classify cases (does a bin exist that holds only ghosts?  did a bin exceed 40 entries?) and
  (b) to decide *of which kind* a missing pair is: ``sweep_finds(i, j, which)`` answers whether a half-stencil
  sweep over the bin set ``which`` ('occupied' = every bin holding a real atom or a ghost, 'real' = only bins
  holding a real atom) compares some copy of i with some copy of j.  A pair that is compared under 'occupied'
  and not under 'real' is adjacent only through a ghost-only bin.
"""
import itertools

import numpy as np

from .nearest_image import candidates27

EPS = 2.220446049250313e-16


def periodic_distances(pos, V, pbc):
    """(D, D0, L2min): D[i,j] = min over the 27/9/3/1 candidates of |p_j - p_i + n.V|, D0 = direct distances,
    L2min = D squared before the square root (exact when all inputs are small dyadic numbers)"""
    pos = np.asarray(pos, dtype=float)
    V = np.asarray(V, dtype=float)
    n, _ = candidates27(np.zeros(3), V, pbc)
    img = n.astype(float) @ V                                   # (M,3), first row is zero
    d0 = pos[None, :, :] - pos[:, None, :]                      # d0[i,j] = p_j - p_i
    d = d0[:, :, None, :] + img[None, None, :, :]
    L2 = (d * d).sum(axis=-1)
    L2min = L2.min(axis=-1)
    D = np.sqrt(L2min)
    D0 = np.sqrt(L2[:, :, 0])
    return D, D0, L2min


def is_small_dyadic(*arrays, bits=6, bound=2 ** 9):
    """every number is a multiple of 2**-bits (or of 2**-20 for scalars passed with bits=20) below bound in magnitude"""
    for a in arrays:
        a = np.asarray(a, dtype=float)
        x = a * (2 ** bits)
        if not (np.all(np.abs(a) < bound) and np.all(x == np.rint(x))):
            return False
    return True


def distance_rounding(pos, V):
    """absolute rounding bound of a computed periodic distance: a few ulps of the largest coordinate / cell
    component entering the sum"""
    return 64 * EPS * float(np.abs(pos).max() + np.abs(V).sum())


def _lex_zyx(b):
    return (b[2], b[1], b[0])


class Rebin:
    """cutoff-sized bins over the padded orthogonal superbox of the cell; real atoms and in-superbox ghosts"""

    def __init__(self, pos, V, o, pbc, cutoff, pad=1.01):
        pos = np.asarray(pos, dtype=float)
        V = np.asarray(V, dtype=float)
        o = np.asarray(o, dtype=float)
        self.N = N = len(pos)
        smin = o.copy()
        smax = o.copy()
        for z in (0, 1):
            for y in (0, 1):
                for x in (0, 1):
                    corner = o + x * V[0] + y * V[1] + z * V[2]
                    smin = np.minimum(smin, corner)
                    smax = np.maximum(smax, corner)
        self.smin = smin = smin - pad * cutoff
        self.smax = smax = smax + pad * cutoff
        self.edges = [np.arange(smin[k], smax[k] + cutoff, cutoff) for k in range(3)]
        self.nbins = tuple(len(e) for e in self.edges)
        atom = list(range(N))
        shift = [(0, 0, 0)] * N
        cpos = [pos]
        rngs = [(-1, 0, 1) if p else (0,) for p in pbc]
        for n in itertools.product(*rngs):
            if n == (0, 0, 0):
                continue
            g = n[0] * V[0] + n[1] * V[1] + n[2] * V[2] + pos
            ok = np.all((g > smin) & (g < smax), axis=1)
            idx = np.nonzero(ok)[0]
            atom.extend(int(i) for i in idx)
            shift.extend([n] * len(idx))
            cpos.append(g[ok])
        self.atom = atom
        self.shift = shift
        self.cpos = np.vstack(cpos)
        self.bins = np.stack([np.digitize(self.cpos[:, k], self.edges[k]) - 1 for k in range(3)], axis=1)
        tb = [tuple(r) for r in self.bins.tolist()]
        self.tbins = tb
        self.real = set(tb[:N])
        self.occupied = set(tb)
        occ = {}
        for b in tb:
            occ[b] = occ.get(b, 0) + 1
        self.max_occupancy = max(occ.values()) if occ else 0
        self.ghost_only = self.occupied - self.real

    def copies(self, i):
        return [k for k, a in enumerate(self.atom) if a == i]

    def sweep_finds(self, i, j, which):
        """does a half-stencil sweep over the bin set compare a copy of i with a copy of j?  The sweep takes each
        bin B of the set and compares the entries of B with each other and with the entries of the 13 bins that
        precede B in (z,y,x) order among its 26 neighbours.  So a pair of copies in bins Bi, Bj (equal or
        adjacent) is compared exactly when the later of the two in (z,y,x) order belongs to the set."""
        S = self.real if which == 'real' else self.occupied
        for p in self.copies(i):
            bp = self.tbins[p]
            for q in self.copies(j):
                bq = self.tbins[q]
                if max(abs(bp[0] - bq[0]), abs(bp[1] - bq[1]), abs(bp[2] - bq[2])) > 1:
                    continue
                upper = bp if _lex_zyx(bp) >= _lex_zyx(bq) else bq
                if upper in S:
                    return True
        return False

    def describe(self, i, j):
        out = []
        for p in self.copies(i):
            for q in self.copies(j):
                bp, bq = self.tbins[p], self.tbins[q]
                if max(abs(bp[0] - bq[0]), abs(bp[1] - bq[1]), abs(bp[2] - bq[2])) > 1:
                    continue
                upper = bp if _lex_zyx(bp) >= _lex_zyx(bq) else bq
                out.append('atom %d image %s in bin %s / atom %d image %s in bin %s: later bin %s %s'
                           % (i, self.shift[p], bp, j, self.shift[q], bq, upper,
                              'holds a real atom' if upper in self.real else 'holds only ghosts'))
        return '; '.join(out)
