"""Lattice map-back: reduce positions modulo a lattice and match them to the atoms of a motif.

Independent reference code (numpy, and scipy's cKDTree for large systems); never imports atomman.
Used by C04 (supercells / re-oriented cells), and meant for C05 (wrap/normalize), C13 (dislocation
configurations far from the core) and C14 (surface / stacking-fault slabs): everywhere the question is
"is this set of atoms (part of) the same infinite crystal as that unit cell?".

Conventions
-----------
``V``       3x3 matrix whose *rows* are the lattice (cell) vectors, any handedness, any orientation.
``origin``  Cartesian position of the cell corner; the crystal is  { origin + (s_j + n).V : n in Z^3 }
            for motif atoms with relative coordinates ``s_j``.
``pos``     (N,3) Cartesian positions.
``tol``     Cartesian distance (same length unit as ``V``) below which two positions are "the same point
            modulo the lattice".  It must satisfy  tol * max_i |column_i of inv(V)| < 0.25 ; under that
            condition the decision "distance modulo the lattice <= tol" made here is *exact*:
              if the nearest lattice image n* of a difference d (relative coords) has |(d-n*).V| <= tol, then
              every component of d-n* is below 0.25 in magnitude, so n* = rint(d); conversely a reduced
              difference (d-rint(d)).V not longer than tol is an image that short.
            (For differences that are *not* within tol the reduced vector need not be the shortest image,
            which does not matter for a yes/no decision at tol.  For true nearest-image distances use
            pbt.oracles.nearest_image.)

Main entry points
-----------------
frac(s, band)                      relative coordinates reduced into [0,1), values within ``band`` below 1 -> 0
rel_coords(pos, V, origin)         (pos-origin).inv(V) by a solve
Motif(V, origin, pos, tol)         a unit cell to match against
    .match(pos)   -> Match         for every position: index of the motif atom it coincides with modulo the
                                   lattice (-1 if none), number of motif atoms within tol (1 if unambiguous),
                                   distance to the best one, integer lattice shift
    .multiplicity(index)           how many times each motif atom was hit
    .self_coincidences()           motif atoms coinciding with each other modulo the lattice (should be [])
coincidences(pos, V, origin, tol)  pairs (i, j, dist) of positions coinciding modulo the lattice V
                                   (dense O(N^2) up to ``dense_max`` atoms, periodic kd-tree in relative
                                   coordinates + exact verification above)
compare_crystal(motif, pos, ...)   one call doing match + multiplicity + coincidences; returns a Report whose
                                   ``problems`` list is empty exactly when ``pos`` is ``mult`` copies of the
                                   motif crystal (each motif atom represented ``mult`` times, nothing unmatched,
                                   nothing ambiguous, no two positions coinciding modulo the *new* lattice).
lattice_index(Vsub, V)             Vsub.inv(V): the (integer, if Vsub is a sublattice) index matrix
is_sublattice(Vsub, V, tol)        every row of Vsub is an integer combination of rows of V

Nothing here raises on a mismatch: results are returned, and the check that calls it decides what is a
Violation (so that details, keys and tolerances stay with the property).
"""
import numpy as np

__all__ = ['frac', 'rel_coords', 'Motif', 'Match', 'Report', 'coincidences', 'compare_crystal',
           'lattice_index', 'is_sublattice']


def frac(s, band=1e-8):
    """s - floor(s) with a wrap band: results in [1-band, 1) are mapped to 0 (an atom at -1e-17 is on the
    lower face, not just under the upper one)."""
    s = np.asarray(s, dtype=float)
    f = s - np.floor(s)
    f = np.where(f >= 1.0 - band, 0.0, f)
    return f


def rel_coords(pos, V, origin=None):
    """relative (box-scaled) coordinates of Cartesian positions: solves s.V = pos - origin"""
    V = np.asarray(V, dtype=float)
    p = np.asarray(pos, dtype=float)
    if origin is not None:
        p = p - np.asarray(origin, dtype=float)
    return np.linalg.solve(V.T, p.reshape(-1, 3).T).T.reshape(p.shape)


def _check_tol(V, tol):
    inv = np.linalg.inv(np.asarray(V, dtype=float))
    g = float(np.linalg.norm(inv, axis=0).max())       # |s_i| <= |x| * |column_i of inv(V)|
    if not tol * g < 0.25:
        raise ValueError('crystal_match: tol %.3g too large for this lattice (tol*max|recip| = %.3g >= 0.25)'
                         % (tol, tol * g))
    return inv


class Match:
    """result of Motif.match: arrays over the positions"""
    def __init__(self, index, nhits, dist, shift):
        self.index = index      # (N,) int: motif atom coinciding modulo the lattice, -1 if none within tol
        self.nhits = nhits      # (N,) int: number of motif atoms within tol (>1: ambiguous motif)
        self.dist = dist        # (N,) float: distance modulo the lattice to the closest motif atom (reduced image)
        self.shift = shift      # (N,3) int: lattice vector n with pos ~ origin + (s_index + n).V

    @property
    def unmatched(self):
        return np.where(self.index < 0)[0]

    @property
    def ambiguous(self):
        return np.where(self.nhits > 1)[0]


class Motif:
    """A unit cell (lattice V, origin, atom positions) to match positions against, modulo its lattice."""

    def __init__(self, V, origin, pos, tol):
        self.V = np.array(V, dtype=float).reshape(3, 3)
        self.origin = np.zeros(3) if origin is None else np.array(origin, dtype=float).reshape(3)
        self.pos = np.array(pos, dtype=float).reshape(-1, 3)
        self.tol = float(tol)
        self.inv = _check_tol(self.V, self.tol)
        self.rel = (self.pos - self.origin) @ self.inv
        self.n = len(self.pos)

    def reduced(self, pos):
        """(N, n, 3) Cartesian differences pos_i - motif_j reduced by rint in relative coordinates, and the
        integer shifts (N, n, 3)"""
        p = np.asarray(pos, dtype=float).reshape(-1, 3)
        s = (p - self.origin) @ self.inv
        d = s[:, None, :] - self.rel[None, :, :]
        n = np.rint(d)
        return (d - n) @ self.V, n.astype(np.int64)

    def match(self, pos, chunk=4096):
        p = np.asarray(pos, dtype=float).reshape(-1, 3)
        N = len(p)
        index = np.full(N, -1, dtype=np.int64)
        nhits = np.zeros(N, dtype=np.int64)
        dist = np.full(N, np.inf)
        shift = np.zeros((N, 3), dtype=np.int64)
        if self.n == 0:
            return Match(index, nhits, dist, shift)
        for a in range(0, N, chunk):
            dv, n = self.reduced(p[a:a + chunk])
            dm = np.sqrt((dv * dv).sum(axis=2))             # (m, n)
            j = dm.argmin(axis=1)
            rows = np.arange(len(j))
            best = dm[rows, j]
            hit = dm <= self.tol
            nhits[a:a + chunk] = hit.sum(axis=1)
            dist[a:a + chunk] = best
            index[a:a + chunk] = np.where(best <= self.tol, j, -1)
            shift[a:a + chunk] = n[rows, j]
        return Match(index, nhits, dist, shift)

    def multiplicity(self, index):
        index = np.asarray(index)
        return np.bincount(index[index >= 0], minlength=self.n)

    def self_coincidences(self):
        return coincidences(self.pos, self.V, self.origin, self.tol)


def coincidences(pos, V, origin=None, tol=1e-6, max_pairs=20, dense_max=700):
    """pairs (i, j, dist) with i < j of positions that coincide modulo the lattice V (distance <= tol).
    At most ``max_pairs`` are returned (the decision "any?" is what matters)."""
    V = np.array(V, dtype=float).reshape(3, 3)
    p = np.asarray(pos, dtype=float).reshape(-1, 3)
    inv = _check_tol(V, tol)
    if origin is not None:
        p = p - np.asarray(origin, dtype=float)
    s = p @ inv
    N = len(s)
    out = []
    if N < 2:
        return out
    if N <= dense_max:
        d = s[:, None, :] - s[None, :, :]
        d -= np.rint(d)
        dv = d @ V
        dm = np.sqrt((dv * dv).sum(axis=2))
        iu, ju = np.triu_indices(N, 1)
        hit = np.where(dm[iu, ju] <= tol)[0]
        for k in hit[:max_pairs]:
            out.append((int(iu[k]), int(ju[k]), float(dm[iu[k], ju[k]])))
        return out
    from scipy.spatial import cKDTree
    f = s - np.floor(s)
    f[f >= 1.0] = 0.0                                       # -1e-17 - floor = 1.0 in floating point
    rs = tol * float(np.linalg.norm(inv, 2)) * 1.0000001 + 1e-15
    tree = cKDTree(f, boxsize=1.0)
    for i, j in sorted(tree.query_pairs(rs)):
        d = s[j] - s[i]
        dv = (d - np.rint(d)) @ V
        dm = float(np.sqrt((dv * dv).sum()))
        if dm <= tol:
            out.append((int(i), int(j), dm))
            if len(out) >= max_pairs:
                break
    return out


class Report:
    """result of compare_crystal"""
    def __init__(self):
        self.problems = []      # human-readable strings; empty = same crystal
        self.match = None       # Match
        self.counts = None      # multiplicity per motif atom
        self.pairs = []         # coinciding pairs modulo the new lattice
        self.maxdist = 0.0      # largest matched distance (for tolerance calibration)

    @property
    def ok(self):
        return not self.problems

    def __bool__(self):
        return self.ok


def compare_crystal(motif, pos, mult=None, newV=None, new_origin=None, new_pos=None, equal=None, maxlist=4):
    """Is ``pos`` (Cartesian, already mapped back into the frame of ``motif``) ``mult`` copies of the motif crystal?

    motif       Motif
    pos         (N,3) positions in the motif's Cartesian frame
    mult        expected number of representatives of each motif atom; 'equal': only require that all motif
                atoms are represented equally often; None: no multiplicity requirement (e.g. a sub-crystal)
    newV, new_origin, new_pos
                if ``newV`` is given, positions ``new_pos`` (default ``pos``) are also tested for pairwise
                coincidence modulo the lattice ``newV`` (the periodicity of the *result* cell, in whatever
                frame new_pos/newV are given)
    equal       optional callable(i, j) -> None or a string: called for every matched pair (result atom i,
                motif atom j) to compare types / per-atom properties; a returned string is a problem
    """
    rep = Report()
    p = np.asarray(pos, dtype=float).reshape(-1, 3)
    m = motif.match(p)
    rep.match = m
    un = m.unmatched
    if len(un):
        rep.problems.append('%d of %d atoms do not lie on any atom of the original crystal modulo its lattice '
                            '(tol %.3g): first %s' % (len(un), len(p), motif.tol,
                                                       ['#%d at %s, nearest motif atom at distance %.3g'
                                                        % (i, p[i].tolist(), m.dist[i]) for i in un[:maxlist]]))
    amb = m.ambiguous
    if len(amb):
        rep.problems.append('%d atoms match more than one motif atom (motif not distinct modulo its lattice)' % len(amb))
    ok = m.index >= 0
    if ok.any():
        rep.maxdist = float(m.dist[ok].max())
    rep.counts = motif.multiplicity(m.index)
    if mult is not None and mult != 'equal':
        bad = np.where(rep.counts != mult)[0]
        if len(bad):
            rep.problems.append('original atoms are not represented %d times each: counts %s'
                                % (mult, rep.counts.tolist()))
    elif mult == 'equal' and len(rep.counts) and rep.counts.min() != rep.counts.max():
        rep.problems.append('original atoms are not represented equally often: counts %s' % rep.counts.tolist())
    if equal is not None:
        nbad = 0
        for i in np.where(ok)[0]:
            msg = equal(int(i), int(m.index[i]))
            if msg:
                nbad += 1
                if nbad <= maxlist:
                    rep.problems.append('atom #%d (image of original #%d): %s' % (i, m.index[i], msg))
        if nbad > maxlist:
            rep.problems.append('... %d atoms with differing type/property in total' % nbad)
    if newV is not None:
        q = p if new_pos is None else np.asarray(new_pos, dtype=float).reshape(-1, 3)
        rep.pairs = coincidences(q, newV, new_origin, motif.tol)
        if rep.pairs:
            rep.problems.append('result atoms coincide modulo the result lattice: %s'
                                % ['#%d/#%d (%.3g)' % t for t in rep.pairs[:maxlist]])
    return rep


def lattice_index(Vsub, V):
    """matrix M with Vsub = M.V (rows): integer exactly when the rows of Vsub are lattice vectors of V"""
    return np.linalg.solve(np.asarray(V, dtype=float).T, np.asarray(Vsub, dtype=float).T).T


def is_sublattice(Vsub, V, tol=1e-8):
    """every row of Vsub is an integer combination of the rows of V (to ``tol`` in relative coordinates)"""
    M = lattice_index(Vsub, V)
    return bool(np.abs(M - np.rint(M)).max() <= tol)
