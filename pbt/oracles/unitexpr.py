"""Independent reference for unit expressions (C09).  Never imports atomman.

AST (JSON-able nested lists)
    E = ['E', [F0, F1, ...], ops]        ops: string over '*/' of length len(F)-1;  value = ((F0 op1 F1) op2 F2) ...
    F = ['u', name, X] | ['n', literal, X] | ['g', E, X]      unit name / numeric literal / parenthesised group
    X = None | ['x', lit] | ['xp', lit] | ['xq', lit1, lit2]   exponent:  ^lit  |  ^(lit)  |  ^(lit1/lit2)

This is the grammar of the property (parentheses, then powers, then * and / left to right); chained bare powers
a^b^c do not exist in it.  ``evaluate`` walks the AST with Python floats, ``tokens``/``render`` produce the text with a
whitespace string in every token gap, ``parse_text`` is a strict recursive-descent reader of the same grammar
(used where only a string is available: the LAMMPS tables and the raw mode of the fuzz target), ``dim`` is the
dimension algebra over my own table of unit dimensions (exponents of m, kg, s, C, K).
"""
import math
import re

LIM = 1e280          # every intermediate value must satisfy 1/LIM < |v| < LIM, otherwise the case is a range skip


class RangeSkip(Exception):
    """an intermediate value leaves the safe double range (or is zero / negative base): nothing is judged"""


class Reject(Exception):
    """text outside the grammar (parse_text only)"""


def _chk(v):
    v = float(v)
    a = abs(v)
    if not (1.0 / LIM < a < LIM):          # also false for nan
        raise RangeSkip()
    return v


def _pow(v, x):
    if not v > 0.0:
        raise RangeSkip()
    if abs(x * math.log10(v)) > 280.0:
        raise RangeSkip()
    return _chk(v ** x)


def exponent_value(X):
    if X is None:
        return None
    if X[0] in ('x', 'xp'):
        return float(X[1])
    if X[0] == 'xq':
        d = float(X[2])
        if d == 0.0:
            raise RangeSkip()
        return float(X[1]) / d
    raise ValueError('bad exponent node %r' % (X,))


def eval_factor(F, leaf):
    k = F[0]
    if k == 'u':
        v = _chk(leaf[F[1]])
    elif k == 'n':
        v = _chk(float(F[1]))
    elif k == 'g':
        v = evaluate(F[1], leaf)
    else:
        raise ValueError('bad factor node %r' % (F,))
    x = exponent_value(F[2])
    if x is not None:
        if not math.isfinite(x) or abs(x) > 64:
            raise RangeSkip()
        v = _pow(v, x)
    return v


def evaluate(E, leaf):
    """value of the AST with leaf values leaf[name]; * and / strictly left to right, ** on the factor only"""
    assert E[0] == 'E' and len(E[2]) == len(E[1]) - 1
    acc = eval_factor(E[1][0], leaf)
    for op, F in zip(E[2], E[1][1:]):
        x = eval_factor(F, leaf)
        acc = _chk(acc * x) if op == '*' else _chk(acc / x)
    return acc


# ----------------------------------------------------------------------------- rendering

def _xtokens(X):
    if X is None:
        return []
    if X[0] == 'x':
        return ['^', X[1]]
    if X[0] == 'xp':
        return ['^', '(', X[1], ')']
    return ['^', '(', X[1], '/', X[2], ')']


def tokens(E):
    out = []
    for i, F in enumerate(E[1]):
        if i:
            out.append(E[2][i - 1])
        if F[0] == 'g':
            out.append('(')
            out.extend(tokens(F[1]))
            out.append(')')
        else:
            out.append(F[1])
        out.extend(_xtokens(F[2]))
    return out


def render(E, ws=()):
    """text of the AST; gap i (before token i, and after the last one) gets ws[i % len(ws)]"""
    toks = tokens(E)
    if not ws:
        return ''.join(toks)
    n = len(ws)
    parts = []
    for i, t in enumerate(toks):
        parts.append(ws[i % n])
        parts.append(t)
    parts.append(ws[len(toks) % n])
    return ''.join(parts)


# ----------------------------------------------------------------------------- classification

def features(E, ws=()):
    """labels describing the expression (for histograms, guards and the non-triviality rule)"""
    lab = set()
    st = dict(pow=0, muldiv=0, grp_pow=False, maxdepth=0, nfac=0)

    def walk(E, depth):
        st['maxdepth'] = max(st['maxdepth'], depth)
        ops = E[2]
        st['muldiv'] += len(ops)
        st['nfac'] += len(E[1])
        if len(ops) >= 2 and '/' in ops[:-1]:
            lab.add('div_then_op')              # a/b*c or a/b/c: association matters
        if ops.count('/') >= 2:
            lab.add('div_div')
        for i, F in enumerate(E[1]):
            X = F[2]
            if X is not None:
                st['pow'] += 1
                if len(E[1]) > 1:
                    lab.add('pow_in_product')   # a*b^2: power before product matters
                    if i > 0:
                        lab.add('pow_not_first')
                if F[0] == 'g':
                    st['grp_pow'] = True
                    if len(F[1][1]) > 1:
                        lab.add('grp_product_pow')   # (a*b)^n
                if F[0] == 'n':
                    lab.add('num_base_pow')
                x = exponent_value(X) if not (X[0] == 'xq' and float(X[2]) == 0.0) else 1.0
                if x < 0:
                    lab.add('neg_exp')
                if x != int(x):
                    lab.add('frac_exp')
                    if 0.0 < abs(2 * x - round(2 * x)) / 2 <= 1.001e-3:
                        lab.add('near_int_exp')     # 1e-13 ... 1e-3 away from a whole number, a half or zero (class E)
                if X[0] != 'x':
                    lab.add('paren_exp')
            if F[0] == 'g':
                lab.add('paren')
                if len(F[1][1]) == 1 and F[1][2] == '':
                    lab.add('redundant_paren')
                if i > 0 and len(F[1][1]) > 1:
                    lab.add('paren_right_operand')     # a/(b*c): grouping on the right matters
                walk(F[1], depth + 1)
            elif F[0] == 'u':
                nm = F[1]
                if not (nm.isascii() and nm.isalpha()):
                    lab.add('exotic_name')
            else:
                lit = F[1]
                if lit.startswith('.'):
                    lab.add('lit_leading_dot')
                if 'e' in lit or 'E' in lit:
                    lab.add('lit_exp_notation')
                if float(lit) != 1.0 and abs(float(lit) - 1.0) <= 1.001e-3:
                    lab.add('near_one_lit')         # a numeric factor 1e-13 ... 1e-3 away from one (class E)

    walk(E, 0)
    if st['maxdepth'] >= 2:
        lab.add('nested_paren')
    if st['nfac'] >= 6:
        lab.add('big')
    if st['nfac'] == 1 and st['pow'] == 0:
        lab.add('single_atom')
    joined = ''.join(ws)
    if ws and any(ws):
        lab.add('ws')
        if '\t' in joined:
            lab.add('ws_tab')
        if '\n' in joined:
            lab.add('ws_newline')
        if '\r' in joined:
            lab.add('ws_cr')
    # DESIGN NT rule: >= 2 operators of different precedence, or a parenthesised sub-expression raised to a power
    if (st['pow'] >= 1 and st['muldiv'] >= 1) or st['grp_pow']:
        lab.add('nt')
    return lab


# ----------------------------------------------------------------------------- strict text parser

_WS = ' \t\n\r'
_DELIM = _WS + '*/^()'
_NUM = re.compile(r'(?:[0-9]+\.?[0-9]*|\.[0-9]+)(?:[eE][-+]?[0-9]+)?\Z')


def _lex(text):
    toks = []
    i, n = 0, len(text)
    while i < n:
        c = text[i]
        if c in _WS:
            i += 1
        elif c in '*/^()':
            toks.append(c)
            i += 1
        else:
            j = i
            while j < n and text[j] not in _DELIM:
                j += 1
            toks.append(text[i:j])
            i = j
    return toks


def parse_text(text, leaf):
    """value of a text in the strict grammar; Reject if the text is not in the grammar or names an unknown unit"""
    toks = _lex(text)
    pos = [0]

    def peek():
        return toks[pos[0]] if pos[0] < len(toks) else None

    def take():
        t = peek()
        pos[0] += 1
        return t

    def number(t, signed):
        s = t
        if signed and s[:1] == '-':
            s = s[1:]
        if not _NUM.match(s):
            raise Reject('bad token %r' % t)
        return float(t)

    def atom():
        t = take()
        if t is None or t in '*/^)':
            raise Reject('operand expected')
        if t == '(':
            v = expr()
            if take() != ')':
                raise Reject('unbalanced (')
            return v
        if t[0].isalpha():
            if t not in leaf:
                raise Reject('unknown unit %r' % t)
            return _chk(leaf[t])
        return _chk(number(t, False))

    def factor():
        v = atom()
        if peek() == '^':
            take()
            t = peek()
            if t == '(':
                take()
                x = expr_signed()
                if take() != ')':
                    raise Reject('unbalanced ( in exponent')
            else:
                take()
                if t is None or t in '*/^)':
                    raise Reject('exponent expected')
                x = number(t, True)
            if peek() == '^':
                raise Reject('chained powers are outside the grammar')
            if not math.isfinite(x) or abs(x) > 64:
                raise RangeSkip()
            v = _pow(v, x)
        return v

    def expr_signed():
        # inside exponent parentheses: [-]number [/ number]
        t = take()
        if t is None or t in '*/^()':
            raise Reject('number expected in exponent')
        x = number(t, True)
        if peek() == '/':
            take()
            t = take()
            if t is None or t in '*/^()':
                raise Reject('number expected in exponent')
            d = number(t, False)
            if d == 0.0:
                raise RangeSkip()
            x = x / d
        return x

    def expr():
        acc = factor()
        while peek() in ('*', '/'):
            op = take()
            x = factor()
            acc = _chk(acc * x) if op == '*' else _chk(acc / x)
        return acc

    v = expr()
    if pos[0] != len(toks):
        raise Reject('trailing tokens')
    return v


# ----------------------------------------------------------------------------- dimensions (exponents of m, kg, s, C, K)

CLASSES = {
    'LENGTH': ((1, 0, 0, 0, 0), 'm cm mm um nm pm fm km angstrom Å inch foot mile thou aBohr lightyear astro_unit pc REarth'),
    'MASS': ((0, 1, 0, 0, 0), 'kg g mg ug ng pg fg tonne amu Da kDa lbm me mp mn Msolar MEarth'),
    'TIME': ((0, 0, 1, 0, 0), 's ms us ns ps fs minute hour day week year'),
    'ENERGY': ((2, 1, -2, 0, 0), 'J mJ uJ nJ pJ fJ kJ MJ GJ erg eV meV keV MeV GeV TeV btu smallcal kcal Wh kWh Ry Hartree'),
    'FORCE': ((1, 1, -2, 0, 0), 'N mN uN nN pN fN kN MN GN dyn lbf'),
    'PRESSURE': ((-1, 1, -2, 0, 0), 'Pa hPa kPa MPa GPa bar mbar cbar dbar kbar Mbar atm torr mtorr psi'),
    'CHARGE': ((0, 0, 0, 1, 0), 'C mC uC nC e Ah mAh'),
    'VOLTAGE': ((2, 1, -2, -1, 0), 'V mV uV nV kV MV GV TV'),
    'TEMPERATURE': ((0, 0, 0, 0, 1), 'K mK uK nK pK degCinterval degFinterval'),
    'FREQUENCY': ((0, 0, -1, 0, 0), 'Hz mHz kHz MHz GHz THz PHz'),
    'POWER': ((2, 1, -3, 0, 0), 'W mW uW nW pW kW MW GW TW horsepower_metric horsepower_imperial'),
    'CURRENT': ((0, 0, -1, 1, 0), 'A mA uA nA pA fA'),
    'ACTION': ((2, 1, -1, 0, 0), 'hbar hPlanck ħ'),
    'VELOCITY': ((1, 0, -1, 0, 0), 'c0'),
    'VOLUME': ((3, 0, 0, 0, 0), 'L mL uL nL pL fL aL kL ML GL'),
    'NUMBER': ((0, 0, 0, 0, 0), 'mol mmol umol nmol pmol fmol NA pi alphaFS'),
}
DIM = {}
CLASS_OF = {}
MEMBERS = {}
for _c, (_d, _names) in CLASSES.items():
    MEMBERS[_c] = _names.split()
    for _n in MEMBERS[_c]:
        DIM[_n] = _d
        CLASS_OF[_n] = _c

# ways to write a class through other classes: list of (op, class-or-literal, exponent literal or None); first op unused
EXPANSIONS = {
    'ENERGY': [[('*', 'MASS', None), ('*', 'LENGTH', '2'), ('/', 'TIME', '2')],
               [('*', 'FORCE', None), ('*', 'LENGTH', None)],
               [('*', 'PRESSURE', None), ('*', 'LENGTH', '3')],
               [('*', 'CHARGE', None), ('*', 'VOLTAGE', None)],
               [('*', 'POWER', None), ('*', 'TIME', None)]],
    'FORCE': [[('*', 'MASS', None), ('*', 'LENGTH', None), ('/', 'TIME', '2')],
              [('*', 'ENERGY', None), ('/', 'LENGTH', None)],
              [('*', 'PRESSURE', None), ('*', 'LENGTH', '2')]],
    'PRESSURE': [[('*', 'FORCE', None), ('/', 'LENGTH', '2')],
                 [('*', 'ENERGY', None), ('/', 'LENGTH', '3')],
                 [('*', 'MASS', None), ('/', 'LENGTH', None), ('/', 'TIME', '2')]],
    'VOLTAGE': [[('*', 'ENERGY', None), ('/', 'CHARGE', None)]],
    'FREQUENCY': [[('*', '1', None), ('/', 'TIME', None)], [('*', 'TIME', '-1')]],
    'POWER': [[('*', 'ENERGY', None), ('/', 'TIME', None)],
              [('*', 'FORCE', None), ('*', 'LENGTH', None), ('/', 'TIME', None)]],
    'CURRENT': [[('*', 'CHARGE', None), ('/', 'TIME', None)]],
    'ACTION': [[('*', 'ENERGY', None), ('*', 'TIME', None)]],
    'VELOCITY': [[('*', 'LENGTH', None), ('/', 'TIME', None)]],
    'VOLUME': [[('*', 'LENGTH', '3')]],
}


def dim(E, table=None):
    """dimension vector of the AST from my table, or from ``table`` (KeyError for a name without a table entry)"""
    table = DIM if table is None else table
    acc = [0.0] * 5
    for i, F in enumerate(E[1]):
        if F[0] == 'u':
            d = [float(v) for v in table[F[1]]]
        elif F[0] == 'n':
            d = [0.0] * 5
        else:
            d = dim(F[1], table)
        x = exponent_value(F[2])
        if x is not None:
            d = [v * x for v in d]
        sgn = 1.0 if (i == 0 or E[2][i - 1] == '*') else -1.0
        acc = [a + sgn * v for a, v in zip(acc, d)]
    return acc
