"""LAMMPS unit styles, written from the `units` page of the LAMMPS manual, expressed in SI.

Nothing here is taken from atomman/lammps/style.py.  For every style the manual lists the unit of
each quantity in words ("mass = grams/mole", "distance = Angstroms", "charge = statcoulombs or esu
(4.8032044e-10 is a proton)", "velocity = Bohr/atomic time units [1.03275e-15 seconds]", "dipole
moment = Debye" ...); TABLE holds the SI value of ONE such unit together with a relative
uncertainty `rel` that covers the physical constants involved (CODATA revisions differ at the
1e-9 level; the manual itself prints 1.03275e-15 s with six digits).

    value_in_lammps_units = value_in_SI / TABLE[style][quantity][0]

Angular momentum, angular velocity and volume are not on the manual page; they are the derived
units mass*distance*velocity, 1/time and distance^3 of the same style.  `lj` is dimensionless:
every factor is None (numbers are written as stored).  `electron` has no density entry in the
manual, so none is given here.
"""

# CODATA 2018 (the numbers the manual's remarks are consistent with)
NA = 6.02214076e23            # 1/mol   (exact)
E = 1.602176634e-19           # C       (exact)
C0 = 299792458.0              # m/s     (exact)
BOHR = 5.29177210903e-11      # m
HARTREE = 4.3597447222071e-18  # J
AMU = 1.66053906660e-27       # kg
KCAL = 4184.0                 # J (thermochemical)
STATC = 1.0 / (10.0 * C0)     # C per statcoulomb: q[statC] = q[C] * 10 * c  (c in m/s -> 2997924580)
DEBYE = 1e-18 * STATC * 1e-2  # C m: 1 D = 1e-18 statC cm

PURE = 1e-14     # pure powers of ten (only the floating-point representation of the factor)
DEFINED = 1e-14  # built from constants that are exact by definition (e, N_A, c, thermochemical calorie)
CONST = 1e-6     # involves measured constants (atomic mass constant, Bohr radius, Hartree energy)
MANUAL6 = 1e-5   # the manual's own six-digit number

# dimension exponents (length, mass, time, charge)
DIM = {
    'length': (1, 0, 0, 0), 'mass': (0, 1, 0, 0), 'time': (0, 0, 1, 0), 'energy': (2, 1, -2, 0),
    'velocity': (1, 0, -1, 0), 'force': (1, 1, -2, 0), 'torque': (2, 1, -2, 0), 'charge': (0, 0, 0, 1),
    'dipole': (1, 0, 0, 1), 'density': (-3, 1, 0, 0), 'volume': (3, 0, 0, 0),
    'ang-mom': (2, 1, -1, 0), 'ang-vel': (0, 0, -1, 0),
}

_T = {
    'real': {
        'mass': (1e-3 / NA, DEFINED), 'length': (1e-10, PURE), 'time': (1e-15, PURE),
        'energy': (KCAL / NA, DEFINED), 'velocity': (1e-10 / 1e-15, PURE),
        'force': (KCAL / NA / 1e-10, DEFINED), 'torque': (KCAL / NA, DEFINED),
        'charge': (E, DEFINED), 'dipole': (E * 1e-10, DEFINED), 'density': (1e-3 / 1e-6, PURE),
    },
    'metal': {
        'mass': (1e-3 / NA, DEFINED), 'length': (1e-10, PURE), 'time': (1e-12, PURE),
        'energy': (E, DEFINED), 'velocity': (1e-10 / 1e-12, PURE),
        'force': (E / 1e-10, DEFINED), 'torque': (E, DEFINED),
        'charge': (E, DEFINED), 'dipole': (E * 1e-10, DEFINED), 'density': (1e-3 / 1e-6, PURE),
    },
    'si': {
        'mass': (1.0, PURE), 'length': (1.0, PURE), 'time': (1.0, PURE), 'energy': (1.0, PURE),
        'velocity': (1.0, PURE), 'force': (1.0, PURE), 'torque': (1.0, PURE), 'charge': (1.0, PURE),
        'dipole': (1.0, PURE), 'density': (1.0, PURE),
    },
    'cgs': {
        'mass': (1e-3, PURE), 'length': (1e-2, PURE), 'time': (1.0, PURE), 'energy': (1e-7, PURE),
        'velocity': (1e-2, PURE), 'force': (1e-5, PURE), 'torque': (1e-7, PURE),
        'charge': (STATC, DEFINED), 'dipole': (STATC * 1e-2, DEFINED), 'density': (1e-3 / 1e-6, PURE),
    },
    'electron': {
        'mass': (AMU, CONST), 'length': (BOHR, CONST), 'time': (1e-15, PURE), 'energy': (HARTREE, CONST),
        'velocity': (BOHR / 1.03275e-15, MANUAL6), 'force': (HARTREE / BOHR, CONST),
        'charge': (E, DEFINED), 'dipole': (DEBYE, DEFINED),
    },
    'micro': {
        'mass': (1e-15, PURE), 'length': (1e-6, PURE), 'time': (1e-6, PURE), 'energy': (1e-15, PURE),
        'velocity': (1.0, PURE), 'force': (1e-9, PURE), 'torque': (1e-15, PURE),
        'charge': (1e-12, PURE), 'dipole': (1e-18, PURE), 'density': (1e-15 / 1e-18, PURE),
    },
    'nano': {
        'mass': (1e-21, PURE), 'length': (1e-9, PURE), 'time': (1e-9, PURE), 'energy': (1e-21, PURE),
        'velocity': (1.0, PURE), 'force': (1e-12, PURE), 'torque': (1e-21, PURE),
        'charge': (E, DEFINED), 'dipole': (E * 1e-9, DEFINED), 'density': (1e-21 / 1e-27, PURE),
    },
}

STYLES = ('lj', 'real', 'metal', 'si', 'cgs', 'electron', 'micro', 'nano')


def si_unit(style, quantity):
    """(SI value of one LAMMPS unit of `quantity` under `style`, relative uncertainty) or None for lj.
    KeyError if the manual defines no such unit for the style."""
    if style == 'lj':
        return None
    t = _T[style]
    if quantity in t:
        return t[quantity]
    if quantity == 'volume':
        f, r = t['length']
        return f ** 3, 3 * r
    if quantity == 'ang-mom':
        (fm, rm), (fl, rl), (fv, rv) = t['mass'], t['length'], t['velocity']
        return fm * fl * fv, rm + rl + rv
    if quantity == 'ang-vel':
        f, r = t['time']
        return 1.0 / f, r
    raise KeyError('%s has no %s unit on the LAMMPS units page' % (style, quantity))


def factor(style, quantity, base):
    """Multiplier taking a number in the caller's working units to LAMMPS `style` units, and its
    relative uncertainty.  `base` maps 'm','kg','s','C' to the value of that SI base unit in the
    working units (so a working-unit number x of dimension L^a M^b T^c Q^d is x/(m^a kg^b s^c C^d) in SI).
    quantity None (dimensionless / no LAMMPS unit) and style lj give (1.0, 0.0)."""
    if quantity is None or style == 'lj':
        return 1.0, 0.0
    f, rel = si_unit(style, quantity)
    a, b, c, d = DIM[quantity]
    to_si = 1.0 / (base['m'] ** a * base['kg'] ** b * base['s'] ** c * base['C'] ** d)
    return to_si / f, rel
