"""Synthesiser for LAMMPS log / screen output, written from the documented layout of LAMMPS output
(https://docs.lammps.org/Run_output.html, thermo_style one/custom), independent of atomman.lammps.Log.

A *log case* is a JSON-able dict:
  {'banner': None | {'day': int, 'mon': 'Aug', 'year': int, 'update': None | int | 'Development'},
   'pre': [echo-line codes],                       lines echoed before the first run (negative code = blank / whitespace-only line)
   'runs': [ {'kind': 'run'|'minimize', 'mem': 'new'|'old', 'cols': [names], 'rows': [[token,...],...],
              'timing': 'new'|'old'|'none', 'nlocal': bool, 'blank': [codes of blank-ish lines inserted], 'echo': [codes]} ],
   'truncate': None | int        keep only that many data rows of the final block and nothing after (crash)}
Tokens are the printed strings; the expected numbers are int(token) / float(token) by Python.
"""
MONTHS = ['Jan', 'Feb', 'Mar', 'Apr', 'May', 'Jun', 'Jul', 'Aug', 'Sep', 'Oct', 'Nov', 'Dec']

ECHO = [
    'units           metal',
    'atom_style      atomic',
    'boundary        p p p',
    'read_data       init.dat',
    'Reading data file ...',
    '  orthogonal box = (0 0 0) to (8.1 8.1 8.1)',
    '  1 by 1 by 1 MPI processor grid',
    '  reading atoms ...',
    '  32 atoms',
    '  read_data CPU = 0.002 seconds',
    'pair_style      eam/alloy',
    'pair_coeff      * * Al.eam.alloy Al',
    'thermo          10',
    'thermo_style    custom step temp pe ke etotal press lx',
    'thermo_modify   format float %.13e',
    'print "Starting the run now"',
    'Starting the run now',
    'variable        T equal 300.0',
    'WARNING: No fixes with time integration, atoms won\'t move (src/verlet.cpp:60)',
    'Neighbor list info ...',
    '  update: every = 1 steps, delay = 0 steps, check = yes',
    '  max neighbors/atom: 2000, page size: 100000',
    '  master list distance cutoff = 8.28721',
    '  (1) pair eam/alloy, perpetual',
    '      attributes: half, newton on',
    'Setting up Verlet run ...',
    '  Unit style    : metal',
    '  Current step  : 0',
    '  Time step     : 0.001',
    'Setting up cg style minimization ...',
    'min_style       cg',
    'minimize        0.0 1e-8 1000 10000',
    'run             100',
    'fix             1 all nve',
    'velocity        all create 300.0 4928459 rot yes dist gaussian',
    'reset_timestep  0',
    '# a comment line in the input script',
    'dump            1 all custom 100 dump.*.lammpstrj id type x y z',
    'Generated 0 of 0 mixed pair_coeff terms from geometric mixing rule',
    'System init for write_data ...',
]
BLANK = ['', ' ', '   ', '\t']


def echo_line(code):
    """code >= 0: an echoed command / info line; code < 0: a blank or whitespace-only line"""
    return ECHO[code % len(ECHO)] if code >= 0 else BLANK[(-code - 1) % len(BLANK)]


def banner_text(b):
    s = '%d %s %d' % (b['day'], b['mon'], b['year'])
    if b.get('update') is not None:
        s += ' - ' + (('Update %d' % b['update']) if isinstance(b['update'], int) else str(b['update']))
    return s


def _fmt_row(tokens, style, widths=None):
    if style == 'old':
        return ' '.join('%8s' % t for t in tokens) + ' '
    return ' '.join('%14s' % t for t in tokens) + ' '


def _header(cols, style):
    if style == 'old':
        return ' '.join(cols) + ' '
    return ' '.join('%14s' % c for c in cols).rstrip() + ' '


def synth(case):
    """returns (text, expected) with expected = {'version': str|None, 'date': (y,m,d)|None,
    'runs': [{'cols': [...], 'rows': [[tokens]], 'truncated': bool}]}"""
    lines = []
    exp = {'version': None, 'date': None, 'runs': []}
    if case.get('banner'):
        b = case['banner']
        lines.append('LAMMPS (%s)' % banner_text(b))
        exp['version'] = banner_text(b)
        exp['date'] = (b['year'], MONTHS.index(b['mon']) + 1, b['day'])
        lines.append('  using 1 OpenMP thread(s) per MPI task')
    for code in case.get('pre', []):
        lines.append(echo_line(code))
    nruns = len(case['runs'])
    for r, run in enumerate(case['runs']):
        last = r == nruns - 1
        trunc = case.get('truncate') if last else None
        for code in run.get('echo', []):
            lines.append(echo_line(code))
        bl = list(run.get('blank', []))
        if run['mem'] == 'new':
            lines.append('Per MPI rank memory allocation (min/avg/max) = 3.212 | 3.212 | 3.212 Mbytes')
        else:
            lines.append('Memory usage per processor = 2.54297 Mbytes')
        lines.append(_header(run['cols'], run['mem']))
        rows = run['rows']
        if trunc is not None:
            rows = rows[:trunc]
        for row in rows:
            lines.append(_fmt_row(row, run['mem']))
        exp['runs'].append({'cols': list(run['cols']), 'rows': [list(x) for x in rows], 'truncated': trunc is not None})
        if trunc is not None:
            break
        nsteps = 0
        try:
            nsteps = int(rows[-1][0]) - int(rows[0][0]) if rows else 0
        except ValueError:
            pass
        lines.append('Loop time of 0.0123%d on 1 procs for %d steps with 32 atoms' % (r, nsteps))
        for b in bl:
            lines.append(BLANK[b % len(BLANK)])
        if run['kind'] == 'minimize':
            lines += ['Minimization stats:',
                      '  Stopping criterion = linesearch alpha is zero',
                      '  Energy initial, next-to-last, final = ',
                      '     -107.519999999781   -107.519999999781   -107.519999999781',
                      '  Force two-norm initial, final = 3.8404312e-14 3.8404312e-14',
                      '  Force max component initial, final = 8.9164326e-15 8.9164326e-15',
                      '  Final line search alpha, max atom move = 1 8.9164326e-15',
                      '  Iterations, force evaluations = 1 2', '']
        if run['timing'] == 'new':
            lines += ['Performance: 702.439 ns/day, 0.034 hours/ns, 8130.081 timesteps/s, 260.163 katom-step/s',
                      '99.3% CPU use with 1 MPI tasks x 1 OpenMP threads', '',
                      'MPI task timing breakdown:',
                      'Section |  min time  |  avg time  |  max time  |%varavg| %total',
                      '---------------------------------------------------------------',
                      'Pair    | 0.0110%d   | 0.0110%d   | 0.0110%d   |   0.0 | 89.63' % (r, r, r),
                      'Neigh   | 0          | 0          | 0          |   0.0 |  0.00',
                      'Comm    | 0.00073    | 0.00073    | 0.00073    |   0.0 |  5.94',
                      'Output  | 0.00013    | 0.00013    | 0.00013    |   0.0 |  1.08',
                      'Modify  | 0.00026    | 0.00026    | 0.00026    |   0.0 |  2.12',
                      'Other   |            | 0.00015    |            |       |  1.23', '']
        elif run['timing'] == 'old':
            lines += ['',
                      'Pair  time (%) = 0.0110 (89.63)',
                      'Neigh time (%) = 0 (0)',
                      'Comm  time (%) = 0.00073 (5.94)',
                      'Outpt time (%) = 0.00013 (1.08)',
                      'Other time (%) = 0.00041 (3.35)', '']
        if run.get('nlocal', True):
            lines += ['Nlocal:        32.0000 ave          32 max          32 min',
                      'Histogram: 1 0 0 0 0 0 0 0 0 0',
                      'Nghost:        1067.00 ave        1067 max        1067 min',
                      'Histogram: 1 0 0 0 0 0 0 0 0 0',
                      'Neighs:        2560.00 ave        2560 max        2560 min',
                      'Histogram: 1 0 0 0 0 0 0 0 0 0', '',
                      'Total # of neighbors = 2560',
                      'Ave neighs/atom = 80.000000',
                      'Neighbor list builds = 0',
                      'Dangerous builds = 0']
    else:
        lines.append('Total wall time: 0:00:00')
    return '\n'.join(lines) + '\n', exp
