"""Hypothesis strategies for C10 (data-model round trips).  Everything produced is JSON-able.

Conventions of a C10 case
  * every number that stands for a quantity stored *with a unit u* is given IN UNIT u (plain float); the oracle turns
    it into working units under the writing configuration with its own factor (product of numericalunits attributes);
  * a quantity stored with unit None is a plain number in working units (the same number under any configuration);
  * a 'scaled' quantity is given as box-relative coordinates; the oracle computes the Cartesian value itself;
  * cells, origins and positions are in angstrom.

Working-unit configurations  {'kind':'named','units':{...}} | {'kind':'seed','seed':n} | {'kind':'SI'}:
named choices always contain `length` (reset_units(mass,time,energy) without length belongs to C09) and never
all four of length, mass, time, energy (over-determined).
"""
import functools
import itertools

from hypothesis import strategies as st

from . import gens

# ----------------------------------------------------------------------------- units
# unit string -> [(numericalunits attribute, power)]; the oracle evaluates the product itself (never uc.parse)
UNITS = {
    'angstrom': [('angstrom', 1)], 'nm': [('nm', 1)], 'm': [('m', 1)], 'aBohr': [('aBohr', 1)], 'cm': [('cm', 1)],
    'eV': [('eV', 1)], 'J': [('J', 1)], 'kcal': [('kcal', 1)],
    'GPa': [('GPa', 1)], 'bar': [('bar', 1)], 'eV/angstrom^3': [('eV', 1), ('angstrom', -3)], 'Pa': [('Pa', 1)],
    'eV/angstrom': [('eV', 1), ('angstrom', -1)], 'nN': [('nN', 1)], 'kg*m/s^2': [('kg', 1), ('m', 1), ('s', -2)],
    'angstrom/ps': [('angstrom', 1), ('ps', -1)], 'm/s': [('m', 1), ('s', -1)],
    'mJ/m^2': [('mJ', 1), ('m', -2)], 'J/(m^2)': [('J', 1), ('m', -2)],
    'amu': [('amu', 1)], 'g': [('g', 1)], 'ps': [('ps', 1)], 'e': [('e', 1)], 'C': [('C', 1)],
    'e*angstrom': [('e', 1), ('angstrom', 1)], 'g/cm^3': [('g', 1), ('cm', -3)],
    'MPa': [('MPa', 1)], 'J/m^3': [('J', 1), ('m', -3)],
}
LENGTH_UNITS = ('angstrom', 'nm', 'm', 'aBohr', 'cm')
PRESSURE_UNITS = ('GPa', 'bar', 'eV/angstrom^3', 'Pa', 'MPa', 'J/m^3')
ANY_UNITS = tuple(sorted(UNITS))

S_LEN_UNIT = st.sampled_from(LENGTH_UNITS)
S_ANY_UNIT = st.sampled_from(ANY_UNITS)
S_UNIT_OR_NONE = st.one_of(st.none(), S_ANY_UNIT, S_ANY_UNIT)
S_LEN_UNIT_OR_NONE = st.one_of(st.none(), S_LEN_UNIT)
S_BOX_UNIT = st.one_of(st.just('default'), S_LEN_UNIT, S_LEN_UNIT)
S_PRESSURE_OR_NONE = st.one_of(st.none(), st.sampled_from(PRESSURE_UNITS), st.sampled_from(PRESSURE_UNITS))
S_BOOL = st.booleans()
_S_0_3 = st.integers(0, 3)
_S_0_2 = st.integers(0, 2)
_S_0_4 = st.integers(0, 4)

# ----------------------------------------------------------------------------- working-unit configurations
_NAMED = {'length': ['angstrom', 'nm', 'm', 'cm', 'aBohr'], 'mass': ['amu', 'kg', 'g'], 'time': ['ps', 's', 'fs'],
          'energy': ['eV', 'J', 'kcal'], 'charge': ['e', 'C']}
_OTHERS = ('mass', 'time', 'energy', 'charge')
_SUBSETS = [('length',) + c for r in range(0, 4) for c in itertools.combinations(_OTHERS, r)
            if not {'mass', 'time', 'energy'} <= set(c)]
_S_SUBSET = st.sampled_from(_SUBSETS)
_S_Q = {q: st.sampled_from(v) for q, v in _NAMED.items()}
DEFAULT_CFG = {'kind': 'named', 'units': {'length': 'angstrom', 'mass': 'amu', 'energy': 'eV', 'charge': 'e'}}


@st.composite
def _named(draw):
    sub = draw(_S_SUBSET)
    return {'kind': 'named', 'units': {q: draw(_S_Q[q]) for q in sub}}


S_CFG = st.one_of(_named(), _named(), _named(),
                  st.builds(lambda s: {'kind': 'seed', 'seed': s}, st.integers(0, 2 ** 31 - 1)),
                  st.just({'kind': 'SI'}), st.just(DEFAULT_CFG))


_S_SAME = st.sampled_from([False] * 7 + [True])
_ALT = [{'kind': 'named', 'units': {'length': 'nm', 'mass': 'kg', 'energy': 'J'}}, {'kind': 'SI'}]


@st.composite
def cfg_pairs(draw):
    """(writing, reading) configurations: about 1 in 8 identical"""
    w = draw(S_CFG)
    if draw(_S_SAME):
        return w, w
    r = draw(S_CFG)
    if r == w:                      # Hypothesis favours its simplest choices: make the pair differ by construction
        r = [a for a in _ALT if a != w][0]
    return w, r


S_CFG_PAIR = cfg_pairs()
S_ENC = st.sampled_from(['dict', 'json', 'json', 'xml', 'xml', 'xml'])
_S_CELL = gens.cells()
_S_CELL_SCALED = gens.cells(scaled=True)
_S_ERR = gens.nice(0.0, 10.0, 4)
_S_REL = gens.nice(-1.0, 2.0, 4)
_S_SREL = gens.nice(-2.0, 3.0, 4)
_S_POS = gens.nice(-50.0, 50.0, 4)

# ----------------------------------------------------------------------------- structured and almost-structured cells
# (classes E and G of the cross-pollination round: see the header of checks/c10.py)
# cell['sym'] = {'m','p','s'}: after everything gens.cell_vects does, exactly (products with 0 / +-1 only): one of the 48 signed
# permutations of the Cartesian axes (numbers 0..7 diagonal: they keep the zeros above the diagonal), one of the 6 renamings of
# the cell vectors, one of the 8 sign patterns of the cell vectors.  m < 8 and p = 0 gives lower-triangular cells with negative
# entries on the diagonal.  cell['tiny']: tilt / box length = sign * 10**e, e in -12 .. -3 (Box's documented clean-up zeroes
# components up to 1e-9 of the largest: ratios within 10 % of that rung are moved off it).
SIGNS8 = [(a, b, c) for a in (1.0, -1.0) for b in (1.0, -1.0) for c in (1.0, -1.0)]
PERMS6 = [(0, 1, 2), (1, 0, 2), (0, 2, 1), (2, 1, 0), (1, 2, 0), (2, 0, 1)]
CLEAN_RUNG = 1e-9


def _signed_perms():
    import numpy as np
    out = []
    for p in PERMS6:                      # identity permutation first: numbers 0..7 are diagonal
        for sg in SIGNS8:
            M = np.zeros((3, 3))
            for i in range(3):
                M[i, p[i]] = sg[i]
            out.append(M)
    return out


SIGNED_PERMS = _signed_perms()


def cell_vects10(c):
    """gens.cell_vects followed by the exact operation c['sym']"""
    import numpy as np
    V = gens.cell_vects(c)
    sym = c.get('sym')
    if sym:
        V = V @ SIGNED_PERMS[int(sym['m']) % 48].T
        V = V[list(PERMS6[int(sym['p']) % 6])]
        V = V * np.array(SIGNS8[int(sym['s']) % 8])[:, None]
        V = V + 0.0                       # no negative zeros
    return V


def cell_labels10(c):
    import numpy as np
    labs = gens.cell_labels(c)
    labs.discard('lefthanded')
    V = cell_vects10(c)
    if np.linalg.det(V / np.abs(V).max()) < 0:
        labs.add('lefthanded')
    sym = c.get('sym')
    if sym and (int(sym['m']) % 48 or int(sym['p']) % 6 or int(sym['s']) % 8):
        labs.add('sym')
        labs.add('sym_diag' if (int(sym['m']) % 48 < 8 and int(sym['p']) % 6 == 0) else 'sym_perm')
    if V[0, 1] == 0.0 and V[0, 2] == 0.0 and V[1, 2] == 0.0 and (V[0, 0] < 0 or V[1, 1] < 0 or V[2, 2] < 0):
        labs.add('lowertri_neg')
    if c.get('tiny'):
        labs.add('tiny_tilt')
        vmax = max(abs(c[k]) for k in ('lx', 'ly', 'lz', 'xy', 'xz', 'yz'))
        r = [abs(c[k]) / vmax for k in ('xy', 'xz', 'yz') if c[k] and abs(c[k]) / vmax < 2e-3]
        if any(x <= CLEAN_RUNG for x in r):
            labs.add('tiny_cleaned')
        if any(CLEAN_RUNG < x <= 1e-5 for x in r):
            labs.add('tiny_1e-9_1e-5')
        if any(1e-5 < x for x in r):
            labs.add('tiny_1e-5_1e-3')
    return labs


_TINY_ONE = st.tuples(st.sampled_from((0, 1, 2, 2, 2)), st.floats(-12.0, -3.0, allow_nan=False), st.sampled_from((-1.0, 1.0)))
_TINY3 = st.tuples(_TINY_ONE, _TINY_ONE, _TINY_ONE)
_S_0_9 = st.integers(0, 9)
_S_0_7 = st.integers(0, 7)
_S_0_5 = st.integers(0, 5)
_S_0_47 = st.integers(0, 47)


def apply_tiny(c, tt):
    """cell dict with tiny tilts put in: per tilt factor (mode, exponent, sign); mode 0 keeps the cell's value, 1 sets zero,
    2 sets sign * 10**exponent * length; at least one factor is made tiny"""
    c = dict(c)
    tt = [list(t) for t in tt]
    if not any(t[0] == 2 for t in tt):
        tt[int(abs(tt[0][1]) * 7) % 3][0] = 2
    for key, lk, (mode, ex, sg) in zip(('xy', 'xz', 'yz'), ('lx', 'lx', 'ly'), tt):
        if mode == 1:
            c[key] = 0.0
        elif mode == 2:
            c[key] = sg * 10.0 ** ex * c[lk]
    vmax = max(abs(c[k]) for k in ('lx', 'ly', 'lz', 'xy', 'xz', 'yz'))
    for key in ('xy', 'xz', 'yz'):
        r = abs(c[key]) / vmax
        if 0.9 * CLEAN_RUNG < r < 1.1 * CLEAN_RUNG:
            c[key] = c[key] * 2.0
    c['tiny'] = True
    return c


def _structure(draw, c):
    """c as drawn (6 in 10), with tiny tilts (2 in 10, half of them without a generic rotation, a quarter also a diagonal image), as
    an exact diagonal image (1 in 10: lower triangular, any signs) or as any exact signed axis permutation with renamed vectors
    (1 in 10)"""
    j = draw(_S_0_9)
    if j < 6:
        return c
    if j < 8:
        c = apply_tiny(c, draw(_TINY3))
        if draw(S_BOOL):
            c['rot'] = None
        if draw(_S_0_3) == 0:
            c['sym'] = {'m': draw(_S_0_7), 'p': 0, 's': draw(_S_0_7)}
        return c
    c = dict(c)
    if j < 9:
        m, p, k = draw(_S_0_7), 0, draw(_S_0_7)
        if m == 0 and k == 0:
            k = 6
        c['rot'] = None
    else:
        m, p, k = draw(_S_0_47), draw(_S_0_5), draw(_S_0_7)
        if draw(_S_0_3):
            c['rot'] = None
    c['sym'] = {'m': m, 'p': p, 's': k}
    return c


_S_CELL_LH = gens.cells(lefthanded=True)
_S_CELL_LH_SCALED = gens.cells(lefthanded=True, scaled=True)


@st.composite
def cells10(draw, scaled=False):
    return _structure(draw, draw(_S_CELL_LH_SCALED if scaled else _S_CELL_LH))


_S_CELL10 = cells10()
_S_CELL10_SCALED = cells10(scaled=True)

# relative coordinates: generic, almost on a face / almost integer / almost half (1e-12 .. 1e-3 away), exactly on it
_S_NEAR = st.builds(lambda k, e, sg: k + sg * 10.0 ** -e, st.sampled_from([0.0, 1.0, 1.0, 0.5, -1.0, 2.0]), st.integers(3, 12),
                    st.sampled_from([-1.0, 1.0]))
_S_EXACT = st.sampled_from([0.0, 0.5, 1.0, 0.25, 0.75, -0.5, 1.5, -1.0, 2.0])
_S_REL10 = st.one_of(_S_REL, _S_REL, _S_REL, _S_NEAR, _S_EXACT)
_S_SREL10 = st.one_of(_S_SREL, _S_SREL, _S_SREL, _S_NEAR, _S_EXACT)

# ----------------------------------------------------------------------------- numbers
_MAG = st.sampled_from([1.0, 1.0, 1.0, 1.0, 1e-3, 1e3, 1e-12, 1e9, 1e-20, 1e20])
_F = st.floats(min_value=-1000.0, max_value=1000.0, allow_nan=False, allow_infinity=False,
               allow_subnormal=False).map(lambda v: v if abs(v) >= 1e-6 else 0.0)
_FN = gens.nice(-100.0, 100.0, 4)
_I = st.one_of(st.integers(-1000, 1000), st.integers(-1000, 1000), st.integers(-9, 9), st.sampled_from([0, 1, 2 ** 40, -2 ** 53]))
# strings that survive XML text unchanged: no leading/trailing blanks, not readable as a number or a constant
# (DataModelDict turns '12', '1e3', 'inf', 'nan', 'True', '' ... into numbers/constants: its limitation, not atomman's)
_S = st.builds(lambda a, b: a + b, st.sampled_from(list('ABCDEGHKLMOPRSUVWXYZ')),
               st.text(alphabet='abcdeghklmoprsuvwxyz0123456789_-+.', min_size=0, max_size=6))
_S_KEY = st.integers(0, 10 ** 6)
_S_ELEM = st.sampled_from(['Al', 'Cu', 'Fe', 'O', 'H', 'Ni', 'Si', 'U', 'Al-fcc', 'Cu_2'])


@functools.lru_cache(maxsize=None)
def _sf(items):
    return st.sampled_from(list(items))


@functools.lru_cache(maxsize=None)
def _si(a, b):
    return st.integers(a, b)


def _nested(draw, shape, el):
    if not shape:
        return draw(el)
    return [_nested(draw, shape[1:], el) for _ in range(shape[0])]


def _scaled(v, mag):
    return [_scaled(x, mag) for x in v] if isinstance(v, list) else v * mag


def _unflatten(flat, shape, i=0):
    if not shape:
        return flat[i]
    step = 1
    for k in shape[1:]:
        step *= k
    return [_unflatten(flat, shape[1:], i + j * step) for j in range(shape[0])]


# class F: one array whose elements span 8 and more decades (mantissa x 10**k, k drawn per element between lo and hi, both ends present)
_DEC_M = gens.nice(1.0, 9.999, 3)
_DEC_LO = st.sampled_from([-10, -9, -8, -8, -6, -4])
_DEC_HI = st.sampled_from([0, 1, 2, 4, 6, 8])
_SIGN = st.sampled_from([1.0, 1.0, -1.0])


def _decades(draw, shape):
    n = 1
    for k in shape:
        n *= k
    lo, hi = draw(_DEC_LO), draw(_DEC_HI)
    ks = [draw(_si(lo, hi)) for _ in range(n)]
    ks[draw(_si(0, n - 1))] = lo
    ks[draw(_si(0, n - 1))] = hi
    return _unflatten([draw(_SIGN) * draw(_DEC_M) * 10.0 ** k for k in ks], list(shape))


def _floats(draw, shape, dec=1):
    j = draw(_S_0_4)
    if j == 0:
        return _nested(draw, shape, _FN)
    if 1 <= j <= dec and shape:
        return _decades(draw, shape)
    return _scaled(_nested(draw, shape, _F), draw(_MAG))


# class C: storage dtypes other than float64 / int64 (the oracle casts the working-unit numbers; see c10.to_storage)
FLOAT_DT = ('f4', 'f4', 'f2', 'f2', '>f8', '>f4')
INT_DT = ('i1', 'i2', 'i4', 'u1', 'u2', 'u4', 'u8', '>i2', '>i4', '>i8', 'bool')
# u8 stops at the int64 maximum: numpy itself reads a list that holds 2**63 and a smaller number back as float64
INT_RANGE = {'i1': (-2 ** 7, 2 ** 7 - 1), 'i2': (-2 ** 15, 2 ** 15 - 1), 'i4': (-2 ** 31, 2 ** 31 - 1), 'u1': (0, 2 ** 8 - 1),
             'u2': (0, 2 ** 16 - 1), 'u4': (0, 2 ** 32 - 1), 'u8': (0, 2 ** 63 - 1), '>i2': (-2 ** 15, 2 ** 15 - 1),
             '>i4': (-2 ** 31, 2 ** 31 - 1), '>i8': (-2 ** 63, 2 ** 63 - 1), 'bool': (0, 1)}
_FD = st.integers(-2048, 2048).map(lambda k: k / 16.0)          # exactly representable in float16


@functools.lru_cache(maxsize=None)
def _int_dt(dt):
    lo, hi = INT_RANGE[dt]
    if dt == 'bool':
        return st.integers(0, 1)
    return st.one_of(st.integers(lo, hi), st.integers(max(lo, -100), min(hi, 100)), st.sampled_from([lo, hi, lo + 1, hi - 1, 0, 1]))


# shapes of rank 0-4 (lengths >= 1); asymmetric ones catch reversed/transposed reshapes
_SHAPES = [[], [], [], [1], [2], [3], [5], [1, 1], [2, 3], [3, 2], [1, 3], [3, 1], [3, 3], [4, 2], [2, 3, 4], [3, 1, 2],
           [1, 1, 1], [2, 2, 3], [2, 3, 2, 2], [1, 2, 1, 3], [3, 3, 3, 3], [6, 6]]
_S_SHAPE = st.sampled_from(_SHAPES)

# memory layout of an array handed to atomman (same shape, same numbers; the oracle builds it, see c10.lay):
#   C   C-contiguous copy                         T   transposed view: ascontiguousarray(a.T).T (x, y, z columns stacked)
#   F   Fortran-ordered copy                      X   last two axes swapped in memory (rank >= 3: neither C nor F ordered)
#   S   every second element of a larger C array  SF  every second element of a larger Fortran-ordered array
LAYOUTS = ('C', 'T', 'F', 'S', 'SF', 'X')
S_LAYOUT = st.sampled_from(['C', 'C', 'T', 'T', 'F', 'F', 'S', 'SF', 'X'])
S_LAYOUT1 = st.sampled_from(['C', 'C', 'S'])          # rank 1: only a stride can differ


@st.composite
def value_cases(draw):
    shape = draw(_S_SHAPE)
    kind = draw(_sf(tuple('ffffffii')))
    unit = draw(S_UNIT_OR_NONE)
    dt = None
    if draw(_S_0_3) == 0 or (kind == 'i' and draw(S_BOOL)):
        dt = draw(_sf(FLOAT_DT if kind == 'f' else INT_DT))
    if kind == 'f':
        v = _nested(draw, shape, _FD) if (dt in ('f2', 'f4', '>f4') and draw(S_BOOL)) else _floats(draw, shape)
        if dt == 'f2':
            unit = None                 # numpy divides a float16 array by a Python float in float16: most unit factors are not float16 numbers
    else:
        v = _nested(draw, shape, _int_dt(dt) if dt else _I)
    err = None
    if kind == 'f' and draw(_S_0_3) == 0:
        err = _nested(draw, shape, _S_ERR)
    w, r = draw(S_CFG_PAIR)
    return {'shape': shape, 'kind': kind, 'unit': unit, 'v': v, 'error': err, 'dtype': dt, 'ro': draw(S_BOOL), 'cm': draw(S_BOOL),
            'form': draw(_sf(('np', 'np', 'np', 'np', 'np0d', 'np0d', 'py', 'tuple',))), 'layout': draw(S_LAYOUT), 'elayout': draw(S_LAYOUT),
            'enc': draw(S_ENC), 'cfgW': w, 'cfgR': r}


# ----------------------------------------------------------------------------- box
# prior history of the Box that receives the model (ctor False): it exists with a different cell and its derived
# quantities have been used: 'recip' reciprocal_vects read, 'c2r' a Cartesian->relative conversion, 'scaled' a
# box-scaled System.model of the System that holds it ([] = never used, cache empty)
_S_USES = st.sampled_from([[], ['recip'], ['c2r'], ['c2r'], ['recip', 'c2r'], ['c2r', 'recip']])
_S_USES_HOST = st.sampled_from([[], ['scaled'], ['scaled'], ['recip'], ['c2r'], ['recip', 'scaled'], ['c2r', 'scaled', 'recip']])
_S_CTOR = st.sampled_from([True, False, False])
_S_NPTS = st.sampled_from([1, 2, 3, 4])


@st.composite
def box_cases(draw):
    w, r = draw(S_CFG_PAIR)
    cell = draw(_S_CELL10_SCALED)
    ctor = draw(_S_CTOR)
    prior = None
    if not ctor:
        pc = draw(_S_CELL10_SCALED)
        host = draw(S_BOOL)
        # a prior cell equal to the loaded one would hide a stale cache: None = the fixed 7 x 8 x 9 cell at (1, 1, 1)
        prior = {'cell': None if pc == cell else pc, 'host': host, 'uses': draw(_S_USES_HOST if host else _S_USES)}
    return {'cell': cell, 'unit': draw(S_BOX_UNIT), 'enc': draw(S_ENC), 'ctor': ctor, 'prior': prior,
            'pts': _nested(draw, [draw(_S_NPTS), 3], _S_REL10), 'cm': draw(S_BOOL), 'cfgW': w, 'cfgR': r}


# ----------------------------------------------------------------------------- atoms / systems
PROP_NAMES = ('charge', 'velocity', 'stress', 'flag', 'label', 'disp', 'tensor', 'site', 'c_pe', 'v_k', 'mu', 'ids')
_REST_SHAPES = {  # per-atom shapes (rank 1-3 properties)
    'f': [[], [], [3], [3], [2], [1], [3, 3], [2, 3], [3, 2], [1, 1], [2, 2]],
    'i': [[], [], [2], [3], [1], [2, 3]],
    's': [[], [], [2], [2, 2], [1]],
}
_S_REST = {k: st.sampled_from(v) for k, v in _REST_SHAPES.items()}
_S_KIND = st.sampled_from('ffffiiss')
PROP_FLOAT_DT = ('f4', 'f4', 'f2', '>f8')
_S_KEEP = st.sampled_from([False] * 5 + [True])
_S_POS_DT = st.sampled_from([None, None, None, 'f4', '>f8'])
_S_ATYPE_DT = st.sampled_from([None, None, None, 'i1', 'u1', 'i4', 'u8', '>i4'])
_S_NATOMS = st.sampled_from([1, 1, 2, 2, 3, 3, 4, 5, 6, 8])
_S_NPROPS = st.sampled_from([0, 1, 1, 2, 2, 3, 4])
_S_MASS = st.one_of(gens.nice(0.5, 250.0, 4), gens.nice(0.5, 250.0, 4), st.sampled_from([1.0, 27.0, 12.0]))


def _props(draw, natoms, scaled_ok):
    props, used = [], set()
    for _ in range(draw(_S_NPROPS)):
        name = draw(_sf(tuple(PROP_NAMES)))
        if name in used:
            continue
        used.add(name)
        kind = draw(_S_KIND)
        rest = draw(_S_REST[kind])
        shape = [natoms] + rest
        unit = None
        dt = None
        if kind != 's' and draw(_S_0_3) == 0:
            dt = draw(_sf(PROP_FLOAT_DT if kind == 'f' else INT_DT))
        if kind == 'f':
            unit = draw(S_UNIT_OR_NONE)
            if scaled_ok and rest and rest[-1] == 3 and draw(_S_0_2) > 0:
                unit = 'scaled'
            if dt == 'f2' and unit not in (None, 'scaled'):
                unit = None             # see value_cases
            if unit == 'scaled':
                vals = _nested(draw, shape, _S_SREL10)
            elif dt in ('f2', 'f4') and draw(S_BOOL):
                vals = _nested(draw, shape, _FD)
            else:
                vals = _floats(draw, shape, 2)
        elif kind == 'i':
            unit = draw(_sf((None, None, None, 'nm', 'eV',)))
            if dt == 'bool':
                unit = None
            vals = _nested(draw, shape, _int_dt(dt) if dt else _I)
        else:
            vals = _nested(draw, shape, _S)
        props.append({'name': name, 'kind': kind, 'shape': shape, 'unit': unit, 'values': vals, 'dtype': dt, 'ro': draw(S_BOOL),
                      'layout': draw(S_LAYOUT if rest else S_LAYOUT1)})
    return props


def _order(draw, names):
    """a permutation of names (the model lists properties in the order requested)"""
    keys = [(draw(_S_KEY), i) for i in range(len(names))]
    return [names[i] for _, i in sorted(keys)]


@st.composite
def atoms_cases(draw):
    n = draw(_S_NATOMS)
    ntypes = draw(_si(1, 3))
    w, r = draw(S_CFG_PAIR)
    props = _props(draw, n, scaled_ok=False)
    names = ['atype', 'pos'] + [p['name'] for p in props]
    sel = 'all'
    if draw(_S_0_2) > 0:
        sel = list(_order(draw, names))
        if draw(_S_0_3) == 0 and len(sel) > 2:
            sel = sel[:draw(_si(1, len(sel) - 1))]
    return {'natoms': n, 'atype': [draw(_si(1, ntypes)) for _ in range(n)],
            'pos': _nested(draw, [n, 3], _S_POS), 'pos_layout': draw(S_LAYOUT), 'atype_layout': draw(S_LAYOUT1),
            'pos_dtype': draw(_S_POS_DT), 'atype_dtype': draw(_S_ATYPE_DT), 'ro': draw(S_BOOL),
            'keep_kw': draw(_S_KEEP), 'cm': draw(S_BOOL),
            'pos_unit': draw(S_LEN_UNIT_OR_NONE), 'props': props, 'select': sel,
            'how': draw(_sf(('prop_unit', 'prop_name',))), 'enc': draw(S_ENC), 'cfgW': w, 'cfgR': r}


_S_ROUTE = st.sampled_from(['model', 'model', 'dump', 'dump', 'dump', 'dump_f', 'dump_path'])
_S_INDENT = st.sampled_from([None, None, 1, 4])
_S_EXT = st.sampled_from(['.json', '.xml', '.json', '.xml', '', '.dat'])


@st.composite
def system_cases(draw):
    n = draw(_S_NATOMS)
    ntypes = draw(_si(1, 3))
    atype = [draw(_si(1, ntypes)) for _ in range(n)]
    amax = max(atype)
    # symbols: None | list of length <= / = / > number of types present, with holes
    sk = draw(_sf(('none', 'full', 'full', 'holes', 'short', 'long',)))
    if sk == 'none':
        symbols = None
    else:
        ln = {'full': amax, 'holes': amax, 'short': max(1, amax - 1), 'long': amax + 1}[sk]
        symbols = [draw(_S_ELEM) for _ in range(ln)]
        if sk == 'holes':
            symbols = [None if draw(S_BOOL) else s for s in symbols]
    nsym = len(symbols) if symbols else 0
    ntot = max(amax, nsym)
    mk = draw(_sf(('none', 'none', 'full', 'full', 'holes', 'first_none', 'short',)))
    if mk == 'none':
        masses = None
    else:
        ln = max(1, ntot - 1) if mk == 'short' else ntot
        masses = [draw(_S_MASS) for _ in range(ln)]
        if mk == 'holes':
            masses = [None if draw(S_BOOL) else m for m in masses]
        if mk == 'first_none':
            masses[0] = None
    w, r = draw(S_CFG_PAIR)
    props = _props(draw, n, scaled_ok=True)
    names = ['atype', 'pos'] + [p['name'] for p in props]
    sel = 'all'
    if draw(_S_0_2) > 0:
        sel = list(_order(draw, names))
    route = draw(_S_ROUTE)
    enc = draw(S_ENC)
    if route in ('dump_f', 'dump_path') and enc == 'dict':
        enc = 'xml'
    case = {'cell': draw(_S_CELL10), 'pbc': draw(gens.pbcs), 'natoms': n, 'atype': atype,
            'rel': _nested(draw, [n, 3], _S_REL10), 'pos_layout': draw(S_LAYOUT), 'atype_layout': draw(S_LAYOUT1),
            'pos_dtype': draw(_S_POS_DT), 'atype_dtype': draw(_S_ATYPE_DT), 'ro': draw(S_BOOL),
            'keep_kw': draw(_S_KEEP), 'cm': draw(S_BOOL),
            'symbols': symbols, 'masses': masses,
            'pos_unit': draw(_sf((None, 'scaled', 'scaled', 'angstrom', 'nm', 'm',))),
            'box_unit': draw(_sf((None, 'angstrom', 'nm', 'm', 'aBohr',))),
            'props': props, 'select': sel, 'how': draw(_sf(('prop_unit', 'prop_name',))),
            'route': route, 'enc': enc, 'indent': draw(_S_INDENT), 'cfgW': w, 'cfgR': r}
    if route == 'dump_path':
        case['ext'] = draw(_S_EXT)
        case['give_format'] = draw(S_BOOL)
    return case


# ----------------------------------------------------------------------------- elastic constants
EC_SYSTEMS = ('isotropic', 'cubic', 'hexagonal', 'tetragonal', 'rhombohedral', 'orthorhombic', 'triclinic')
_DIAG = gens.nice(3.5, 6.0, 3)
_OFF = gens.nice(0.3, 1.2, 3)
_SHEAR = gens.nice(0.5, 1.5, 3)
_COUP = st.one_of(gens.nice(0.05, 0.12, 4), gens.nice(-0.12, -0.05, 4))
_COUP0 = st.one_of(_COUP, _COUP, st.just(0.0))
_TRI_OFF = st.one_of(gens.nice(0.05, 0.6, 3), gens.nice(-0.6, -0.05, 3), st.just(0.0))
_EC_SCALE = st.sampled_from([1.0, 1.0, 30.0, 1e-3, 1e5])
_PERT = gens.nice(-1.0, 1.0, 3)


def ec_matrix(family, p):
    """6x6 stiffness (nested lists) of a crystal family in the standard setting, from named constants p.
    Written from the textbook forms (Nye); diagonal dominance of the drawn constants makes it positive definite."""
    z = 0.0
    if family == 'isotropic':
        c12, c44 = p['C12'], p['C44']
        c11 = c12 + 2 * c44
        return [[c11, c12, c12, z, z, z], [c12, c11, c12, z, z, z], [c12, c12, c11, z, z, z],
                [z, z, z, c44, z, z], [z, z, z, z, c44, z], [z, z, z, z, z, c44]]
    if family == 'cubic':
        c11, c12, c44 = p['C11'], p['C12'], p['C44']
        return [[c11, c12, c12, z, z, z], [c12, c11, c12, z, z, z], [c12, c12, c11, z, z, z],
                [z, z, z, c44, z, z], [z, z, z, z, c44, z], [z, z, z, z, z, c44]]
    if family == 'hexagonal':
        c11, c12, c13, c33, c44 = p['C11'], p['C12'], p['C13'], p['C33'], p['C44']
        c66 = (c11 - c12) / 2
        return [[c11, c12, c13, z, z, z], [c12, c11, c13, z, z, z], [c13, c13, c33, z, z, z],
                [z, z, z, c44, z, z], [z, z, z, z, c44, z], [z, z, z, z, z, c66]]
    if family == 'tetragonal':
        c11, c12, c13, c33, c44, c66, c16 = (p[k] for k in ('C11', 'C12', 'C13', 'C33', 'C44', 'C66', 'C16'))
        return [[c11, c12, c13, z, z, c16], [c12, c11, c13, z, z, -c16], [c13, c13, c33, z, z, z],
                [z, z, z, c44, z, z], [z, z, z, z, c44, z], [c16, -c16, z, z, z, c66]]
    if family == 'rhombohedral':
        c11, c12, c13, c33, c44, c14, c15 = (p[k] for k in ('C11', 'C12', 'C13', 'C33', 'C44', 'C14', 'C15'))
        c66 = (c11 - c12) / 2
        return [[c11, c12, c13, c14, c15, z], [c12, c11, c13, -c14, -c15, z], [c13, c13, c33, z, z, z],
                [c14, -c14, z, c44, z, -c15], [c15, -c15, z, z, c44, c14], [z, z, z, -c15, c14, c66]]
    if family == 'orthorhombic':
        c11, c22, c33, c12, c13, c23, c44, c55, c66 = (p[k] for k in ('C11', 'C22', 'C33', 'C12', 'C13', 'C23', 'C44', 'C55', 'C66'))
        return [[c11, c12, c13, z, z, z], [c12, c22, c23, z, z, z], [c13, c23, c33, z, z, z],
                [z, z, z, c44, z, z], [z, z, z, z, c55, z], [z, z, z, z, z, c66]]
    raise ValueError(family)


@st.composite
def elastic_cases(draw):
    fam = draw(_sf(tuple(EC_SYSTEMS)))
    s = draw(_EC_SCALE)
    if fam == 'triclinic':
        C = [[0.0] * 6 for _ in range(6)]
        for i in range(6):
            C[i][i] = draw(_DIAG) * s
            for j in range(i + 1, 6):
                C[i][j] = C[j][i] = draw(_TRI_OFF) * s
    else:
        p = {'C11': draw(_DIAG), 'C22': draw(_DIAG), 'C33': draw(_DIAG), 'C12': draw(_OFF), 'C13': draw(_OFF),
             'C23': draw(_OFF), 'C44': draw(_SHEAR), 'C55': draw(_SHEAR), 'C66': draw(_SHEAR),
             'C14': draw(_COUP), 'C15': draw(_COUP0), 'C16': draw(_COUP0)}
        C = [[x * s for x in row] for row in ec_matrix(fam, p)]
    w, r = draw(S_CFG_PAIR)
    # class E: the tensor moved off its symmetry by 10**-e of its largest entry (symmetric perturbation, 21 numbers);
    # class G: the same tensor with the Cartesian axes renamed (only judged without normalisation)
    perturb = None
    if draw(_S_0_3) == 0:
        perturb = {'e': draw(_si(3, 12)), 'P': [draw(_PERT) for _ in range(21)]}
    return {'family': fam, 'Cij': C, 'normalize': draw(_sf(('family', 'family', 'triclinic', 'default',))),
            'unit': draw(S_PRESSURE_OR_NONE), 'perturb': perturb, 'relabel': draw(_sf((0, 0, 0, 1, 2, 3, 4, 5,))), 'cm': draw(S_BOOL),
            'enc': draw(S_ENC), 'ctor': draw(S_BOOL), 'cfgW': w, 'cfgR': r}


# ----------------------------------------------------------------------------- histories: ledger, caller-side mutation, unit plans
# One caller, one process: a value array (with error), a System (its Box and Atoms: pos, a vector property 'disp' with a unit, an
# integer property 'flag') and an ElasticConstants, each with two sets of content (the caller overwrites one with the other).
# Steps (interpreted by c10.oracle_history; indices are resolved modulo what exists, so that any sub-list is a valid history):
#   {'op': 'w', 't': value|box|system|elastic, 'v': n}      write a model (variant n picks units / options), keep it
#   {'op': 'r', 'k': n, 'enc': dict|json|xml, 'v': n}        read the k-th model kept (new object, or into an existing one), keep the result
#   {'op': 'cfg', 'cfg': ..., 'rebuild': bool}                 reset_units; rebuild: the caller re-expresses its objects in the new units
#   {'op': 'min', 't': ..., 'v': n}                            the caller overwrites in place / through setters what it handed IN
#   {'op': 'mout', 'k': n, 'v': n}                             the caller overwrites in place something it was handed OUT (model or object)
HIST_TYPES = ('value', 'box', 'system', 'elastic')
_S_HT = st.sampled_from(HIST_TYPES + ('system', 'value'))
_S_V = st.integers(0, 23)
_S_K = st.integers(0, 11)
_S_STEP = st.one_of(
    st.builds(lambda t, v: {'op': 'w', 't': t, 'v': v}, _S_HT, _S_V),
    st.builds(lambda t, v: {'op': 'w', 't': t, 'v': v}, _S_HT, _S_V),
    st.builds(lambda k, e, v: {'op': 'r', 'k': k, 'enc': e, 'v': v}, _S_K, S_ENC, _S_V),
    st.builds(lambda k, e, v: {'op': 'r', 'k': k, 'enc': e, 'v': v}, _S_K, S_ENC, _S_V),
    st.builds(lambda c, b: {'op': 'cfg', 'cfg': c, 'rebuild': b}, S_CFG, S_BOOL),
    st.builds(lambda t, v: {'op': 'min', 't': t, 'v': v}, _S_HT, _S_V),
    st.builds(lambda k, v: {'op': 'mout', 'k': k, 'v': v}, _S_K, _S_V),
)
_S_WSTEP = st.builds(lambda t, v: {'op': 'w', 't': t, 'v': v}, _S_HT, _S_V)
_S_STEPS = st.lists(_S_STEP, min_size=2, max_size=9)
_S_VSHAPE = st.sampled_from([[3], [2, 3], [3, 2], [2, 2, 3], [3, 3]])
_S_NHIST = st.sampled_from([1, 2, 3, 4])


def _ec_tensor(draw):
    fam = draw(_sf(tuple(EC_SYSTEMS[:-1])))
    p = {'C11': draw(_DIAG), 'C22': draw(_DIAG), 'C33': draw(_DIAG), 'C12': draw(_OFF), 'C13': draw(_OFF),
         'C23': draw(_OFF), 'C44': draw(_SHEAR), 'C55': draw(_SHEAR), 'C66': draw(_SHEAR),
         'C14': draw(_COUP), 'C15': draw(_COUP0), 'C16': draw(_COUP0)}
    s = draw(_EC_SCALE)
    return [[x * s for x in row] for row in ec_matrix(fam, p)]


@st.composite
def history_cases(draw):
    n = draw(_S_NHIST)
    vshape = draw(_S_VSHAPE)
    data = []
    for _ in range(2):
        data.append({'cell': draw(_S_CELL10), 'rel': _nested(draw, [n, 3], _S_REL10), 'disp': _nested(draw, [n, 3], _FN),
                     'flag': _nested(draw, [n], _I), 'val': _floats(draw, vshape), 'err': _nested(draw, vshape, _S_ERR),
                     'Cij': _ec_tensor(draw)})
    ntypes = draw(_si(1, 2))
    return {'natoms': n, 'atype': [draw(_si(1, ntypes)) for _ in range(n)], 'pbc': draw(gens.pbcs),
            'symbols': [draw(_S_ELEM) for _ in range(ntypes)], 'masses': [draw(_S_MASS) for _ in range(ntypes)],
            'vshape': vshape, 'vu': draw(S_UNIT_OR_NONE), 'du': draw(S_ANY_UNIT), 'eu': draw(S_PRESSURE_OR_NONE),
            'data': data, 'cfg0': draw(S_CFG), 'steps': [draw(_S_WSTEP), draw(_S_WSTEP)] + draw(_S_STEPS)}


# ----------------------------------------------------------------------------- enumerated option combinations (class H)
# One small system (tilted cell, non-zero origin, 3 atoms, 2 types), every combination of: position unit (absent from the
# selection, None, angstrom, nm, scaled) x unit of the vector property 'disp' (absent, None, nm, scaled) x unit of the vector
# property 'v_k' (absent, scaled, angstrom/ps) x every ORDER of the selected names (atype first or last) x prop_unit /
# prop_name+unit x box_unit (default, nm) x route/encoding.  The numbers double as box-relative coordinates when 'scaled'.
_OPT_CELL = {'lx': 4.05, 'ly': 5.2, 'lz': 6.1, 'xy': 1.3, 'xz': -0.7, 'yz': 0.9, 'origin': [1.5, -2.25, 3.0], 'rot': None,
             'lefthanded': False}
_OPT_REL = [[0.0, 0.5, 0.25], [0.3125, 0.6875, 1.125], [-0.25, 0.9375, 0.4375]]
_OPT_DISP = [[0.125, -0.5, 0.75], [1.25, 0.0625, -0.375], [0.5, 0.25, -1.5]]
_OPT_VK = [[-0.75, 0.375, 0.0], [0.625, 1.5, -0.125], [0.25, -0.25, 0.875]]
_OPT_CFGS = [({'kind': 'named', 'units': {'length': 'nm', 'mass': 'kg', 'energy': 'J'}}, DEFAULT_CFG),
             (DEFAULT_CFG, {'kind': 'SI'}),
             ({'kind': 'seed', 'seed': 7}, {'kind': 'named', 'units': {'length': 'aBohr', 'time': 'fs', 'charge': 'C'}})]
_OPT_ROUTES_QUICK = [('model', 'dict'), ('dump', 'json'), ('dump_f', 'xml')]
_OPT_ROUTES_ALL = [('model', 'dict'), ('model', 'json'), ('model', 'xml'), ('dump', 'dict'), ('dump', 'json'), ('dump', 'xml'),
                   ('dump_f', 'json'), ('dump_f', 'xml'), ('dump_path', 'json'), ('dump_path', 'xml')]


@functools.lru_cache(maxsize=None)
def option_cases(tier):
    routes = _OPT_ROUTES_QUICK if tier == 'quick' else _OPT_ROUTES_ALL
    cfgs = _OPT_CFGS[:1] if tier == 'quick' else _OPT_CFGS
    cases = []
    for pos_u in ('absent', None, 'angstrom', 'nm', 'scaled'):
        for disp_u in ('absent', None, 'nm', 'scaled'):
            for vk_u in ('absent', 'scaled', 'angstrom/ps'):
                props, names = [], []
                if pos_u != 'absent':
                    names.append('pos')
                if disp_u != 'absent':
                    props.append({'name': 'disp', 'kind': 'f', 'shape': [3, 3], 'unit': disp_u, 'values': _OPT_DISP, 'layout': 'C'})
                    names.append('disp')
                if vk_u != 'absent':
                    props.append({'name': 'v_k', 'kind': 'f', 'shape': [3, 3], 'unit': vk_u, 'values': _OPT_VK, 'layout': 'C'})
                    names.append('v_k')
                for order in itertools.permutations(names):
                    for sel in (['atype'] + list(order), list(order) + ['atype']):
                        for how in ('prop_unit', 'prop_name'):
                            for box_unit in (None, 'nm'):
                                for route, enc in routes:
                                    for w, r in cfgs:
                                        case = {'cell': _OPT_CELL, 'pbc': [True, False, True], 'natoms': 3, 'atype': [1, 2, 1],
                                                'rel': _OPT_REL, 'pos_layout': 'C', 'atype_layout': 'C', 'symbols': ['Al', 'Cu'],
                                                'masses': [26.98, None], 'pos_unit': None if pos_u == 'absent' else pos_u,
                                                'box_unit': box_unit, 'props': props, 'select': sel, 'how': how, 'route': route,
                                                'enc': enc, 'indent': None, 'cfgW': w, 'cfgR': r, 'keep_kw': False, 'cm': False}
                                        if route == 'dump_path':
                                            case['ext'] = '.' + enc
                                            case['give_format'] = False
                                        cases.append(case)
    return cases
