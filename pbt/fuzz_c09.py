"""Byte-level atheris (libFuzzer) target for C09: uc.parse against my own evaluators.

  even first byte: the remaining bytes are decoded through the expression grammar into an AST + whitespace, rendered, and
                   uc.parse(text) must equal the AST evaluator (pbt/oracles/unitexpr.evaluate) to 1e-12;
  odd first byte:  the remaining bytes are taken as text; when my strict parser accepts it, uc.parse must agree
                   (text outside the grammar is not judged).  The optional seed corpus (C09_CORPUS_DIR) holds the
                   atomman.lammps.style strings in this form.

Run by pbt/checks/c09.py (clause atheris) as
    PYTHONPATH=<tree>:/verif:/verif/.deps python fuzz_c09.py -runs=N -seed=S [-artifact_prefix=DIR/]
exit 77: atheris cannot be imported (the check then records the Hypothesis-only fallback).
Working units: one random configuration per process, seed C09_UNITS_SEED.
"""
import json
import os
import sys

try:
    import atheris
except Exception:                      # pragma: no cover
    sys.exit(77)

import atomman.unitconvert as uc            # plain import (the import hook cannot load the compiled extensions) ...
uc.parse = atheris.instrument_func(uc.parse)     # ... then coverage feedback from the function under judgement only

from pbt.oracles import unitexpr as ux
from pbt import gens_c09 as g9

uc.reset_units(seed=int(os.environ.get('C09_UNITS_SEED', '12345')))
LEAF = dict(uc.unit)
NAMES = g9.COMMON + g9.EXOTIC + g9.ALL_DIM
WS = ['', ' ', '\t', '\n', '\r', '  ', ' \t', '\r\n']
XQ = [('1', '2'), ('3', '2'), ('-1', '2'), ('1', '3')]
STATS = dict(inputs=0, judged=0, grammar=0, raw_accepted=0)


def dec_exponent(fdp):
    k = fdp.ConsumeIntInRange(0, 9)
    if k < 5:
        return None
    if k < 8:
        return ['x', g9.EXPS[fdp.ConsumeIntInRange(0, len(g9.EXPS) - 1)]]
    if k == 8:
        return ['xp', g9.EXPS[fdp.ConsumeIntInRange(0, len(g9.EXPS) - 1)]]
    a, b = XQ[fdp.ConsumeIntInRange(0, len(XQ) - 1)]
    return ['xq', a, b]


def dec_factor(fdp, depth):
    k = fdp.ConsumeIntInRange(0, 9)
    if k >= 8 and depth > 0:
        return ['g', dec_expr(fdp, depth - 1), dec_exponent(fdp)]
    if k >= 6:
        return ['n', g9.LITS[fdp.ConsumeIntInRange(0, len(g9.LITS) - 1)], dec_exponent(fdp)]
    return ['u', NAMES[fdp.ConsumeIntInRange(0, len(NAMES) - 1)], dec_exponent(fdp)]


def dec_expr(fdp, depth):
    nf = 1 + fdp.ConsumeIntInRange(0, 4)
    fs = [dec_factor(fdp, depth) for _ in range(nf)]
    ops = ''.join('*/'[fdp.ConsumeIntInRange(0, 1)] for _ in range(nf - 1))
    return ['E', fs, ops]


def mismatch(**kw):
    print('C09-FUZZ-MISMATCH ' + json.dumps(kw, ensure_ascii=True), flush=True)
    raise RuntimeError('C09 fuzz mismatch')


def judge(text, expected, **ctx):
    STATS['judged'] += 1
    try:
        got = uc.parse(text)
    except Exception as e:
        mismatch(text=text, expected=expected, raised=repr(e), **ctx)
    if not (abs(float(got) - expected) <= 1e-12 * abs(expected)):
        mismatch(text=text, expected=expected, got=repr(got), **ctx)


def TestOneInput(data):
    STATS['inputs'] += 1
    n = STATS['inputs']
    if n % 5000 == 0 or n in (1, 100, 1000):
        print('C09-FUZZ-STATS ' + json.dumps(STATS), flush=True)
    if not data:
        return
    if data[0] % 2 == 0:
        fdp = atheris.FuzzedDataProvider(data[1:])
        nws = fdp.ConsumeIntInRange(0, 4)
        ws = [WS[fdp.ConsumeIntInRange(0, len(WS) - 1)] for _ in range(nws)]
        E = dec_expr(fdp, 3)
        STATS['grammar'] += 1
        try:
            expected = ux.evaluate(E, LEAF)
        except ux.RangeSkip:
            return
        judge(ux.render(E, ws), expected, ast=E, ws=ws, units_seed=os.environ.get('C09_UNITS_SEED'))
    else:
        text = data[1:].decode('utf-8', 'ignore')
        try:
            expected = ux.parse_text(text, LEAF)
        except (ux.Reject, ux.RangeSkip):
            return
        STATS['raw_accepted'] += 1
        judge(text, expected, raw=True, units_seed=os.environ.get('C09_UNITS_SEED'))


def main():
    argv = list(sys.argv)
    cdir = os.environ.get('C09_CORPUS_DIR')
    if cdir and os.path.isdir(cdir):
        import atomman.lammps as lmp
        i = 0
        for style in ('real', 'metal', 'si', 'cgs', 'electron', 'micro', 'nano'):
            for entry in lmp.style.unit(style).values():
                if isinstance(entry, str):
                    with open(os.path.join(cdir, 'style-%03d' % i), 'wb') as fh:
                        fh.write(b'\x01' + entry.encode())
                    i += 1
        argv.append(cdir)
    atheris.Setup(argv, TestOneInput)
    atheris.Fuzz()


if __name__ == '__main__':
    main()
