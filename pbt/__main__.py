import sys
from pbt.core import main
sys.exit(main())
