"""C14 - Surface and stacking-fault cells cut the right plane, between atomic layers.

Clauses
  basis         free_surface_basis on ALL planes up to an index bound (enumerated) in one generic cell per crystal
                family, centred settings and Miller-Bravais input: integer right-handed rows, zone law (exact integer
                arithmetic), reported normal = +(h a* + k b* + l c*)
  basis_random  the same oracle on random cells of every family / setting and random planes
  surface       FreeSurface(...).surface(...): same crystal (lattice map-back), periodic except across the cut, box,
                every offered termination halfway between atomic planes, minwidth / even / sizemults / vacuum
  fault         StackingFault(...).fault(...): atoms below the plane stay, atoms above move by exactly the requested
                vector modulo the in-plane cell vectors; full lattice vectors restore the crystal
  surface / fault carry object HISTORY: with a healthy share the judged surface() call is the second or third one on the
                same FreeSurface / StackingFault object (other shift / shiftindex / vector, sizemults, minwidth, even,
                vacuumwidth, fault position given or defaulted), with set_shift(), the faultpos_* and a?vect_uvw setters and
                fault() calls in between; the LAST result is judged by the same oracles as a fresh object's
  LENGTH UNIT   every clause carries an overall length unit S = 10**lscale, lscale = -12 .. 6 (0 in half of the random cases and
                three quarters of the enumerated ones, -10 = SI working units favoured among the rest): cell vectors, atom
                positions, minwidth, vacuumwidth, outofplane, faultshift, minimum_r, Cartesian fault positions and the documented
                `tol` argument of FreeSurface / StackingFault (a length: default x S) are all multiplied by S; every oracle
                tolerance is relative to the cell size.  free_surface_basis has no tolerance argument and must be unit-free.

Generator classes carried over from the seeded rounds of the other properties (all judged by the same oracles; helpers in
pbt/gens_c14.py):
 A  ledger   everything a call returned or the object handed out - uvws and normals of free_surface_basis, the systems of surface(),
             fault(), iterfaultmap(), rcell, the shifts / uvws / transform attributes - is kept with a bit-for-bit snapshot and compared
             after the LATER calls of the case on the same object and on a second object built on the same unit cell ('ledger',
             'ledger_other'); two results must not share memory, nor a result with an argument.
 B  caller   ('caller_mut') the caller keeps the objects it handed in (index / multiplier / shift-vector / faultshift arrays and lists):
             they are bit-identical (values, dtype, shape, strides) after every call; at the end it overwrites them in place together
             with the systems handed out earlier and the unit cell (positions in place, cell through box_set), then asks for the last
             result again with fresh arguments: bit for bit the same.  The system returned by surface() IS the documented `system`
             attribute and is left alone; `ucell` is documented as the caller's object and is not used after it was overwritten
             through the shift-vector setters.  Two genuine defects met (keyed, see K_SIZEMULTS, K_SHIFT).
 C  forms    hkl as tuple / int8 ... uint64 / big-endian / bool / float64-32-16 arrays, lists of numpy scalars, read-only, strided,
             negative-stride arrays ('hkl_form', 'hkl_narrow', ...); size multipliers as tuple / numpy integers / integer arrays;
             shift, faultshift, a?vect_uvw as tuples / float32 / big-endian / read-only / strided arrays (a float32 array IS the numbers
             it holds: the oracle decides from its float64 value); minwidth, vacuumwidth, a1, a2, outofplane, fault positions as
             numpy float64 / float32 scalars and 0-d arrays, shiftindex / num_a1 as numpy integers; the unit cell storing its
             positions as float32 / float16 / big-endian / Fortran-ordered / read-only / strided arrays and its types as int8 ...
             ('store...').  Index values stay within the index bound of the property (the search cost grows with the cube).
 D  units    present as the LENGTH UNIT classes above ('scaled', 'scale_si', ...).  reset_units itself does not apply: none of
             free_surface_basis, FreeSurface, StackingFault, System.rotate / supersize / wrap, Box reads the working-unit state.
 E  near     cells 1e-12 ... 1e-3 off the special values of their family ('near_sym': almost-equal lengths, almost-right angles,
             almost-zero tilts, staying off Box's 1e-9 clean-up which is modelled); a second atomic layer 1e-6 ... 1e-4 above an
             existing one, judged against the documented `tol` ('near_layer'); minwidth a hair below / above / exactly at a whole
             number of oriented cells ('minwidth_near'); the fault plane 1e-6 ... 1e-3 of the slab width from an atomic layer
             ('fpos_near_layer'); fractional shifts a hair from 0 / a full lattice vector ('kind_a12near').
 F  decades  the components of ONE fault-shift request (a1 ~ 1e-9, a2 ~ 0.4, outofplane ~ 1e-5; or a faultshift vector) span 8+
             decades: judged at rounding level (1e-12 of the coordinates) and again as the smallest component alone ('decades').
             Cell vectors spanning 8+ decades do not apply: Box zeroes components below 1e-9 of the largest one.
 G  sym      exact images of a cell: the 23 proper signed permutations of the Cartesian axes ('sym_perm'), lattice vectors renamed
             cyclically ('sym_relabel'); planes perpendicular to the cut vector, where the answer is the cell itself or a signed
             relabelling ('rows_identity', 'rows_signed_perm'); exact halves and atoms exactly on the fault plane were there.
 H  options  clause `options`: every combination of the options that touch the same state, and the state-changing calls in every
             order, enumerated (see enum_options).
"""
import functools
import itertools
import math
import os

import numpy as np
from hypothesis import strategies as st

from ..core import Clause, Violation, require
from .. import gens
from .. import gens_c14 as g14
from ..oracles import crystal_match as cm
from ..oracles import surface_ref as sr

RULE = ("basis: every integer plane (hkl) with max|index| <= 3 (thorough: 4) x the three cutboxvector values in one generic "
        "cell of each of the seven crystal families, in primitive cells of centred settings (f, i, a, b, c, t1, t2; hkl "
        "relative to the conventional cell) and with Miller-Bravais input/output for the hexagonal cell; one case = one "
        "cell and a block of planes.  basis_random: random cells of every family (optionally rigidly rotated) and setting, "
        "random planes up to index 4.  surface / fault: hand-built unit cells (1-4 atoms, 1-2 types, special and generic "
        "fractional coordinates, box origin zero) of every family and admissible centred setting, planes up to index 3 "
        "(2 for the oblique families), all three cutboxvector values, size multipliers as +/-int and (m,n) tuples, "
        "minwidth, even, vacuumwidth, every offered shiftindex; fault positions between atomic layers given as Cartesian "
        "or relative position at surface() or at fault(), fractional shifts a1,a2 in [-1.5,1.5], full lattice vectors, "
        "outofplane, full faultshift vectors, user-chosen in-plane shift vectors.  History: in about 70 % of the surface / "
        "fault cases one or two earlier surface() calls with other arguments (termination by index / vector / scaled vector / "
        "set_shift() / not given, multipliers, minwidth, even, vacuum, fault position given or defaulted) were made on the same "
        "object, with faultpos_rel / faultpos_cart / a1vect_uvw / a2vect_uvw setters and fault() calls between them; the last "
        "surface() result and the fault() / iterfaultmap() outputs after it are judged as for a fresh object.  Non-trivial: "
        "plane with >= 2 non-zero indices in a non-cubic or centred cell.  Length unit: the whole geometric input of a case "
        "(cell vectors, positions, minwidth, vacuumwidth, outofplane, faultshift, minimum_r, Cartesian fault positions, and the "
        "`tol` constructor argument, which is a length) is multiplied by S = 10**k, k in -12..6: k = 0 in half of the random "
        "cases, k = -10 (SI) in a sixth; in the enumerated basis clause one block of planes in four is given in another unit "
        "(every plane x cut is still visited once per cell).  Carried over from the seeded rounds of the other properties: a ledger of "
        "every returned array / system re-judged bit for bit after later calls on the same and on a second object; arguments "
        "bit-identical after every call, then overwritten by the caller together with earlier results and the unit cell before the "
        "last result is asked for again; input forms (tuple, narrow / unsigned / big-endian / bool / float index arrays, numpy scalars, "
        "read-only / strided arrays, float32 vectors, float32 / float16 / Fortran / read-only storage of the unit cell); near-threshold "
        "inputs (cells 1e-12 ... 1e-3 off their family, atomic layers 1e-6 ... 1e-4 apart, minwidth a hair from a whole number of "
        "cells, fault plane a hair from a layer, shifts a hair from a lattice vector); shift requests whose components span 8+ decades; "
        "exact signed-permutation / renamed images of the cells and planes perpendicular to the cut vector; option combinations and "
        "call orders enumerated (clause options).")
ASSUMPTIONS = [
    "numpy linear algebra is correct",
    "the table of primitive cell vectors per centring (pbt/oracles/surface_ref.PN, the standard choices used by "
    "atomman.tools.miller) defines which conventional cell a primitive box belongs to",
    "lattice parameters are 2-12 times the length unit S of the case; S ranges over 1e-12 .. 1e6 (the property holds whatever "
    "the length unit).  free_surface_basis documents no tolerance argument and no unit, so its answer must not depend on S",
    "the `tol` argument of FreeSurface / StackingFault ('Tolerance parameter used to round off near-zero values') is an absolute "
    "length in working units (coordinates along the cut are rounded to -log10(tol) decimals, the cell width is compared at "
    "atol=tol): cases with S = 1 leave it at its default, cases in another unit pass default x S (FreeSurface 1e-7 S, "
    "StackingFault 1e-8 S); minwidth, vacuumwidth, outofplane ('absolute units'), faultshift, minimum_r, faultpos_cart are "
    "lengths in working units and are given in the unit of the case",
    "a failure of a case with S != 1 is attributed to the keyed unit dependence of free_surface_basis only when "
    "free_surface_basis itself, called directly, refuses or returns invalid rows for the cell in that unit AND returns valid "
    "rows for the same cell at S = 1; a shift vector leaving the plane that is accepted is attributed to the keyed absolute "
    "in-plane test only when the same vectors on the same cell at S = 1 are refused",
    "AssertionError('Failed to find ...') from free_surface_basis is the refusal its Raises section documents; it is "
    "accepted only if a larger maxindex (<= 3*default+3) then succeeds, and its share is rate-guarded",
    "ValueError('... cannot have x/y/z component for cutboxvector') is the documented refusal of an orientation whose "
    "out-of-plane vector is not perpendicular to the plane; it is accepted only when my own vectors are not perpendicular",
    "the out-of-plane row is required to point to the side of the reported normal (docstring: 'an out-of-plane vector "
    "close to the plane normal')",
    "FreeSurface.shifts is documented as 'all shift values that place the fault halfway between atomic layers': "
    "halfway and completeness are asserted, not only 'strictly between'",
    "an atom whose coordinate equals the fault position exactly is not 'above' the plane (docstring of fault/abovefault) "
    "and must stay; this is asserted only when every atom within 1e-7 x width of the plane in force equals faultpos_cart as a "
    "float (the numbers atomman itself compares); a case with an atom inside that band but not exactly on the plane is outside "
    "the property's domain ('fault positions lying between atomic layers'): labelled atom_on_fault_plane_exempt, no "
    "moved / stayed / restoration assertion, share guarded",
    "unit cells whose atomic layers along the plane normal are closer than 1e-4 S without coinciding (1e-9 S) are exempt "
    "from the layer-counting assertions",
    "what persists between calls on one object is taken from the docstrings only: surface() without shift / shiftindex uses "
    "'the current value set to the shift attribute' (last of constructor, set_shift(), an earlier surface()); set_shift() "
    "without arguments selects shiftindex 0; sizemults, minwidth, even, vacuumwidth have per-call defaults ([1,1,1], none, "
    "False, none); StackingFault.surface() without a fault position places it at 0.5 ('Default value is 0.5') whatever was set "
    "before; a1vect_uvw / a2vect_uvw assigned through their setters stay in force (surface() does not mention them).  Whether a "
    "fault position or shift vector passed to fault() outlives that call is not stated and never relied on",
    "System.rotate / supersize / wrap are decided by C04 / C05; box origin of the unit cell is zero (the translation "
    "convention of rotate for other origins is not fixed by the property)",
    "a float32 / float16 / integer array or numpy scalar handed in means the float64 value it holds; a unit cell whose positions are "
    "stored in float32 / float16 consists of those stored values (generic coordinates only: layers that coincide before the rounding "
    "would be an ambiguity of the caller's data)",
    "Box zeroes every component of the cell vectors below 1e-9 of the largest one (modelled for the near-symmetric cells; the "
    "generator stays off the threshold itself: perturbations 1e-12, 1e-11 or >= 1e-7)",
    "atomic layers more than `tol` apart cannot be merged by FreeSurface (coordinates along the cut are rounded to -log10(tol) "
    "decimals): in a unit cell built with two layers 1e-6 ... 1e-4 apart the layer structure counts as ambiguous only below 3 tol",
    "the size multipliers are documented as 'list or tuple' and as input: they must be accepted as a tuple and be unchanged after the "
    "call; a shift handed in as an array is a value, not a reference: overwriting the caller's array later, or the array handed out as "
    "the `shift` attribute, must not change the termination in force nor the table of offered shifts (both violated by the unchanged "
    "code: keyed findings); the system returned by surface() is the object's `system` attribute (documented) and is not overwritten",
    "one vector search returns within 120 s of wall time (search bound <= 39: about a second)",
]
LEVEL_TEXT = ("All planes up to index 3 (thorough 4) with all three out-of-plane choices in a generic cell of each crystal "
              "family, centred settings and Miller-Bravais indices, plus random cells; surface and stacking-fault systems "
              "built from hand-made unit cells over multipliers, minimum widths, vacuum, every termination, fault "
              "positions between layers and fractional / full-lattice shifts.  All of it in length units from 1e-12 to 1e6 "
              "(angstrom-scale numbers in half of the cases, SI metres favoured among the others).  Every returned array / system "
              "is re-judged bit for bit after later calls and after the caller overwrote its arguments, earlier results and the unit "
              "cell; indices, multipliers, vectors, scalars and the stored positions in narrow / unsigned / big-endian / float32 / "
              "read-only / strided forms; near-symmetric cells, nearly coincident layers, near-integer widths and shifts; shift "
              "components over 8+ decades; exact signed-permutation images of the cells; option combinations and call orders enumerated.")
TECHNIQUE = ("exact integer zone-law / determinant arithmetic, independent reciprocal vectors, lattice map-back with "
             "multiplicity, independent layer analysis along the plane normal, displacement modulo the in-plane lattice; result "
             "ledger; caller-side mutation; dtype / layout variants; near-threshold and decade-spanning inputs; enumerated option "
             "combinations")
WALL = {'quick': 75, 'thorough': 600}

K_PARALLEL = 'C14:free_surface_basis:parallel-inplane-rows'
K_SCALE = 'C14:free_surface_basis:absolute-isclose-inplane-test:cell-not-angstrom-scale'
K_AVECT = 'C14:StackingFault:avect_uvw-inplane-test-absolute:cell-not-angstrom-scale'
K_SIZEMULTS = 'C14:surface:sizemults-written-in-place:tuple-refused-or-callers-list-edited'
K_SHIFT = 'C14:set_shift:shift-is-the-callers-array-or-a-row-of-shifts'
CUTIDX = {'a': 0, 'b': 1, 'c': 2}
FAMILIES = gens.FAMILIES


# ----------------------------------------------------------------------------- cells (case -> numbers)

def cell_S(cell):
    """the length unit of the case: every length of the case is the angstrom-scale number times S = 10**lscale"""
    return 10.0 ** int(cell.get('lscale') or 0)


def scale_labels(cell):
    k = int(cell.get('lscale') or 0)
    if not k:
        return set()
    out = {'scaled', 'scale_small' if k < 0 else 'scale_large'}
    if k == -10:
        out.add('scale_si')
    if abs(k) <= 2:
        out.add('scale_near')
    return out


def class_labels(cell):
    """labels of the cell classes carried over from the seeded rounds (G exact images, E near-symmetric)"""
    out = set()
    if cell.get('perm'):
        out |= {'sym', 'sym_perm'}
    if cell.get('relabel'):
        out |= {'sym', 'sym_relabel'}
    if cell.get('pert'):
        out.add('near_sym')
        out.add('near_sym_tiny' if int(cell['pert']['e']) <= -11 else 'near_sym_visible')
    return out


def cell_txt(cell):
    k = int(cell.get('lscale') or 0)
    extra = ''
    if cell.get('pert'):
        extra += ' [parameters x (1 + 1e%d x %r)]' % (cell['pert']['e'], cell['pert']['v'])
    if cell.get('relabel'):
        extra += ' [vectors renamed cyclically by %d]' % cell['relabel']
    if cell.get('perm'):
        extra += ' [Cartesian axes permuted %r signs %r]' % tuple(cell['perm'])
    return '%r%s%s' % (cell['abc'], ' [lengths x 1e%d]' % k if k else '', extra)


def cell_abc(cell):
    """lattice parameters of the case; `pert` (class E, near-threshold) takes a cell of a crystal family 1e-12 ... 1e-3 (relative)
    off its special values: almost-equal lengths, almost-right / almost-120-degree angles, almost-zero tilts"""
    abc = [float(x) for x in cell['abc']]
    pt = cell.get('pert')
    if pt:
        d = 10.0 ** int(pt['e'])
        abc = [x * (1.0 + d * float(v)) for x, v in zip(abc, pt['v'])]
    return abc


def cell_vconv(cell):
    lx, ly, lz, xy, xz, yz = gens.abc_to_lammps(*cell_abc(cell))
    V = np.array([[lx, 0.0, 0.0], [xy, ly, 0.0], [xz, yz, lz]], dtype=float)
    if cell.get('pert'):
        # Box zeroes every component below 1e-9 of the largest one when the vectors are set (modelled, the generator stays off
        # the threshold itself): the cell atomman works with is the cleaned one
        V[np.abs(V) <= 1e-9 * np.abs(V).max()] = 0.0
    if cell.get('relabel'):
        # class G: the same lattice with its vectors renamed cyclically (a b c -> b c a / c a b): a cell that is not in the
        # lower-triangular normal form although nothing was rotated
        V = np.roll(V, -int(cell['relabel']), axis=0)
    if cell.get('rot'):
        V = V @ gens.rotation_matrix(*cell['rot']).T
    if cell.get('perm'):
        # class G: an exact proper signed permutation of the Cartesian axes (no rounding): axis-aligned but not in normal form
        p, sg = cell['perm']
        V = V[:, [int(i) for i in p]] * np.array([float(x) for x in sg])
    return V * cell_S(cell)


def cell_vprim(cell):
    return sr.prim_vects(cell_vconv(cell), cell.get('setting', 'p'))


def is_nt_plane(cell, hkl3):
    nz = sum(1 for x in hkl3 if x)
    return nz >= 2 and (cell['family'] != 'cubic' or cell.get('setting', 'p') != 'p')


def plane3(hkl):
    return sr.hex_plane4to3(hkl) if len(hkl) == 4 else [int(x) for x in hkl]


# ----------------------------------------------------------------------------- the basis oracle (one call)

def _is_refusal(e):
    return isinstance(e, AssertionError) and 'Failed to find' in str(e)


COST_LIMIT = 120.0      # seconds of wall time for ONE vector search (indices <= 4, search bound <= 3 x 12 + 3: seconds at most)


class cost_limit:
    """The search of free_surface_basis is a triple loop over (2 maxindex + 2)^3 candidates; the planes of this check keep the
    default bound at 12 or below (costlier ones are skipped), i.e. about a second.  A call that has not returned after COST_LIMIT
    seconds of wall time (two orders of magnitude more, the machine may be busy) is reported instead of being waited for - an index
    array taken in an unsigned dtype turns -m into 256 - m and the bound into hundreds."""

    def __init__(self, what):
        self.what = what

    def _fire(self, signum, frame):
        raise Violation('%s did not return within %.0f s (search bound <= 39 expected: seconds)' % (self.what, COST_LIMIT))

    def __enter__(self):
        import signal
        self.old = signal.signal(signal.SIGALRM, self._fire)
        signal.setitimer(signal.ITIMER_REAL, COST_LIMIT)
        return self

    def __exit__(self, *exc):
        import signal
        signal.setitimer(signal.ITIMER_REAL, 0.0)
        signal.signal(signal.SIGALRM, self.old)
        return False


def call_basis(am, hkl, box, cut, setting, ret_hex, maxindex=None):
    from atomman.defect import free_surface_basis
    kw = dict(box=box, cutboxvector=cut, return_planenormal=True)
    if setting != 'p':
        kw['conventional_setting'] = setting
    if ret_hex is not None:
        kw['return_hexagonal'] = ret_hex
    if maxindex is not None:
        kw['maxindex'] = maxindex
    with cost_limit('free_surface_basis(%r, cutboxvector=%r)' % (hkl, cut)):
        return free_surface_basis(hkl, **kw)


def judge_basis(out, hkl, Vp, setting, cut, expect4, what):
    """all assertions on one returned (uvws, planenormal); returns (status, int rows in primitive 3-index form)
    status 'ok' or 'parallel' (the keyed defect: two parallel in-plane rows)"""
    require(isinstance(out, tuple) and len(out) == 2, lambda: '%s: return_planenormal=True returned %r' % (what, type(out)))
    uvws, normal = out
    uvws = np.asarray(uvws)
    normal = np.asarray(normal, dtype=float)
    require(normal.shape == (3,) and np.all(np.isfinite(normal)) and np.linalg.norm(normal) > 0,
            lambda: '%s: plane normal %r is not a finite non-zero 3-vector' % (what, normal))
    if expect4:
        require(uvws.shape == (3, 4), lambda: '%s: Miller-Bravais rows expected, got shape %r' % (what, uvws.shape))
        s = np.abs(uvws[:, :3].astype(float).sum(axis=1)).max()
        require(s <= 1e-9, lambda: '%s: Miller-Bravais rows with u+v+t != 0:\n%r' % (what, uvws))
        r3 = sr.hex_vector4to3_times3(uvws) / 3.0
    else:
        require(uvws.shape == (3, 3), lambda: '%s: 3x3 rows expected, got shape %r' % (what, uvws.shape))
        r3 = uvws.astype(float)
    ri = np.rint(r3)
    require(np.all(np.isfinite(r3)) and np.abs(r3 - ri).max() <= 1e-9,
            lambda: '%s: rows are not integer lattice vectors:\n%r' % (what, uvws))
    rows = [[int(x) for x in r] for r in ri]
    h3 = plane3(hkl)
    ci = CUTIDX[cut]
    inpl = [i for i in range(3) if i != ci]
    z = sr.zone_numerators(h3, rows, setting)
    for i in inpl:
        require(z[i] == 0, lambda: '%s: row %d %r (meant to lie in the plane) has h u + k v + l w = %s/%d != 0; rows %r'
                % (what, i, rows[i], z[i], sr.DEN[setting], rows))
    par = not any(sr.icross(rows[inpl[0]], rows[inpl[1]]))
    if par:
        return 'parallel', rows
    require(z[ci] != 0, lambda: '%s: the out-of-plane row %r lies in the plane (h u + k v + l w = 0); rows %r' % (what, rows[ci], rows))
    d = sr.idet(rows)
    dV = float(np.linalg.det(Vp))
    require(d != 0, lambda: '%s: rows are linearly dependent (det 0): %r' % (what, rows))
    require((d > 0) == (dV > 0), lambda: '%s: rows %r are left-handed (det %d, cell det %.3g)' % (what, rows, d, dV))
    g = sr.plane_g(h3, Vp, setting)
    gn, nn = float(np.linalg.norm(g)), float(np.linalg.norm(normal))
    cr = float(np.linalg.norm(np.cross(normal, g))) / (gn * nn)
    cond = float(np.linalg.cond(Vp))
    require(cr <= 1e-9 * cond, lambda: '%s: reported normal %r is not parallel to h a* + k b* + l c* = %r (sin = %.3g)'
            % (what, normal.tolist(), g.tolist(), cr))
    require(float(np.dot(normal, g)) > 0, lambda: '%s: reported normal %r is antiparallel to h a* + k b* + l c* = %r'
            % (what, normal.tolist(), g.tolist()))
    require(z[ci] > 0, lambda: '%s: out-of-plane row %r points to the back of the plane (h u + k v + l w = %s/%d < 0, '
            'normal side is +)' % (what, rows[ci], z[ci], sr.DEN[setting]))
    return 'ok', rows


def basis_status(am, hkl, cell, cut, ret_hex, maxindex=None):
    """one free_surface_basis call (default maxindex unless given), judged: ('ok' | 'parallel', rows), ('refused', message) or
    ('wrong', what is wrong with the rows)"""
    setting = cell.get('setting', 'p')
    Vp = cell_vprim(cell)
    expect4 = (len(hkl) == 4) if ret_hex is None else bool(ret_hex)
    try:
        out = call_basis(am, hkl, am.Box(vects=Vp), cut, setting, ret_hex, maxindex=maxindex)
    except AssertionError as e:
        if not _is_refusal(e):
            raise
        return 'refused', 'raises AssertionError(%s)%s' % (e, '' if maxindex is None else ' also with maxindex=%d' % maxindex)
    try:
        return judge_basis(out, hkl, Vp, setting, cut, expect4, 'free_surface_basis')
    except Violation as v:
        return 'wrong', 'answers wrongly (%s)' % v.detail[:300]


def scale_diagnosis(am, hkl, cell, cut, ret_hex=None, retry=False):
    """Only for a case in other units than angstrom-scale numbers (lscale != 0), after something went wrong: is it
    free_surface_basis itself that refuses / answers wrongly for the cell in these units while it answers correctly for the
    same cell (same shape, same orientation) in angstrom-scale numbers?  Returns the description of the keyed defect or None."""
    k = int(cell.get('lscale') or 0)
    if not k:
        return None
    s1 = basis_status(am, hkl, cell, cut, ret_hex)
    if s1[0] not in ('refused', 'wrong'):
        return None
    if s1[0] == 'refused':
        # the documented refusal at the default search bound (e.g. the shortest in-plane vector exactly as long as the initial
        # bound, decided by rounding - which differs from unit to unit) is cured by a larger bound; the unit dependence refuses
        # at every bound
        d = sr.default_maxindex(plane3(hkl), cell.get('setting', 'p'))
        for mi in (d + 1, d + 2, 2 * d + 2, 3 * d + 3):
            sx = basis_status(am, hkl, cell, cut, ret_hex, maxindex=mi)
            if sx[0] != 'refused':
                break
        if sx[0] in ('ok', 'parallel'):
            return None
    twin = dict(cell, lscale=0)
    s0 = basis_status(am, hkl, twin, cut, ret_hex)
    if s0[0] == 'refused' and retry:
        # the documented refusal at the default search bound in both units: compare at the bound that cures it at angstrom scale
        d = sr.default_maxindex(plane3(hkl), cell.get('setting', 'p'))
        for mi in (d + 1, d + 2, 2 * d + 2, 3 * d + 3):
            s0 = basis_status(am, hkl, twin, cut, ret_hex, maxindex=mi)
            if s0[0] != 'refused':
                break
        if s0[0] != 'ok':
            return None
        s1 = basis_status(am, hkl, cell, cut, ret_hex, maxindex=mi)
        if s1[0] not in ('refused', 'wrong'):
            return None
    if s0[0] != 'ok':
        return None
    return ('free_surface_basis(%r, %s(%s) cell %s, cutboxvector=%r) %s, while for the same cell in angstrom-scale numbers %r it '
            'returns the valid rows %r: the result depends on the length unit (absolute tolerance on a length^3 quantity)'
            % (hkl, cell['family'], cell.get('setting', 'p'), cell_txt(cell), cut, s1[1], cell['abc'], s0[1]))


def basis_one(am, hkl, box, Vp, setting, cut, ret_hex, what, cell=None, got=None, arg=None):
    """returns status in {'ok','refusal','parallel'} and rows (or None); the raw (uvws, normal) of every successful call is
    appended to `got`"""
    expect4 = (len(hkl) == 4) if ret_hex is None else bool(ret_hex)
    arg = hkl if arg is None else arg           # the object the caller hands in (class C forms); judged against the plain ints
    try:
        out = call_basis(am, arg, box, cut, setting, ret_hex)
        if got is not None:
            got.append(out)
    except AssertionError as e:
        if not _is_refusal(e):
            raise
        if cell is not None:
            # cheap early exit for the keyed unit dependence (before the costly retries with larger search bounds)
            d = scale_diagnosis(am, hkl, cell, cut, ret_hex, retry=True)
            if d:
                raise Violation(d, key=K_SCALE)
        # documented refusal: must be curable by a larger search bound
        h3 = plane3(hkl)
        d = sr.default_maxindex(h3, setting)
        tried = []
        for mi in (d + 1, d + 2, 2 * d + 2, 3 * d + 3):
            if mi in tried:
                continue
            tried.append(mi)
            try:
                out = call_basis(am, arg, box, cut, setting, ret_hex, maxindex=mi)
                if got is not None:
                    got.append(out)
            except AssertionError as e2:
                if not _is_refusal(e2):
                    raise
                continue
            st_, rows = judge_basis(out, hkl, Vp, setting, cut, expect4, what + ' [maxindex=%d after refusal]' % mi)
            return ('refusal' if st_ == 'ok' else st_), rows
        if cell is not None:
            dg = scale_diagnosis(am, hkl, cell, cut, ret_hex, retry=True)
            if dg:
                raise Violation(dg, key=K_SCALE)
        raise Violation("%s: refused with %r and no maxindex up to 3*default+3 = %d cures it (tried %r)"
                        % (what, str(e), 3 * d + 3, tried))
    try:
        return judge_basis(out, hkl, Vp, setting, cut, expect4, what)
    except Violation as v:
        if cell is not None and v.key is None:
            d = scale_diagnosis(am, hkl, cell, cut, ret_hex)
            if d:
                raise Violation(d, key=K_SCALE) from None
        raise


def hkl_arg(form, hkl):
    """the plane indices the way the caller hands them in (class C); None: a plain list as before"""
    return list(hkl) if not form else g14.int_arg(form, hkl)


def form_labels(prefix, form):
    if not form or form == 'list':
        return set()
    out = {prefix + '_form'}
    if form in g14.NARROW_INT:
        out.add(prefix + '_narrow')
    elif form in ('f8', 'f4', 'f2', 'bef8'):
        out.add(prefix + '_float')
    elif form in ('ro', 'strided', 'rev'):
        out.add(prefix + '_layout')
    return out


def oracle_basis(case):
    import atomman as am
    cell = case['cell']
    setting = cell.get('setting', 'p')
    Vp = cell_vprim(cell)
    box = am.Box(vects=Vp)
    labels = {cell['family'], 'setting_' + setting} | scale_labels(cell) | class_labels(cell)
    if setting != 'p':
        labels.add('centred')
    if cell.get('rot'):
        labels.add('rigid_rot')
    mode = case.get('hex', '3')
    form = case.get('form')
    caller = bool(case.get('caller'))
    known = []
    ncall = 0
    ledger = g14.Ledger(Violation)
    box_snap = np.array(box.vects)
    handed = []
    for hkl3 in case['planes']:
        if mode in ('4', '4to3'):
            hkl = [hkl3[0], hkl3[1], -(hkl3[0] + hkl3[1]), hkl3[2]]
        else:
            hkl = list(hkl3)
        ret_hex = {'3': None, '4': None, '3to4': True, '4to3': False}[mode]
        if is_nt_plane(cell, hkl3):
            labels.add('nt')
        for cut in case['cuts']:
            ncall += 1
            what = 'free_surface_basis(%r%s, %s(%s) cell %s%s, cutboxvector=%r%s)' % (
                hkl, ' as %s' % form if form else '', cell['family'], setting, cell_txt(cell), ' rotated' if cell.get('rot') else '', cut,
                '' if ret_hex is None else ', return_hexagonal=%r' % ret_hex)
            harg = ledger.add_input(hkl_arg(form, hkl), 'hkl of ' + what) if form else hkl
            if form:
                labels |= form_labels('hkl', form if g14.int_form_fits(form, hkl) else 'i8')
            got = []
            status, rows = basis_one(am, hkl, box, Vp, setting, cut, ret_hex, what, cell=cell, got=got, arg=harg)
            labels.add(status)
            labels.add('cut_' + cut)
            if status == 'parallel':
                known.append('%s returned two parallel in-plane rows %r (determinant 0)' % (what, rows))
            # class A: what the call returned is kept and compared bit for bit after the later calls of the case
            for out in got:
                ledger.add_array(out[0], 'uvws of ' + what)
                ledger.add_array(out[1], 'plane normal of ' + what)
            # class B: the arguments are bit-identical after the call
            ledger.verify_inputs(' by ' + what)
            require(np.array_equal(np.asarray(box.vects), box_snap), lambda: '%s changed the box it was given' % what)
            if caller and got and status == 'ok':
                handed.append((hkl, cut, ret_hex, harg, got[-1], what))
    if mode != '3':
        labels.add('hex_' + mode)
    if known:
        raise Violation('%d of %d calls: %s' % (len(known), ncall, known[0]), key=K_PARALLEL)
    n = ledger.verify(' after the later calls of the case')
    if n >= 4:
        labels.add('ledger')
    if handed:
        # class A again, for a case with a single call too: the same question is asked once more with equal (fresh) arguments - the
        # answer is the first one bit for bit, the first answer did not move and the two do not share memory
        snaps = [(np.array(o[0], copy=True), np.array(o[1], copy=True)) for _, _, _, _, o, _ in handed]

        def ask_again(stage):
            for (hkl, cut, ret_hex, harg, out, what), (u0, n0) in zip(handed, snaps):
                again = call_basis(am, hkl_arg(form, hkl), box, cut, setting, ret_hex)
                ledger.add_array(again[0], 'uvws of %s asked again%s' % (what, stage))
                ledger.add_array(again[1], 'plane normal of %s asked again%s' % (what, stage))
                require(np.array_equal(np.asarray(again[0]), u0) and np.array_equal(np.asarray(again[1]), n0),
                        lambda: '%s asked again%s: %r / %r, the first answer was %r / %r'
                        % (what, stage, np.asarray(again[0]).tolist(), np.asarray(again[1]).tolist(), u0.tolist(), n0.tolist()))
        ask_again('')
        ledger.verify(' after the same question was asked again')
        labels.add('ledger')
        # class B: the caller overwrites in place what it handed in (a writable index array) and everything that was handed out,
        # then asks once more: the answer is still the first one
        for arr, _, _ in ledger.arrays:
            ledger.drop(arr)
            arr[...] = 7 if arr.dtype.kind != 'f' else -3.25
        for hkl, cut, ret_hex, harg, out, what in handed:
            if isinstance(harg, np.ndarray) and harg.flags.writeable:
                harg[...] = 1
        if len(handed) == 1 or case.get('caller') == 'all':
            ask_again(' after the caller overwrote the index array it had passed and the arrays of the earlier answers')
            ledger.verify(' at the end')
        labels.add('caller_mut')
    return labels


# ----------------------------------------------------------------------------- enumeration of the basis clause

GENERIC = {
    'cubic': [3.3, 3.3, 3.3, 90.0, 90.0, 90.0],
    'tetragonal': [3.1, 3.1, 4.7, 90.0, 90.0, 90.0],
    'orthorhombic': [3.0, 3.9, 5.3, 90.0, 90.0, 90.0],
    'hexagonal': [3.2, 3.2, 5.2, 90.0, 90.0, 120.0],
    'rhombohedral': [4.1, 4.1, 4.1, 71.0, 71.0, 71.0],
    'monoclinic': [3.0, 3.7, 4.9, 90.0, 104.0, 90.0],
    'triclinic': [3.0, 3.7, 4.9, 81.0, 104.0, 97.0],
}
GENERIC2 = {     # second set (thorough): obtuse / acute variants
    'cubic': [4.05, 4.05, 4.05, 90.0, 90.0, 90.0],
    'tetragonal': [4.6, 4.6, 2.95, 90.0, 90.0, 90.0],
    'orthorhombic': [6.1, 4.2, 2.9, 90.0, 90.0, 90.0],
    'hexagonal': [2.95, 2.95, 4.68, 90.0, 90.0, 120.0],
    'rhombohedral': [3.9, 3.9, 3.9, 103.0, 103.0, 103.0],
    'monoclinic': [5.1, 3.3, 6.4, 90.0, 63.0, 90.0],
    'triclinic': [4.4, 3.1, 5.6, 112.0, 74.0, 61.0],
}
CENTRED = [('cubic', 'f'), ('tetragonal', 'i'), ('orthorhombic', 'c'), ('monoclinic', 'a'), ('hexagonal', 't1'),
           ('cubic', 'i'), ('orthorhombic', 'f'), ('orthorhombic', 'b'), ('hexagonal', 't2'), ('monoclinic', 'c')]


@functools.lru_cache(maxsize=None)
def all_planes(n):
    return [list(p) for p in itertools.product(range(-n, n + 1), repeat=3) if any(p)]


def _blocks(planes, size):
    return [planes[i:i + size] for i in range(0, len(planes), size)]


ENUM_SCALES = (-10, 1, -10, -8, -2, -10, 3, -12, -5, -1, -10, 6, -3, 2, -6, -10, -9, -4)


def _unit(cell, bi, every, j=0):
    """the cell of block #bi: one block in `every` is given in another length unit (cycling through ENUM_SCALES)"""
    if bi % every != every - 1:
        return cell
    return dict(cell, lscale=ENUM_SCALES[(bi // every + 5 * j) % len(ENUM_SCALES)])


def enum_basis(tier):
    cases = []
    rot = [[1, 2, 3], 37.5]
    if tier == 'quick':
        P = all_planes(3)
        for fam in FAMILIES:
            cell = {'family': fam, 'abc': GENERIC[fam], 'setting': 'p', 'rot': None}
            full = fam in ('triclinic', 'monoclinic', 'rhombohedral', 'hexagonal')
            mode = '4' if fam == 'hexagonal' else '3'
            for bi, blk in enumerate(_blocks(P, 3)):
                cuts = 'abc' if full else 'cab'[bi % 3]
                cases.append({'cell': _unit(cell, bi, 4, FAMILIES.index(fam)), 'planes': blk, 'cuts': cuts, 'hex': mode})
        # sampled: centred settings, the other Miller-Bravais modes, a rigidly rotated cell
        for j, (fam, s) in enumerate(CENTRED[:5]):
            cell = {'family': fam, 'abc': GENERIC[fam], 'setting': s, 'rot': None}
            for bi, blk in enumerate(_blocks(P[j % 3::3], 3)):
                cases.append({'cell': _unit(cell, bi, 4, j), 'planes': blk, 'cuts': 'cab'[bi % 3], 'hex': '3'})
        hexc = {'family': 'hexagonal', 'abc': GENERIC['hexagonal'], 'setting': 'p', 'rot': None}
        for k, mode in enumerate(('3', '3to4', '4to3')):
            for bi, blk in enumerate(_blocks(P[k::6], 3)):
                cases.append({'cell': _unit(hexc, bi, 4, k), 'planes': blk, 'cuts': 'cab'[bi % 3], 'hex': mode})
        tric = {'family': 'triclinic', 'abc': GENERIC2['triclinic'], 'setting': 'p', 'rot': rot}
        for bi, blk in enumerate(_blocks(P[1::4], 3)):
            cases.append({'cell': _unit(tric, bi, 4, 3), 'planes': blk, 'cuts': 'cab'[bi % 3], 'hex': '3'})
    else:
        P = all_planes(4)
        for table in (GENERIC, GENERIC2):
            for fam in FAMILIES:
                cell = {'family': fam, 'abc': table[fam], 'setting': 'p', 'rot': rot if table is GENERIC2 and fam == 'triclinic' else None}
                mode = '4' if fam == 'hexagonal' and table is GENERIC else '3'
                for bi, blk in enumerate(_blocks(P if table is GENERIC else all_planes(3), 2)):
                    cases.append({'cell': _unit(cell, bi, 4, FAMILIES.index(fam)), 'planes': blk, 'cuts': 'abc', 'hex': mode})
        P3 = all_planes(3)
        for j, (fam, s) in enumerate(CENTRED):
            cell = {'family': fam, 'abc': GENERIC[fam], 'setting': s, 'rot': None}
            for bi, blk in enumerate(_blocks(P3, 3)):
                cases.append({'cell': _unit(cell, bi, 4, j), 'planes': blk, 'cuts': 'cab'[bi % 3], 'hex': '3'})
        hexc = {'family': 'hexagonal', 'abc': GENERIC2['hexagonal'], 'setting': 'p', 'rot': None}
        for mode in ('3to4', '4to3'):
            for bi, blk in enumerate(_blocks(P3, 3)):
                cases.append({'cell': _unit(hexc, bi, 4, 2), 'planes': blk, 'cuts': 'cab'[bi % 3], 'hex': mode})
    # generator classes carried over from the seeded rounds.  G / E: exact images (signed axis permutation, renamed vectors) and
    # near-symmetric versions of the generic cells, a third (thorough: all) of the planes each
    P3 = all_planes(3)
    extra = [({'family': 'orthorhombic', 'abc': GENERIC['orthorhombic'], 'setting': 'p', 'rot': None, 'perm': [[1, 2, 0], [1, -1, -1]]}, 0),
             ({'family': 'tetragonal', 'abc': GENERIC['tetragonal'], 'setting': 'p', 'rot': None, 'relabel': 1}, 1),
             ({'family': 'cubic', 'abc': GENERIC['cubic'], 'setting': 'p', 'rot': None,
               'pert': {'e': -6, 'v': [1.0, -0.5, 0.3, 0.5, -1.0, 0.3]}}, 2),
             ({'family': 'monoclinic', 'abc': GENERIC['monoclinic'], 'setting': 'p', 'rot': None, 'perm': [[0, 2, 1], [-1, 1, 1]],
               'relabel': 2}, 3),
             ({'family': 'hexagonal', 'abc': GENERIC['hexagonal'], 'setting': 'p', 'rot': None,
               'pert': {'e': -12, 'v': [1.0, -1.0, 0.5, 1.0, -1.0, 0.5]}}, 4)]
    for cell, j in extra:
        planes = P3 if tier != 'quick' else P3[j::12]
        for bi, blk in enumerate(_blocks(planes, 3)):
            cases.append({'cell': _unit(cell, bi, 4, j), 'planes': blk, 'cuts': 'cab'[bi % 3] if tier == 'quick' else 'abc', 'hex': '3'})
    # C / B: how the caller hands the indices in (every form in turn over one case in three) and, for one case in twenty, the caller
    # overwriting what it handed in and what was handed out before asking again
    for i, c in enumerate(cases):
        if i % 3 == 1:
            c['form'] = g14.INT_FORMS[(i // 3) % len(g14.INT_FORMS)]
        if i % 20 == 4:
            c['caller'] = True
    # fixed permutation of the list: every shard (cases[shard::n]) and every prefix of a shard then holds all cells and
    # settings in proportion, so a run cut short by the soft wall budget is still representative and shards cost the same
    N = len(cases)
    step = next(q for q in (7919, 7907, 7901, 7883, 7879, 7877) if math.gcd(q, N) == 1)
    cases = [cases[(i * step) % N] for i in range(N)]
    # development aid only: VERIF_SCALE < 1 thins the enumeration (the clause is exhaustive at scale >= 1)
    scale = float(os.environ.get('VERIF_SCALE', '1'))
    if scale < 1:
        step = int(math.ceil(1.0 / scale))
        cases = cases[::step]
    return cases


# ----------------------------------------------------------------------------- random cells / planes

_fam = st.sampled_from(FAMILIES)
_fam8 = st.sampled_from(FAMILIES + ('hexagonal',))
_rot = gens.rotations(min_angle=1.0)
_idx3 = st.integers(-3, 3)
_idx4 = st.integers(-4, 4)
_idx2 = st.integers(-2, 2)
_cut = st.sampled_from(['a', 'b', 'c'])
_int10 = st.integers(0, 9)
_int20 = st.integers(0, 19)
_bool = st.booleans()
# length unit of a case: 10**lscale; angstrom-scale numbers (0) in half of the cases, SI (1e-10) favoured among the others
_lscale = st.sampled_from([0] * 18 + [-10] * 8 + [-12, -9, -8, -6, -4, -3, -2, -1, 1, 2, 3, 6])
SETTING_FAMILIES = {
    'i': ('orthorhombic', 'tetragonal', 'cubic'),
    'f': ('orthorhombic', 'cubic'),
    'a': ('monoclinic', 'orthorhombic'),
    'b': ('monoclinic', 'orthorhombic'),
    'c': ('monoclinic', 'orthorhombic'),
    't1': ('hexagonal',),
    't2': ('hexagonal',),
}
FAMILY_SETTINGS = {f: ['p'] + [s for s, fs in SETTING_FAMILIES.items() if f in fs] for f in FAMILIES}


@st.composite
def cells(draw, centred_share=4):
    fp = draw(gens.family_params(family=draw(_fam8)))          # hexagonal twice: Miller-Bravais input needs its share
    fam = fp['family']
    setting = 'p'
    opts = FAMILY_SETTINGS[fam]
    if len(opts) > 1 and draw(_int10) < centred_share:
        setting = draw(st.sampled_from(opts[1:]))
    rot = draw(_rot) if draw(_int10) < 4 else None           # 4 in 10: the classes below take some of them away
    cell = {'family': fam, 'abc': fp['abc'], 'setting': setting, 'rot': rot, 'lscale': draw(_lscale)}
    k = draw(_int20)
    if k < 3:
        # class G: an exact signed permutation of the Cartesian axes instead of a rotation by a generic angle
        cell['rot'] = None
        cell['perm'] = draw(g14.signed_perms)
    elif k < 5 and setting == 'p':
        # class G: the lattice vectors renamed cyclically (half of them with a permutation of the axes on top)
        cell['relabel'] = 1 + draw(_int10) % 2
        if draw(_bool):
            cell['rot'] = None
            cell['perm'] = draw(g14.signed_perms)
    elif k < 7 and setting == 'p':
        # class E: the cell of the family 1e-12 ... 1e-3 off its special values
        cell['rot'] = None
        cell['pert'] = {'e': draw(g14.pert_exp), 'v': draw(g14.pert_pat)}
    return cell


def _plane(draw, src):
    for _ in range(5):
        p = [draw(src) for _ in range(3)]
        if any(p):
            return p
    return [1, 1, 0]


_hexmode = st.sampled_from(['3', '4', '4', '3to4', '4to3'])


def is_std_hex(cell):
    """Miller-Bravais indices need the standard hexagonal setting (a = b, gamma = 120 exactly, c the unique axis)"""
    return cell['family'] == 'hexagonal' and cell['setting'] == 'p' and not cell.get('relabel') and not cell.get('pert')


@st.composite
def basis_random_cases(draw):
    cell = draw(cells())
    hkl = _plane(draw, _idx4 if draw(_int10) < 4 else _idx3)
    mode = '3'
    if is_std_hex(cell):
        mode = draw(_hexmode)
    case = {'cell': cell, 'planes': [hkl], 'cuts': draw(_cut), 'hex': mode}
    k = draw(_int10)
    if k < 4:
        case['form'] = draw(g14.narrow_int_forms if k < 2 else g14.int_forms)
    if draw(_int10) < 2:
        case['caller'] = True
    return case


def oracle_basis_random(case):
    h3 = case['planes'][0]
    if sr.default_maxindex(h3, case['cell'].get('setting', 'p')) > 12:
        return {'skipped_costly'}
    return oracle_basis(case)



# ----------------------------------------------------------------------------- unit cells for surface / fault

SPECIAL = (0.0, 0.0, 0.5, 0.25, 0.75, 1.0 / 3.0, 2.0 / 3.0, 0.125)
_coordsel = st.integers(0, 15)
_generic = st.integers(0, 998)
_natoms = st.sampled_from([1, 1, 2, 2, 3, 3, 4])
_bool = st.booleans()


def _torus_sep(a, b):
    d = np.asarray(a, dtype=float) - np.asarray(b, dtype=float)
    return float(np.abs(d - np.rint(d)).max())


@st.composite
def ucells(draw, centred_share=4):
    cell = draw(cells(centred_share=centred_share))
    n = draw(_natoms)
    # class C: how the unit cell stores its atoms (float32 / float16 / big-endian positions, Fortran-ordered / read-only / strided
    # arrays handed to Atoms, narrow / unsigned / big-endian types).  Positions rounded to a narrower float ARE the crystal; special
    # coordinates are then replaced by generic ones (layers that coincide only before the rounding would be an ambiguity of the
    # caller's data, not a question to the code)
    store = None
    if draw(_int10) < 2:
        store = {'pos': draw(g14.store_pos_forms), 'atype': draw(g14.store_atype_forms)}
        if store['pos'] == 'f2' and cell['lscale']:
            store['pos'] = 'f4'                   # float16 only holds angstrom-scale numbers
    narrow = store is not None and store['pos'] in ('f4', 'f2', 'f4F')
    atoms = []
    for _ in range(n):
        a = []
        for _ in range(3):
            k = draw(_coordsel)
            a.append(SPECIAL[k] if k < len(SPECIAL) and not narrow else draw(_generic) / 1000.0 + 0.00037)
        if all(_torus_sep(a, b) >= 0.04 for b in atoms):
            atoms.append(a)
    if not atoms:
        atoms = [[0.0, 0.0, 0.0]] if not narrow else [[0.12337, 0.45637, 0.78937]]
    types = [1] + [1 + (draw(_int10) % 2) for _ in atoms[1:]]
    u = {'cell': cell, 'atoms': atoms, 'types': types}
    if store is not None:
        u['store'] = store
    return u


def ucell_pos(u):
    """the Cartesian positions of the unit cell's atoms: the float64 numbers the stored array holds"""
    Vp = cell_vprim(u['cell'])
    pos = np.array(u['atoms'], dtype=float).reshape(-1, 3) @ Vp
    st_ = u.get('store')
    if st_:
        return g14.store_pos(st_['pos'], pos)
    return pos.copy(), pos


def build_ucell(am, u):
    Vp = cell_vprim(u['cell'])
    handed, pos = ucell_pos(u)
    st_ = u.get('store') or {}
    system = am.System(atoms=am.Atoms(atype=g14.store_atype(st_.get('atype'), u['types']), pos=handed),
                       box=am.Box(vects=Vp.copy()))
    return system, Vp, pos


def store_labels(u):
    st_ = u.get('store')
    if not st_:
        return set()
    out = {'store'}
    if st_['pos'] in ('f4', 'f2', 'f4F'):
        out.add('store_narrow_float')
    else:
        out.add('store_layout')
    if st_.get('atype'):
        out.add('store_atype')
    return out


AXIS_PLANES = {
    'tetragonal': lambda d: d.draw(st.sampled_from([[1, 0, 0], [0, 1, 0], [0, 0, 1], [1, 1, 0], [1, -1, 0], [2, 1, 0], [1, 2, 0],
                                                    [0, 0, -1], [-1, 1, 0], [3, 1, 0]])),
    'orthorhombic': lambda d: d.draw(st.sampled_from([[1, 0, 0], [0, 1, 0], [0, 0, 1], [-1, 0, 0], [0, 2, 0], [0, 0, -1]])),
    'hexagonal': lambda d: d.draw(st.sampled_from([[0, 0, 1], [1, 1, 0], [0, 0, -1], [1, -2, 0], [-2, 1, 0], [1, 0, 0], [2, 1, 0]])),
    'monoclinic': lambda d: d.draw(st.sampled_from([[0, 1, 0], [0, -1, 0], [0, 2, 0]])),
}


class _D:
    def __init__(self, draw):
        self.draw = draw


_axis_index = st.sampled_from([1, 1, -1, 2])


def rows_labels(rows):
    """class G: the chosen vectors are the cell vectors themselves / a signed relabelling of them"""
    if rows == [[1, 0, 0], [0, 1, 0], [0, 0, 1]]:
        return {'rows_identity', 'rows_signed_perm'}
    if all(sorted(abs(x) for x in r) == [0, 0, 1] for r in rows):
        return {'rows_signed_perm'}
    return set()


@st.composite
def plane_cut(draw, cell):
    fam, setting = cell['family'], cell['setting']
    if draw(_int20) < 2:
        # class G: the plane of the two cell vectors that are not the cut vector - in an orthogonal (or hexagonal, cut c) cell the
        # answer is the cell itself or a signed relabelling of it: nothing to rotate
        cut = draw(_cut)
        hkl = [0, 0, 0]
        hkl[CUTIDX[cut]] = draw(_axis_index)
        if is_std_hex(cell) and cut == 'c' and draw(_bool):
            hkl = [0, 0, 0, hkl[2]]
        return hkl, cut
    cut = 'c' if draw(_int10) < 5 else draw(st.sampled_from(['a', 'b']))
    oblique = fam in ('monoclinic', 'triclinic', 'rhombohedral')
    if cut != 'c' and (fam in ('triclinic', 'rhombohedral') or setting in ('t1', 't2')) and draw(_int10) < 8:
        cut = 'c'
    if cut != 'c' and setting == 'p' and fam in AXIS_PLANES and draw(_int10) < 8:
        hkl = AXIS_PLANES[fam](_D(draw))
    else:
        hkl = _plane(draw, _idx2 if (oblique or draw(_int10) < 5) else _idx3)
    if is_std_hex(cell) and draw(_int10) < 8:
        hkl = [hkl[0], hkl[1], -(hkl[0] + hkl[1]), hkl[2]]
    return hkl, cut


_mult_in = st.sampled_from([1, 1, 2, 2, 3, -1, -2, [0, 2], [-1, 1], [-1, 2], [0, 1], [-2, 0]])
_mult_cut = st.sampled_from([1, 1, 2, 2, 3, 3, 4, 5, -1, -2, -3])
_width = st.integers(0, 4000).map(lambda k: round(1.0 + k / 100.0, 2))
_vac = st.sampled_from([0.0, 5.0, 10.0, 7.25, 0.5, 12.345, 3.3])
# minwidth for the judged surface() call: Hypothesis' integers() favour small values, which seldom exceed sizemult x cell width;
# half of the draws come from a spread list so that 'minwidth decides the multiplier' is frequent by construction
_width_s = st.one_of(st.sampled_from([3.7, 6.1, 8.25, 12.5, 17.0, 23.4, 29.9]), _width)


# ---- object history: earlier (un-judged) surface() calls on the same object, cheap arguments
_mult_in_h = st.sampled_from([1, 1, 2, 2, -1, [0, 1], [-1, 1]])
_mult_cut_h = st.sampled_from([1, 2, 3, 4, -1, -2])
_width_h = st.integers(0, 1500).map(lambda k: round(1.0 + k / 100.0, 2))
_hmode = st.sampled_from(['index', 'index', 'index', 'vector', 'scaled', 'none', 'set_shift', 'set_shift_vector', 'set_shift0'])
_sel = st.integers(0, 1000)
_nprior = st.sampled_from([0, 0, 0, 1, 1, 1, 1, 2, 2, 2])
_relpos = st.sampled_from([0.25, 0.75, 0.4, 0.62, 0.1, 0.9, 0.0, 1.0, 0.5, 0.33])
_final_shift = st.sampled_from(['index', 'index', 'index', 'vector', 'scaled', 'none', 'none', 'set_shift', 'set_shift_vector'])
_surf_first = st.sampled_from(['index', 'index', 'vector', 'scaled', 'init', 'prev', 'prev', 'set_shift', 'set_shift_vector'])


def _draw_step(draw, ci):
    mults = [draw(_mult_in_h) for _ in range(3)]
    mults[ci] = draw(_mult_cut_h)
    return {'sizemults': mults if draw(_int10) < 7 else None,
            'minwidth': draw(_width_h) if draw(_int10) < 2 else None,
            'even': draw(_int10) < 2,
            'vacuum': draw(_vac) if draw(_int10) < 3 else None,
            'shiftsel': draw(_sel),
            'shiftmode': draw(_hmode)}


class Hand:
    """How the caller hands its arguments in (class C: the forms of the case) and what it keeps of them (class B: with `track`
    every argument object is entered in the ledger, to be compared bit for bit after the call and overwritten at the end)."""

    def __init__(self, forms=None, ledger=None, track=False):
        self.f = forms or {}
        self.ledger = ledger
        self.track = bool(track) and ledger is not None
        self.vec_abs = None            # the absolute shift vector last requested as a vector (float64 of what was passed)
        self.kept = []

    def keep(self, obj, where):
        if self.track and isinstance(obj, (np.ndarray, list, tuple)):
            self.ledger.add_input(obj, where)
            self.kept.append(obj)
        return obj

    def hkl(self, hkl):
        return self.keep(hkl_arg(self.f.get('hkl'), hkl), 'hkl')

    def vec(self, v, where):
        return self.keep(g14.float_arg(self.f.get('shift'), v), where)

    def mults(self, sm):
        return self.keep(g14.mults_arg(self.f.get('mults'), sm), 'sizemults')

    def num(self, x):
        return g14.scalar_arg(self.f.get('num'), x)

    def idx(self, k):
        return g14.index_arg(self.f.get('idx'), k)

    def labels(self):
        out = set()
        if self.f:
            out.add('forms')
        out |= form_labels('hkl', self.f.get('hkl'))
        if self.f.get('shift') not in (None, 'list'):
            out.add('shift_form')
        if self.f.get('mults') not in (None, 'list'):
            out.add('mults_form')
        if self.f.get('num') not in (None, 'py') or self.f.get('idx') not in (None, 'py'):
            out.add('npscalar_form')
        return out


PLAIN = Hand()


def shift_arg(obj, mode, idx, cur, H=PLAIN):
    """surface() keywords selecting termination #idx in the given way (set_shift* modes act on the object at once);
    returns (kw, index of the termination in force afterwards).  'none': nothing is passed, #cur stays in force.
    A vector handed in as a float32 array IS the numbers it holds: H.vec_abs is the absolute shift that was requested"""
    shifts = np.asarray(obj.shifts, dtype=float)
    if mode == 'index':
        H.vec_abs = None
        return {'shiftindex': H.idx(idx)}, idx
    if mode in ('vector', 'set_shift_vector'):
        v = H.vec([float(x) for x in shifts[idx]], 'shift')
        H.vec_abs = g14.request(v)
        if mode == 'vector':
            return {'shift': v}, idx
        obj.set_shift(shift=v)
        return {}, idx
    if mode == 'scaled':
        rb = np.asarray(obj.rcell.box.vects, dtype=float)
        v = H.vec([float(x) for x in np.linalg.solve(rb.T, shifts[idx])], 'shift (box-relative)')
        H.vec_abs = g14.request(v) @ rb
        return {'shift': v, 'shiftscale': True}, idx
    if mode == 'set_shift':
        H.vec_abs = None
        obj.set_shift(shiftindex=H.idx(idx))
        return {}, idx
    if mode == 'set_shift0':
        H.vec_abs = None
        obj.set_shift()                       # documented: neither shift nor shiftindex -> shiftindex 0
        return {}, 0
    return {}, cur


def size_args(step, S=1.0, H=PLAIN):
    """minwidth / vacuumwidth are lengths in working units: given in the unit S of the case"""
    kw = {}
    if step['sizemults'] is not None:
        kw['sizemults'] = H.mults(step['sizemults'])
    if step['minwidth'] is not None:
        kw['minwidth'] = H.num(step['minwidth'] * S)
    if step['even']:
        kw['even'] = True
    if step['vacuum'] is not None:
        kw['vacuumwidth'] = H.num(float(step['vacuum']) * S)
    return kw


def surface_call(obj, kw, H=PLAIN, what='surface()'):
    """obj.surface(**kw) with the arguments the caller handed in compared bit for bit afterwards (class B, when H tracks them).
    The size multipliers are documented as 'list or tuple'; surface() writes the multiplier along the cut vector into the object it
    was given whenever minwidth / even change it: a tuple is refused with TypeError, a list / array of the caller is edited (keyed)."""
    sm = kw.get('sizemults')
    try:
        system = obj.surface(**kw)
    except TypeError as e:
        if isinstance(sm, tuple) and 'item assignment' in str(e):
            raise Violation('%s with sizemults=%r (a tuple, as documented: "list or tuple") and minwidth=%r, even=%r raised TypeError(%s): '
                            'the multiplier along the cut vector is written into the caller\'s object'
                            % (what, sm, kw.get('minwidth'), kw.get('even', False), e), key=K_SIZEMULTS) from None
        raise
    if H.track and sm is not None:
        d = H.ledger.changed_input(sm)
        if d:
            raise Violation('%s edited the size multipliers the caller handed in (minwidth=%r, even=%r): %s'
                            % (what, kw.get('minwidth'), kw.get('even', False), d), key=K_SIZEMULTS)
    if H.track:
        H.ledger.verify_inputs(' by ' + what)
    return system


def run_step(obj, step, cur, force_mode=None, force_idx=None, S=1.0, H=PLAIN, **extra):
    """one earlier surface() call of a history (its result is not judged); returns (system, termination index in force)"""
    nsh = len(obj.shifts)
    idx = step['shiftsel'] % nsh if force_idx is None else force_idx
    kw, cur = shift_arg(obj, force_mode or step['shiftmode'], idx, cur, H)
    kw.update(size_args(step, S, H))
    kw.update(extra)
    return surface_call(obj, kw, H, 'an earlier surface(%s)' % ', '.join('%s=%r' % kv for kv in sorted(kw.items()))), cur


@st.composite
def surface_cases(draw):
    u = draw(ucells())
    hkl, cut = draw(plane_cut(u['cell']))
    ci = CUTIDX[cut]
    mults = [draw(_mult_in) for _ in range(3)]
    mults[ci] = draw(_mult_cut)
    prior = [_draw_step(draw, ci) for _ in range(draw(_nprior))]
    case = {'ucell': u, 'hkl': hkl, 'cut': cut,
            'sizemults': mults if draw(_int10) < 8 else None,
            'minwidth': draw(_width_s) if draw(_int10) < 4 else None,
            'even': draw(_int10) < 3,
            'vacuum': draw(_vac) if draw(_int10) < 5 else None,
            'shiftsel': draw(st.integers(0, 1000)),
            'shiftmode': draw(_surf_first),
            'history': {'prior': prior}}
    k = draw(_int20)
    narrow = u.get('store', {}).get('pos') in ('f4', 'f2', 'f4F')
    if k < 3 and u['cell']['setting'] == 'p' and not narrow:
        # class E: a second atomic layer 1e-6 ... 1e-4 (fractional) above an existing one
        add_near_layer(u, plane3(hkl), draw(_nl_delta), draw(_int10), draw(_int10))
    elif k < 8:
        # class C: how the caller hands the arguments in
        case['forms'] = {'hkl': draw(g14.int_forms), 'shift': draw(g14.float_forms), 'mults': draw(g14.mult_forms),
                         'num': draw(g14.scalar_forms), 'idx': draw(g14.index_forms)}
    k = draw(_int20)
    if k < 4:
        # class E: minwidth a hair below / above / exactly at a whole number of oriented cells
        case['minwidth_near'] = {'n': draw(st.integers(1, 5)), 'e': draw(_mw_exp), 'sign': draw(_pm)}
        case['minwidth'] = 1.0
    # class B: the caller keeps what it handed in, compares it after every call and overwrites it at the end;  A: another object
    if draw(_int10) < 2:
        case['caller'] = True
    if draw(_int10) < 2:
        case['other'] = {'sel': draw(_sel), 'mult': draw(_mult_cut_h)}
    return case


_pm = st.sampled_from([1, -1])
_nl_delta = st.sampled_from([1e-6, 2e-6, 5e-6, 1e-5, 3e-5, 1e-4])
_mw_exp = st.sampled_from([None, None, None, -13, -12, -7, -6, -5, -4, -3])


def add_near_layer(u, h3, delta, sel, sel2):
    """adds to the unit cell `u` (in place, before it becomes part of the case) an atom whose height along the normal of the plane
    h3 differs from that of an existing atom by delta x (a cell vector . unit normal): displaced in the plane by an exact in-plane
    half vector, then by delta along a cell vector that leaves the plane"""
    h, k, l = [int(x) for x in h3]
    src = u['atoms'][sel % len(u['atoms'])]
    if h or k:
        n = 2.0 * max(abs(h), abs(k))
        w = [k / n, -h / n, 0.0]
    else:
        w = [0.5, 0.0, 0.0]
    out = [i for i, x in enumerate((h, k, l)) if x]
    ax = out[sel2 % len(out)]
    new = [src[i] + w[i] + (delta if i == ax else 0.0) for i in range(3)]
    new = [x - math.floor(x) for x in new]
    if all(_torus_sep(new, b) >= 0.04 for b in u['atoms']):
        u['atoms'].append(new)
        u['types'].append(1 + sel2 % 2)
        u['near_layer'] = {'delta': delta, 'axis': ax}


# ----------------------------------------------------------------------------- surface oracle helpers

def rows_from_uvws(uvws, setting, what):
    """FreeSurface.uvws (conventional indices, possibly half/third integers, or 3x4) -> integer rows relative to the
    cell handed to atomman"""
    uvws = np.asarray(uvws, dtype=float)
    if uvws.shape == (3, 4):
        r = sr.hex_vector4to3_times3(uvws) / 3.0
    else:
        require(uvws.shape == (3, 3), lambda: '%s: uvws has shape %r' % (what, uvws.shape))
        r = uvws @ np.array(sr.conv_to_prim_matrix(setting), dtype=float)
    ri = np.rint(r)
    require(np.abs(r - ri).max() <= 1e-9, lambda: '%s: uvws %r are not lattice vectors of the given cell' % (what, uvws.tolist()))
    return [[int(x) for x in row] for row in ri]


def mult_span(m):
    """(lo, count) of a supersize multiplier"""
    if isinstance(m, (list, tuple)):
        return int(m[0]), int(m[1]) - int(m[0])
    m = int(m)
    return (m, -m) if m < 0 else (0, m)


def mult_arg(m):
    return (int(m[0]), int(m[1])) if isinstance(m, (list, tuple)) else int(m)


def expected_cut_mult(m, minwidth, even, rw):
    """allowed final |multiplier| values along the cut (a set: two values when minwidth/rw is within rounding of an integer)"""
    m = abs(int(m))
    opts = {m}
    if minwidth is not None:
        x = minwidth / rw
        c = int(math.ceil(x))
        cands = {c}
        if abs(x - round(x)) < 1e-9:
            cands = {int(round(x)), int(round(x)) + 1}
        opts = {max(m, c2) for c2 in cands}
    if even:
        opts = {o + 1 if o % 2 == 1 else o for o in opts}
    return opts


def gap_at(L, p, c0):
    below = L[L <= c0]
    above = L[L > c0]
    lo = below[-1] if len(below) else L[-1] - p
    hi = above[0] if len(above) else L[0] + p
    return float(lo), float(hi)


class Geometry:
    """everything my side knows about the oriented cell, from the integer rows and the unit cell numbers"""

    def __init__(self, u, hkl, cut, rows, tol=1e-7):
        cell = u['cell']
        self.S = cell_S(cell)                       # the length unit of the case (1 = angstrom-scale numbers)
        self.setting = cell['setting']
        self.h3 = plane3(hkl)
        self.ci = CUTIDX[cut]
        self.inpl = [i for i in range(3) if i != self.ci]
        self.Vp = cell_vprim(cell)
        self.rows = rows
        self.W = np.array(rows, dtype=float) @ self.Vp
        self.T = sr.lammps_frame(self.W)
        self.B0 = self.W @ self.T.T
        self.g = sr.plane_g(self.h3, self.Vp, self.setting)
        self.gn = float(np.linalg.norm(self.g))
        self.z = sr.zone_numerators(self.h3, rows, self.setting)
        self.den = sr.DEN[self.setting]
        self.gq = sr.lattice_period_numerator(self.h3, self.setting)
        self.period = self.gq / (self.den * self.gn)
        self.rw = self.z[self.ci] / (self.den * self.gn)          # width of the oriented cell along the normal
        self.det = sr.idet(rows)
        self.L = float(np.abs(self.W).max())
        pos = ucell_pos(u)[1]
        self.upos = pos
        self.heights = pos @ (self.g / self.gn)
        # atomic layers closer than `apart` without coinciding make the layer structure ambiguous.  In general 1e-4 S; a unit cell
        # built with two layers 1e-6 ... 1e-4 apart on purpose (class E, `near_layer`) is judged against the documented `tol`
        # ('used to round off near-zero values', a length: coordinates along the cut are rounded to -log10(tol) decimals, so
        # layers more than tol apart can never be merged): ambiguous only below 3 tol
        self.apart = 1e-4 * self.S if not u.get('near_layer') else 3.0 * tol * self.S
        self.layers, self.ambiguous = sr.distinct_layers(self.heights, self.period, 1e-9 * self.S, self.apart)
        self.mingap = float(self.period) if len(self.layers) < 2 else float(min(
            np.diff(np.concatenate([self.layers, [self.layers[0] + self.period]])).min(), self.period))

    def perp_cos(self):
        c = self.W[self.ci]
        return max(abs(float(np.dot(c, self.W[i]))) / (np.linalg.norm(c) * np.linalg.norm(self.W[i])) for i in self.inpl)


def judge_rows(geo, what):
    z, ci = geo.z, geo.ci
    for i in geo.inpl:
        require(z[i] == 0, lambda: '%s: box vector %d %r does not lie in the plane (h u + k v + l w = %s/%d)' % (what, i, geo.rows[i], z[i], geo.den))
    require(z[ci] > 0, lambda: '%s: the cut vector %r does not leave the plane on the normal side (h u + k v + l w = %s/%d)'
            % (what, geo.rows[ci], z[ci], geo.den))
    require(geo.det > 0, lambda: '%s: rows %r are not right-handed / independent (det %d)' % (what, geo.rows, geo.det))


DEFAULT_TOL = {'FreeSurface': 1e-7, 'StackingFault': 1e-8}


def tol_arg(cls, cell):
    """`tol` ('Tolerance parameter used to round off near-zero values') rounds Cartesian coordinates along the cut to
    -log10(tol) decimals and compares lengths at atol=tol: a length in working units.  Angstrom-scale cases leave it at the
    default; a case in the unit S passes default x S"""
    k = int(cell.get('lscale') or 0)
    return {'tol': DEFAULT_TOL[cls.__name__] * 10.0 ** k} if k else {}


def construct(am, cls, case, u, ucell, labels, H=PLAIN, **extra):
    """FreeSurface / StackingFault constructor with the documented refusals sorted out.
    returns the object, or None after adding a refusal label"""
    hkl, cut = case['hkl'], case['cut']
    setting = u['cell']['setting']
    what = '%s(%r, %s(%s) cell %s, cutboxvector=%r)' % (cls.__name__, hkl, u['cell']['family'], setting, cell_txt(u['cell']), cut)
    kw = dict(cutboxvector=cut, conventional_setting=setting)
    kw.update(tol_arg(cls, u['cell']))
    kw.update(extra)
    if kw.get('tol') is not None:
        what = what[:-1] + ', tol=%r)' % kw['tol']
    try:
        with cost_limit(what):
            return cls(H.hkl(hkl), ucell, **kw), what
    except AssertionError as e:
        if _is_refusal(e):
            d = scale_diagnosis(am, hkl, u['cell'], cut)
            if d:
                raise Violation('%s: %s' % (what, d), key=K_SCALE) from None
            labels.add('refusal_search')
            return None, what
        raise
    except ValueError as e:
        msg = str(e)
        if 'Filtering failed' in msg:
            labels.add('c04_filtering_skip')        # System.rotate's own open findings (C04), not this property
            return None, what
        if 'cannot have' in msg and 'component for cutboxvector' in msg or 'New box has no atoms/volume' in msg:
            box = am.Box(vects=cell_vprim(u['cell']))
            try:
                out = call_basis(am, hkl, box, cut, setting, None)
            except AssertionError as e2:
                if _is_refusal(e2):
                    labels.add('refusal_search')
                    return None, what
                raise
            status, rows = judge_basis(out, hkl, cell_vprim(u['cell']), setting, cut, len(hkl) == 4, what)
            if status == 'parallel':
                raise Violation('%s raised ValueError(%s): free_surface_basis returned two parallel in-plane rows %r'
                                % (what, msg, rows), key=K_PARALLEL)
            require('cannot have' in msg, lambda: '%s raised ValueError(%s) for independent rows %r' % (what, msg, rows))
            geo = Geometry(u, hkl, cut, rows)
            pc = geo.perp_cos()
            require(pc >= 1e-11, lambda: '%s refused with %r although the out-of-plane vector %r is perpendicular to both '
                    'in-plane vectors (|cos| = %.3g)' % (what, msg, rows[geo.ci], pc))
            labels.add('refusal_cut')
            return None, what
        raise


def check_system(geo, system, shift, mults_lo_cnt, vac, what, motif, mult_each):
    """box, pbc, atoms inside, same crystal.  returns (B, origin, pos, n', heights above the bottom face, width)"""
    ci, i1, i2 = geo.ci, geo.inpl[0], geo.inpl[1]
    B = np.asarray(system.box.vects, dtype=float)
    o = np.asarray(system.box.origin, dtype=float)
    pos = np.asarray(system.atoms.pos, dtype=float)
    pbc = [bool(x) for x in system.pbc]
    exp_pbc = [True, True, True]
    exp_pbc[ci] = False
    require(pbc == exp_pbc, lambda: '%s: pbc = %r, expected non-periodic only along the cut vector: %r' % (what, pbc, exp_pbc))
    cnt = np.array([c for _, c in mults_lo_cnt], dtype=float)
    lo = np.array([l for l, _ in mults_lo_cnt], dtype=float)
    expB = geo.B0 * cnt[:, None]
    expo = lo @ geo.B0
    scale0 = float(np.abs(expB).max())
    e_c = np.zeros(3)
    e_c[ci] = 1.0
    if vac:
        # where the vacuum goes (below / above / split) is not fixed by the property: the origin may move down along the
        # cut axis by anything in [0, vac]; that every atom is still inside across the cut is checked below
        expB = expB.copy()
        expB[ci] = expB[ci] + vac * e_c
        down = float(np.dot(expo - o, e_c))
        require(-1e-9 * (scale0 + vac) <= down <= vac * (1 + 1e-9) + 1e-9 * scale0,
                lambda: '%s: box origin moved by %.9g along the cut axis for a vacuum width of %r' % (what, -down, vac))
        expo = expo - down * e_c
    scale = float(np.abs(expB).max())
    tolB = 1e-8 * scale
    require(np.abs(B - expB).max() <= tolB, lambda: '%s: box vectors\n%r\nexpected (multipliers x oriented cell%s)\n%r'
            % (what, B, ', cut vector lengthened by the vacuum width' if vac else '', expB))
    require(np.abs(o - expo).max() <= tolB, lambda: '%s: box origin %r, expected %r' % (what, o.tolist(), expo.tolist()))
    sp = cm.rel_coords(pos, B, o)
    if vac:
        # lengthening a tilted cut vector along the normal shears the cell: in the periodic directions an unchanged
        # position may now be an image outside [0,1) (harmless); across the cut every atom must be inside
        sp = sp[:, ci]
    require(sp.min() >= -1e-7 and sp.max() <= 1.0 + 1e-7, lambda: '%s: atoms outside the box: relative coordinates in [%.9g, %.9g]' % (what, sp.min(), sp.max()))
    Bnov = geo.B0 * cnt[:, None]
    onov = lo @ geo.B0
    back = (pos - np.asarray(shift, dtype=float)) @ geo.T
    rep = cm.compare_crystal(motif, back, mult=mult_each, newV=Bnov, new_origin=onov, new_pos=pos)
    at = np.asarray(system.atoms.atype).astype(int)
    idx = rep.match.index
    ok = idx >= 0
    if ok.any():
        bad = ok & (at != np.asarray(motif.types)[np.where(ok, idx, 0)])
        if bad.any():
            rep.problems.append('%d atoms carry a type different from the unit-cell atom they map onto' % int(bad.sum()))
    require(rep.ok, lambda: '%s: not the same crystal as the unit cell: %s' % (what, ' ; '.join(rep.problems)[:1200]))
    n = np.cross(B[i1], B[i2])
    n = n / np.linalg.norm(n)
    if np.dot(n, B[ci]) < 0:
        n = -n
    d = (pos - onov) @ n
    w = float(np.dot(n, Bnov[ci]))
    return B, o, pos, n, d, w


def with_scale_diagnosis(oracle):
    """A case in other units than angstrom-scale numbers that fails (Violation without key, or an exception from atomman) is
    first examined for the keyed unit dependence of free_surface_basis (which FreeSurface / StackingFault call first): wrong
    rows make everything behind them fail in arbitrary ways.  Anything else propagates unchanged."""
    @functools.wraps(oracle)
    def wrapped(case):
        try:
            return oracle(case)
        except Exception as e:
            cell = case['ucell']['cell']
            if cell.get('lscale') and not (isinstance(e, Violation) and e.key is not None):
                import atomman as am
                d = scale_diagnosis(am, case['hkl'], cell, case['cut'])
                if d:
                    raise Violation('%s [met as: %s: %s]' % (d, type(e).__name__, str(e)[:300]), key=K_SCALE) from None
            raise
    return wrapped


def caller_overwrites(H, ledger):
    """class B: the caller overwrites in place every (writable) argument object it kept; returns how many it could overwrite"""
    n = 0
    for obj in H.kept:
        if isinstance(obj, np.ndarray):
            if obj.flags.writeable:
                if obj.dtype.kind == 'b':
                    obj[...] = ~obj
                elif obj.dtype.kind == 'f':
                    obj[...] = obj * -3.0 + 1.25
                else:
                    obj[...] = 3
                n += 1
        elif isinstance(obj, list):
            obj[:] = [9] * len(obj)
            n += 1
    # what was overwritten is no longer an input to be compared
    ledger.inputs = [t for t in ledger.inputs if not any(t[0] is o for o in H.kept)]
    return n


def scribble_ucell(ucell):
    """class B: the caller re-uses the unit cell it handed in: positions overwritten in place (when the array can be written),
    the cell re-defined through the setter"""
    try:
        ucell.atoms.pos[...] = np.asarray(ucell.atoms.pos)[::-1] * 0.5 + 0.321
    except ValueError:
        pass                                   # a read-only array of the caller
    V = np.asarray(ucell.box.vects, dtype=float)
    ucell.box_set(vects=V[[1, 2, 0]] * 1.5, origin=[0.1, -0.2, 0.3])


@with_scale_diagnosis
def oracle_surface(case):
    import atomman as am
    from atomman.defect import FreeSurface
    u = case['ucell']
    cell = u['cell']
    hkl, cut = case['hkl'], case['cut']
    setting = cell['setting']
    h3 = plane3(hkl)
    S = cell_S(cell)
    ledger = g14.Ledger(Violation)
    caller = bool(case.get('caller'))
    H = Hand(case.get('forms'), ledger, caller)
    near_mw = case.get('minwidth_near')
    if near_mw and H.f.get('num') == 'np4':
        H.f = dict(H.f, num='np8')             # a hair from a whole number of cells is not a float32 number
    mw = None if case['minwidth'] is None else case['minwidth'] * S          # minwidth / vacuumwidth: lengths in working units
    labels = ({cell['family'], 'setting_' + setting, 'cut_' + cut, 'natoms%d' % len(u['atoms'])} | scale_labels(cell)
              | class_labels(cell) | store_labels(u) | H.labels())
    if setting != 'p':
        labels.add('centred')
    if len(hkl) == 4:
        labels.add('hex4')
    if cell.get('rot'):
        labels.add('rigid_rot')
    ucell, Vp, upos = build_ucell(am, u)
    snap_pos, snap_v = np.array(ucell.atoms.pos), np.array(ucell.box.vects)
    extra = {}
    cur0 = 0
    init = case.get('init')
    if init:
        # class H: the termination is chosen in the constructor - by index, by vector, by box-relative vector.  The offered shifts
        # are read from a first object (same arguments, nothing chosen)
        probe, _ = construct(am, FreeSurface, case, u, ucell, labels)
        if probe is None:
            return labels
        cur0 = init['sel'] % len(probe.shifts)
        pv = np.asarray(probe.shifts, dtype=float)[cur0]
        if init['mode'] == 'index':
            extra['shiftindex'] = H.idx(cur0)
        elif init['mode'] == 'vector':
            extra['shift'] = H.vec([float(x) for x in pv], 'shift (constructor)')
            H.vec_abs = g14.request(extra['shift'])
        else:
            rb = np.asarray(probe.rcell.box.vects, dtype=float)
            extra['shift'] = H.vec([float(x) for x in np.linalg.solve(rb.T, pv)], 'shift (constructor, box-relative)')
            extra['shiftscale'] = True
            H.vec_abs = g14.request(extra['shift']) @ rb
        labels.add('init_' + init['mode'])
    elif case['shiftmode'] == 'init':
        extra['shiftindex'] = H.idx(0)
    fs, what = construct(am, FreeSurface, case, u, ucell, labels, H=H, **extra)
    if fs is None:
        return labels
    if init:
        what = what[:-1] + ', %s)' % ', '.join('%s=%r' % kv for kv in sorted(extra.items()))
    if H.f.get('hkl'):
        what += ' [hkl handed in as %s]' % H.f['hkl']
    rows = rows_from_uvws(fs.uvws, setting, what)
    geo = Geometry(u, hkl, cut, rows, tol=DEFAULT_TOL['FreeSurface'])
    judge_rows(geo, what)
    ci = geo.ci
    labels |= rows_labels(rows)
    require(int(fs.cutindex) == ci, lambda: '%s: cutindex %r' % (what, fs.cutindex))
    Tf = np.asarray(fs.transform, dtype=float)
    require(Tf.shape == (3, 3) and np.abs(Tf - geo.T).max() <= 1e-8,
            lambda: '%s: transform\n%r\nis not the rotation taking the chosen vectors into the box orientation\n%r' % (what, Tf, geo.T))
    rw = float(fs.rcellwidth)
    require(abs(rw - geo.rw) <= 1e-9 * geo.L, lambda: '%s: rcellwidth %.12g, expected (h u + k v + l w)/|g| = %.12g' % (what, rw, geo.rw))
    motif = cm.Motif(Vp, np.zeros(3), upos, 1e-6 * max(S, geo.L))
    motif.types = [int(t) for t in u['types']]
    # rcell itself
    check_system_rcell = fs.rcell
    require(check_system_rcell.natoms == geo.det * len(upos), lambda: '%s: rcell has %d atoms, expected det x natoms = %d'
            % (what, check_system_rcell.natoms, geo.det * len(upos)))
    # class A: what the object hands out is kept, with a snapshot, until the end of the case
    ledger.add_system(fs.rcell, 'the rcell attribute of ' + what)
    for nm in ('shifts', 'uvws', 'transform'):
        ledger.add_array(getattr(fs, nm), 'the %s attribute of %s' % (nm, what))
    # ---- offered shifts (arithmetic on all of them)
    shifts = np.array(fs.shifts, dtype=float)
    require(shifts.ndim == 2 and shifts.shape[1] == 3 and len(shifts) >= 1, lambda: '%s: shifts has shape %r' % (what, shifts.shape))
    off = np.delete(shifts, ci, axis=1)
    require(np.abs(off).max() == 0.0, lambda: '%s: a shift has components in the plane: %r' % (what, shifts.tolist()))
    sv = shifts[:, ci]
    require(np.all(sv >= -1e-9 * geo.L) and np.all(sv <= rw + 1e-9 * geo.L),
            lambda: '%s: shifts outside [0, rcellwidth = %.9g]: %r' % (what, rw, sv.tolist()))
    tol_l = 1e-6 * max(S, geo.L)
    if u.get('near_layer'):
        # two layers were put 1e-6 ... 1e-4 apart on purpose: lengths are resolved at a tenth of the narrowest gap
        tol_l = min(tol_l, 0.1 * geo.mingap)
        labels.add('near_layer')
    narrow_store = 'store_narrow_float' in labels
    if not geo.ambiguous:
        k = geo.z[ci] // geo.gq
        nexp = k * len(geo.layers)
        require(len(sv) == nexp, lambda: '%s: %d shifts offered, the oriented cell holds %d lattice periods x %d atomic planes = %d gaps'
                % (what, len(sv), k, len(geo.layers), nexp))
        cuts = np.sort(np.mod(-sv, rw))
        if len(cuts) > 1:
            dd = np.diff(np.concatenate([cuts, [cuts[0] + rw]]))
            require(dd.min() > tol_l, lambda: '%s: two offered shifts give the same cut plane: %r' % (what, sv.tolist()))
        for i, s in enumerate(sv):
            c0 = float(np.mod(-s, geo.period))
            lo, hi = gap_at(geo.layers, geo.period, c0)
            require(c0 - lo > tol_l and hi - c0 > tol_l,
                    lambda: '%s: shift #%d = %.9g puts the cut at height %.9g (mod %.9g) ON an atomic plane (planes at %r)'
                    % (what, i, s, c0, geo.period, geo.layers.tolist()))
            require(abs((c0 - lo) - (hi - c0)) <= 2 * tol_l,
                    lambda: '%s: shift #%d = %.9g puts the cut at height %.9g, not halfway between the neighbouring atomic planes %.9g and %.9g'
                    % (what, i, s, c0, lo, hi))
        labels.add('layers_checked')
        if len(geo.layers) > 1:
            labels.add('multilayer')
        if u.get('near_layer') and geo.mingap < 1e-4 * S:
            labels.add('near_layer_judged')
    else:
        labels.add('layer_ambiguous_store' if narrow_store else ('layer_ambiguous_near' if u.get('near_layer') else 'layer_ambiguous'))
    if len(sv) > 1:
        labels.add('multishift')
    # ---- built systems
    if near_mw:
        # class E: minwidth a hair (1e-13 ... 1e-3 of a cell) below / above / exactly at a whole number of oriented cells
        mw = float(near_mw['n']) * geo.rw
        if near_mw['e'] is not None:
            mw = (near_mw['n'] + near_mw['sign'] * 10.0 ** int(near_mw['e'])) * geo.rw
    if mw is not None:
        mw_arg = H.num(mw)
        mw = float(mw_arg)                      # the request is the number the argument holds
    sm = case['sizemults']
    spans = [mult_span(m) for m in sm] if sm is not None else [(0, 1)] * 3
    mcut = sm[ci] if sm is not None else 1
    allowed = expected_cut_mult(mcut, mw, case['even'], geo.rw)
    nsh = len(sv)
    if nsh <= 4:
        which = list(range(nsh))
    else:
        a = case['shiftsel'] % nsh
        which = sorted({0, nsh - 1, a, (a * 7 + 3) % nsh})
    if case['shiftmode'] == 'init':
        which = [None] + which[1:]
    # ---- object history: earlier surface() calls with other arguments on the same object (results not judged)
    hist = case.get('history')
    prior = (hist or {}).get('prior') or []
    smode = case['shiftmode']
    if hist is not None and smode != 'init':
        a = case['shiftsel'] % nsh
        which = [a] + [i for i in which if i != a]
    if smode == 'prev' and not prior:
        smode = 'set_shift'
    cur = cur0                                # constructor: shiftindex 0 (passed, or the documented default) unless the case chose
    for j, step in enumerate(prior):
        if smode == 'init':
            psys, cur = run_step(fs, step, cur, force_mode='none', S=S, H=H)          # the constructor's choice must survive
        elif smode == 'prev' and j == len(prior) - 1:
            pm = step['shiftmode'] if step['shiftmode'] in ('index', 'vector', 'scaled', 'set_shift') else 'index'
            psys, cur = run_step(fs, step, cur, force_mode=pm, force_idx=which[0], S=S, H=H)
        else:
            psys, cur = run_step(fs, step, cur, S=S, H=H)
        ledger.add_system(psys, 'earlier surface() call #%d' % j)
        if step['shiftmode'].startswith('set_shift') and smode != 'init':
            labels.add('history_set_shift')
    if prior:
        what = '%s [after %d earlier surface() calls on the same object: %s]' % (
            what, len(prior), ' ; '.join(', '.join('%s=%r' % kv for kv in sorted(p.items())) for p in prior))
        labels.add('history_second_surface')
        if len(prior) > 1:
            labels.add('history_third_surface')
        if smode in ('init', 'prev'):
            labels.add('history_shift_persisted')
        if ((case['sizemults'] is None and any(p['sizemults'] is not None for p in prior))
                or (case['minwidth'] is None and any(p['minwidth'] is not None for p in prior))
                or (not case['even'] and any(p['even'] for p in prior))
                or any(p['vacuum'] for p in prior)):
            labels.add('history_defaults_after_given')
    if smode.startswith('set_shift'):
        labels.add('history_set_shift')
    first = True
    last = None
    for si in which:
        kw = {}
        if sm is not None:
            kw['sizemults'] = H.mults(sm)
        if mw is not None:
            kw['minwidth'] = mw_arg
        if case['even']:
            kw['even'] = True
        ii = cur0 if si is None else si
        mode = smode if first else 'index'
        pre = ''
        if si is None or mode == 'prev':
            assert cur == ii, (cur, ii)       # nothing passed: the termination in force (constructor / earlier call) stays
        else:
            skw, cur = shift_arg(fs, mode, ii, cur, H)
            kw.update(skw)
            if mode.startswith('set_shift'):
                pre = '.%s(#%d)' % (mode, ii)
        w2 = '%s%s.surface(%s)' % (what, pre, ', '.join('%s=%r' % kv for kv in sorted(kw.items())))
        system = surface_call(fs, kw, H, w2)
        ledger.add_system(system, w2)
        Bs = np.asarray(system.box.vects, dtype=float)
        got = Bs[ci, ci] / geo.B0[ci, ci]
        mfinal = int(round(got))
        require(abs(got - mfinal) <= 1e-8 and mfinal in allowed,
                lambda: '%s: %.9g oriented cells along the cut vector, expected %r (sizemult %r, minwidth %r, even %r, cell width %.9g)'
                % (w2, got, sorted(allowed), mcut, mw, case['even'], geo.rw))
        sp2 = list(spans)
        sp2[ci] = (-mfinal, mfinal) if int(mcut) < 0 else (0, mfinal)
        nrep = geo.det * sp2[0][1] * sp2[1][1] * sp2[2][1]
        require(system.natoms == nrep * len(upos), lambda: '%s: %d atoms, expected %d' % (w2, system.natoms, nrep * len(upos)))
        sh_used = np.asarray(fs.shift, dtype=float)
        sh_req = shifts[ii] if H.vec_abs is None else H.vec_abs          # a vector handed in IS the numbers it holds (float32 forms)
        require(sh_used.shape == (3,) and np.abs(sh_used - sh_req).max() <= 1e-9 * geo.L,
                lambda: '%s: shift attribute %r is not the requested shift %r (shifts[%d] = %r)'
                % (w2, sh_used.tolist(), np.asarray(sh_req).tolist(), ii, shifts[ii].tolist()))
        require(np.abs(sh_used - shifts[ii]).max() <= 1e-6 * geo.L, lambda: '%s: shift attribute %r is not shifts[%d] = %r'
                % (w2, sh_used.tolist(), ii, shifts[ii].tolist()))
        B, o, pos, n, d, w = check_system(geo, system, sh_used, sp2, None, w2, motif, nrep)
        if mw is not None:
            require(w >= mw - 1e-9 * geo.L, lambda: '%s: slab width %.9g < minwidth %r' % (w2, w, mw))
        # termination: the cut (both faces) strictly between atomic planes, halfway
        dmin, dmax = float(d.min()), float(w - d.max())
        require(dmin > tol_l and dmax > tol_l, lambda: '%s: an atomic plane lies on the cut (nearest atoms %.3g above the bottom face, %.3g below the top face)'
                % (w2, dmin, dmax))
        if not geo.ambiguous:
            require(abs(dmin - dmax) <= 2 * tol_l, lambda: '%s: the cut is not halfway between atomic planes: nearest plane above the '
                    'cut at %.9g, below at %.9g' % (w2, dmin, dmax))
        area = float(np.linalg.norm(np.cross(B[geo.inpl[0]], B[geo.inpl[1]])))
        sa = float(fs.surfacearea)
        require(abs(sa - area) <= 1e-9 * area, lambda: '%s: surfacearea %.12g, in-plane cell area %.12g' % (w2, sa, area))
        last = (system, ii, mfinal)
        if case['vacuum'] is not None and first:
            vac_arg = H.num(float(case['vacuum']) * S)
            vac = float(vac_arg)
            kwv = dict(kw, vacuumwidth=vac_arg)
            if 'sizemults' in kwv:
                kwv['sizemults'] = H.mults(sm)
            w3 = w2[:-1] + ', vacuumwidth=%r)' % vac
            sysv = surface_call(fs, kwv, H, w3)
            ledger.add_system(sysv, w3)
            require(sysv.natoms == system.natoms, lambda: '%s: atom count changed' % w3)
            pv = np.asarray(sysv.atoms.pos, dtype=float)
            require(np.abs(pv - pos).max() <= 1e-10 * geo.L, lambda: '%s: atom positions moved by up to %.3g when vacuum was added'
                    % (w3, np.abs(pv - pos).max()))
            Bv = np.asarray(sysv.box.vects, dtype=float)
            ov = np.asarray(sysv.box.origin, dtype=float)
            require(np.abs(Bv - B - vac * np.outer(np.eye(3)[ci], n)).max() <= 1e-9 * (geo.L + vac),
                    lambda: '%s: box\n%r\nexpected the cut vector lengthened by %r along the plane normal:\n%r' % (w3, Bv, vac, B))
            require([bool(x) for x in sysv.pbc] == [bool(x) for x in system.pbc], lambda: '%s: pbc %r' % (w3, sysv.pbc))
            check_system(geo, sysv, sh_used, sp2, vac, w3, motif, nrep)
            labels.add('vacuum' if vac > 0 else 'vacuum0')
        if first and case.get('other'):
            # class A: another object on the same unit cell (same plane, other termination and size) is built and used in between
            oth = case['other']
            fs2 = FreeSurface(list(hkl), ucell, cutboxvector=cut, conventional_setting=setting, shiftindex=oth['sel'] % nsh,
                              **tol_arg(FreeSurface, cell))
            m2 = [1, 1, 1]
            m2[ci] = int(oth['mult'])
            ledger.add_system(fs2.surface(sizemults=m2), 'surface() of a second FreeSurface object on the same unit cell')
            ledger.add_system(fs2.rcell, 'rcell of a second FreeSurface object on the same unit cell')
            ledger.verify(' after another FreeSurface object was built on the same unit cell and used')
            labels.add('ledger_other')
        first = False
    require(np.array_equal(np.asarray(ucell.atoms.pos), snap_pos) and np.array_equal(np.asarray(ucell.box.vects), snap_v),
            lambda: '%s: the unit cell was modified' % what)
    # class A: everything handed out during the case is what it was when it was handed out (and judged)
    nled = ledger.verify(' at the end of the case (after %d later surface() calls)' % len(which))
    if len(ledger.systems) >= 3:
        labels.add('ledger')
    if caller:
        # class B.  The arguments were compared after every call (surface_call).  Now the caller overwrites in place what it handed
        # in, the systems handed out by earlier calls and the unit cell (in place and through the setter), then asks for the last
        # system again: it must come out bit for bit as before.
        last_sys, ii, mfinal = last
        snap_last = g14.Ledger.snap_system(last_sys)
        shift_before = np.array(fs.shift, dtype=float)
        caller_overwrites(H, ledger)
        if not np.array_equal(np.asarray(fs.shift, dtype=float), shift_before):
            raise Violation('%s: after the caller overwrote the array it had passed as shift, the shift attribute of the object is %r '
                            '(it was %r): set_shift keeps the caller\'s array instead of its values' % (what, np.asarray(fs.shift).tolist(), shift_before.tolist()),
                            key=K_SHIFT)
        for system, _, _ in ledger.systems:
            if system is not last_sys and system is not fs.rcell and system is not fs.system:
                ledger.drop(system)
                system.atoms.pos[...] = np.asarray(system.atoms.pos) * 0.5 + 1.25
                system.box_set(vects=np.asarray(system.box.vects) * 2.0)
        scribble_ucell(ucell)
        kw = {'shift': shift_before.copy(), 'sizemults': [1, 1, 1]}        # the shift in force and the final multipliers, as fresh objects
        kw['sizemults'][ci] = -mfinal if int(mcut) < 0 else mfinal
        for i_ in geo.inpl:
            kw['sizemults'][i_] = mult_arg(sm[i_]) if sm is not None else 1
        again = fs.surface(**kw)
        now = g14.Ledger.snap_system(again)
        for k_ in ('pos', 'atype', 'vects', 'origin', 'pbc'):
            require(now[k_].shape == snap_last[k_].shape and np.array_equal(now[k_], snap_last[k_]),
                    lambda: '%s: asked again for the last system (surface(%s)) after the caller overwrote its arguments, the earlier '
                    'systems and the unit cell: %s differs (max %.3g)' % (what, ', '.join('%s=%r' % kv for kv in sorted(kw.items())), k_,
                                                                        float(np.abs(now[k_].astype(float) - snap_last[k_].astype(float)).max())
                                                                        if now[k_].shape == snap_last[k_].shape else -1.0))
        ledger.verify(' after the caller overwrote what it had handed in')
        labels.add('caller_mut')
        if case['shiftsel'] % 2:
            # the array handed out as the `shift` attribute is overwritten by the caller, then a termination is selected anew: the
            # table of offered shifts must still be what it was
            fs.surface(shiftindex=ii)
            s_out = fs.shift
            if isinstance(s_out, np.ndarray) and s_out.flags.writeable:
                s_out[...] = 0.4321
            fs.surface(shiftindex=ii)
            tab = np.asarray(fs.shifts, dtype=float)
            if not (tab.shape == shifts.shape and np.array_equal(tab, shifts)):
                raise Violation('%s: after the caller overwrote the array handed out as the shift attribute, the table of offered shifts is\n%r\n'
                                'it was\n%r: the shift attribute is a row of the table itself' % (what, tab.tolist(), shifts.tolist()), key=K_SHIFT)
            labels.add('caller_mut_shift_out')
    labels.add('shiftmode_' + case['shiftmode'])
    if sm is not None:
        if any(isinstance(m, list) for m in sm):
            labels.add('tuplemult')
        if any((not isinstance(m, list)) and m < 0 for m in sm):
            labels.add('negmult')
    if case['minwidth'] is not None:
        labels.add('minwidth')
        if max(allowed) > abs(int(mcut)) + (1 if case['even'] else 0):
            labels.add('minwidth_decides')
    if near_mw:
        labels.add('minwidth_near')
        labels.add('minwidth_exact' if near_mw['e'] is None else ('minwidth_near_above' if near_mw['sign'] > 0 else 'minwidth_near_below'))
    if case['even']:
        labels.add('even')
    if is_nt_plane(cell, h3):
        labels.add('nt')
    labels.add('built')
    return labels



# ----------------------------------------------------------------------------- fault

AIDX = {'a': (1, 2), 'b': (2, 0), 'c': (0, 1)}
FAULT_BAND = 1e-7          # x cell width along the cut: far above rounding (1e-16 relative), far below any generated layer spacing
_frac15 = st.integers(-1500, 1500).map(lambda k: k / 1000.0)
_gapfrac = st.sampled_from([0.5, 0.5, 0.25, 0.8, 0.1, 0.37])
_small = st.integers(-2, 2)
_cutmult_f = st.sampled_from([1, 2, 2, 3, 3, 4, 5, -2, -3])
_combo = st.sampled_from([[[1, 0], [0, 1]], [[1, 1], [0, 1]], [[1, 0], [1, 1]], [[0, 1], [-1, 0]], [[2, 0], [0, 1]],
                          [[1, -1], [1, 1]], [[-1, 0], [0, -1]], [[1, 2], [0, 1]]])
_outs = st.sampled_from([0.5, -0.3, 1.25, 0.1])
_custom_where = st.sampled_from(['init', 'fault', 'fault', 'setter', 'setter'])


_fmode = st.sampled_from(['default', 'default', 'cart', 'cart', 'rel', 'rel', 'rel'])
_which = st.sampled_from(['both', 'both', 'a1', 'a1', 'a2'])
_fkind = st.sampled_from(['a12', 'a12', 'a12', 'a12', 'lattice', 'lattice', 'faultshift', 'faultshift', 'a12out', 'default'])


@st.composite
def fault_cases(draw):
    u = draw(ucells())
    cell = u['cell']
    hkl, cut = draw(plane_cut(cell))
    ci = CUTIDX[cut]
    mults = [draw(_mult_in) for _ in range(3)]
    mults[ci] = draw(_cutmult_f)
    kind = draw(_fkind)
    sh = {'kind': kind}
    if kind in ('a12', 'a12out'):
        which = draw(_which)
        sh['a1'] = draw(_frac15) if which != 'a2' else None
        sh['a2'] = draw(_frac15) if which != 'a1' else None
        if kind == 'a12out':
            sh['out'] = draw(_outs)
    elif kind == 'lattice':
        sh['a1'] = draw(_small)
        sh['a2'] = draw(_small)
    elif kind == 'faultshift':
        sh['vec'] = [draw(_frac15) * 2.0 for _ in range(3)]
    custom = None
    if draw(_int10) < 3:
        custom = {'combo': draw(_combo), 'where': draw(_custom_where),
                  'bad': draw(_int10) < 3, 'at': draw(_int10)}
    # object history: earlier surface() calls (other arguments, fault position given or defaulted), setters / fault() between
    prior = []
    for _ in range(draw(_nprior)):
        step = _draw_step(draw, ci)
        step['fpos'] = draw(_relpos) if draw(_int10) < 4 else None
        k = draw(_int10)
        if k < 2:
            step['after'] = {'op': 'set_rel', 'v': draw(_relpos)}
        elif k < 4:
            step['after'] = {'op': 'set_cart', 'v': draw(_relpos)}
        elif k < 7:
            step['after'] = {'op': 'fault', 'a1': draw(_frac15), 'a2': draw(_frac15),
                             'fpos': draw(_relpos) if draw(_bool) else None}
        else:
            step['after'] = None
        prior.append(step)
    history = {'prior': prior, 'final_shift': draw(_final_shift),
               'pre_fault': {'a1': draw(_frac15), 'a2': draw(_frac15), 'fpos': draw(_relpos) if draw(_bool) else None}
               if draw(_int10) < 3 else None}
    fmode = draw(_fmode)
    even = draw(_int10) < 3
    minwidth = draw(_width) if draw(_int10) < 3 else None
    if fmode == 'default' and draw(_int10) < 7:
        minwidth = None
        # odd number of cells across the cut and the default position 0.5: an atomic plane can sit exactly on the fault plane
        mults[ci] = draw(st.sampled_from([1, 3, 5, 3]))
        even = False
    vacuum = draw(_vac) if draw(_int10) < 2 else None
    keep_mults = draw(_int10) < 9
    if draw(_int10) < 2:
        # constructive sub-class for the boundary itself: one atomic plane per lattice period, odd number of cells, default
        # fault position 0.5 -> (whenever periods x cells is odd) an atomic plane sits exactly on the fault plane
        u = dict(u, atoms=[u['atoms'][0]], types=[1])
        fmode, even, minwidth, vacuum, keep_mults = 'default', False, None, None, True
        mults[ci] = draw(st.sampled_from([1, 3, 5, 3]))
        if sh['kind'] in ('default', 'lattice'):
            sh = {'kind': 'a12', 'a1': draw(_frac15), 'a2': draw(_frac15)}
    case = {'ucell': u, 'hkl': hkl, 'cut': cut,
            'sizemults': mults if keep_mults else None,
            'minwidth': minwidth,
            'even': even,
            'vacuum': vacuum,
            'shiftsel': draw(st.integers(0, 1000)),
            'fpos': {'mode': fmode,
                     'where': draw(st.sampled_from(['surface', 'fault'])),
                     'gapsel': draw(st.integers(0, 1000)), 'frac': draw(_gapfrac)},
            'shift': sh, 'custom': custom,
            'minimum_r': draw(st.sampled_from([1.5, 2.5, 0.8])) if draw(_int10) < 1 else None,
            'itermap': [draw(st.integers(1, 3)), draw(st.integers(1, 3))] if draw(_int10) < 2 else None,
            'outside': draw(_int10) < 1,
            'history': history}
    # ---- generator classes carried over from the seeded rounds
    k = draw(_int20)
    if k < 3 and fmode != 'default':
        # class E: the fault plane 1e-6 ... 1e-3 of the slab width above / below an atomic layer (still between layers, outside
        # the 1e-7 band in which rounding decides the side of an atom)
        case['fpos']['near'] = {'e': draw(_near_e), 'side': draw(_int10) % 2}
    k = draw(_int20)
    if k < 3 and sh['kind'] in ('a12', 'a12out'):
        # class E: fractional shifts a hair (1e-9 ... 1e-4) from 0 / a full lattice vector
        sh['kind'] = 'a12near'
        sh.pop('out', None)
        sh['a1'] = draw(_small) + draw(_hair)
        if sh.get('a2') is not None and draw(_bool):
            sh['a2'] = draw(_small) + draw(_hair)
    elif k < 6 and case['minimum_r'] is None and (sh['kind'] in ('a12out', 'default') or (sh['kind'] == 'a12' and sh.get('a2') is not None)):
        # class F: the components of ONE shift request span 8+ decades (a1 ~ 1e-9, a2 ~ 0.4, outofplane ~ 1e-5 S; or a full
        # faultshift vector): judged at rounding level, and again as the small component alone
        if draw(_bool):
            case['shift'] = {'kind': 'decades', 'via': 'a12out', 'a1': draw(_tiny9) , 'a2': draw(_frac15) or 0.4, 'out': draw(_tiny5)}
        else:
            v = [draw(_frac15) * 2.0 or 1.0, draw(_tiny9) * 3.0, draw(_tiny5)]
            r = draw(_int10) % 3
            case['shift'] = {'kind': 'decades', 'via': 'faultshift', 'vec': v[r:] + v[:r]}
        if case['custom'] is not None and case['custom']['bad']:
            case['custom'] = None
    k = draw(_int20)
    if k < 6:
        # class C: how the caller hands the arguments in
        case['forms'] = {'hkl': draw(g14.int_forms), 'shift': draw(g14.float_forms), 'mults': draw(g14.mult_forms),
                         'num': draw(g14.scalar_forms), 'idx': draw(g14.index_forms), 'uvw': draw(g14.int_forms)}
    if draw(_int10) < 3:
        case['caller'] = True
    if draw(_int10) < 2:
        case['other'] = {'sel': draw(_sel), 'mult': draw(_mult_cut_h), 'a1': draw(_frac15)}
    return case


_near_e = st.sampled_from([-3, -4, -5, -6])
_hair = st.sampled_from([1e-9, -1e-9, 1e-6, -1e-6, 1e-4, -1e-4, 3e-8])
_tiny9 = st.sampled_from([1e-9, -2e-9, 3e-9, 5e-10, -1e-8])
_tiny5 = st.sampled_from([1e-5, -3e-5, 2e-6, 1e-4])


def cluster_layers(x, tol):
    xs = np.sort(np.asarray(x, dtype=float))
    out = [xs[0]]
    for v in xs[1:]:
        if v - out[-1] > tol:
            out.append(v)
    return np.array(out)


def displacement_check(base, new, side, expected, B, ci, tol, what, common_delta=False):
    """side: +1 above, 0 below/on-plane (must stay), -1 exempt.  returns delta (extra common out-of-plane push)"""
    resid = new - base
    resid[side == 1] -= expected
    e = np.zeros(3)
    e[ci] = 1.0
    delta = 0.0
    judged = side >= 0
    if common_delta and (side == 1).any():
        rel0 = np.linalg.solve(B.T, resid[side == 1].T).T
        n0 = np.rint(rel0)
        n0[:, ci] = 0
        r0 = resid[side == 1] - n0 @ B
        delta = float(np.median(r0[:, ci]))
        resid[side == 1] -= delta * e
    rel = np.linalg.solve(B.T, resid.T).T
    n = np.rint(rel)
    n[:, ci] = 0
    r = resid - n @ B
    err = np.linalg.norm(r, axis=1)
    err[~judged] = 0.0
    k = int(np.argmax(err))
    require(err[k] <= tol, lambda: '%s: atom #%d (%s the fault plane, at %r) moved by %r, expected %r modulo the in-plane cell vectors (residual %.3g)'
            % (what, k, 'above' if side[k] == 1 else 'not above', base[k].tolist(), (new[k] - base[k]).tolist(),
               (expected + delta * e).tolist() if side[k] == 1 else [0.0, 0.0, 0.0], err[k]))
    return delta


def avect_twin(am, StackingFault, case, u, cust_kw):
    """the same StackingFault(..., a1vect_uvw=, a2vect_uvw=) on the same unit cell in angstrom-scale numbers:
    'refuses' (ValueError not in fault plane) or 'accepts'"""
    u1 = dict(u, cell=dict(u['cell'], lscale=0))
    ucell1 = build_ucell(am, u1)[0]
    try:
        StackingFault(case['hkl'], ucell1, cutboxvector=case['cut'], conventional_setting=u['cell']['setting'], **cust_kw)
    except ValueError as e:
        if 'not in fault plane' in str(e):
            return 'refuses'
        raise
    return 'accepts'


def bad_avect_accepted(am, StackingFault, case, u, cust_kw, msg):
    """a shift vector that leaves the plane was accepted: keyed when the case is in other units than angstrom-scale numbers
    and the same call on the same cell in angstrom-scale numbers refuses it"""
    key = None
    if u['cell'].get('lscale') and avect_twin(am, StackingFault, case, u, cust_kw) == 'refuses':
        key = K_AVECT
        msg += (' [the same vectors on the same cell in angstrom-scale numbers are refused: the in-plane test compares a length '
                'with an absolute tolerance]')
    raise Violation(msg, key=key)


def uvw_arg(H, c, where):
    """a shift vector in crystal indices the way the caller hands it in (class C): an integer form when the indices are whole
    numbers, else a float form (float32 only for dyadic values: the vector a float32 array holds must still be a lattice vector)"""
    vals = [float(x) for x in c]
    f = H.f.get('uvw')
    if not f:
        return H.keep(vals, where)
    if all(v == round(v) for v in vals):
        return H.keep(g14.int_arg(f, [int(round(v)) for v in vals]), where)
    ff = H.f.get('shift') or 'f8'
    if ff == 'f4' and not g14.dyadic(vals):
        ff = 'f8'
    return H.keep(g14.float_arg(ff, vals), where)


@with_scale_diagnosis
def oracle_fault(case):
    import atomman as am
    from atomman.defect import StackingFault
    u = case['ucell']
    cell = u['cell']
    hkl, cut = case['hkl'], case['cut']
    setting = cell['setting']
    h3 = plane3(hkl)
    S = cell_S(cell)
    ledger = g14.Ledger(Violation)
    caller = bool(case.get('caller'))
    H = Hand(case.get('forms'), ledger, caller)
    labels = ({cell['family'], 'setting_' + setting, 'cut_' + cut} | scale_labels(cell) | class_labels(cell) | store_labels(u)
              | H.labels())
    if setting != 'p':
        labels.add('centred')
    if len(hkl) == 4:
        labels.add('hex4')
    ucell, Vp, upos = build_ucell(am, u)
    snap_pos, snap_v = np.array(ucell.atoms.pos), np.array(ucell.box.vects)
    sf, what = construct(am, StackingFault, case, u, ucell, labels, H=H)
    if sf is None:
        return labels
    if H.f.get('hkl'):
        what += ' [hkl handed in as %s]' % H.f['hkl']
    rows = rows_from_uvws(sf.uvws, setting, what)
    geo = Geometry(u, hkl, cut, rows)
    judge_rows(geo, what)
    labels |= rows_labels(rows)
    ledger.add_system(sf.rcell, 'the rcell attribute of ' + what)
    for nm in ('shifts', 'uvws', 'transform'):
        ledger.add_array(getattr(sf, nm), 'the %s attribute of %s' % (nm, what))
    ci = geo.ci
    i1, i2 = AIDX[cut]
    uv = np.asarray(sf.uvws, dtype=float)
    custom = case['custom']
    A1, A2 = geo.B0[i1].copy(), geo.B0[i2].copy()
    cust_kw = {}
    if custom is not None:
        (p, q), (r, t) = custom['combo']
        c1, c2 = p * uv[i1] + q * uv[i2], r * uv[i1] + t * uv[i2]
        if custom['bad']:
            c1 = c1 + uv[ci]
        cust_kw = {'a1vect_uvw': uvw_arg(H, c1, 'a1vect_uvw'), 'a2vect_uvw': uvw_arg(H, c2, 'a2vect_uvw')}
        A1, A2 = p * geo.B0[i1] + q * geo.B0[i2], r * geo.B0[i1] + t * geo.B0[i2]
        labels.add('custom_avect')
        if custom['where'] == 'init':
            try:
                sf = StackingFault(H.hkl(hkl), ucell, cutboxvector=cut, conventional_setting=setting, **tol_arg(StackingFault, cell), **cust_kw)
                ledger.add_system(sf.rcell, 'the rcell attribute of the object built with shift vectors')
            except ValueError as e:
                if not custom['bad'] and 'not in fault plane' in str(e) and cell.get('lscale') \
                        and avect_twin(am, StackingFault, case, u, cust_kw) == 'accepts':
                    raise Violation('%s with %r raised ValueError(%s); the same vectors on the same cell in angstrom-scale numbers are '
                                    'accepted' % (what, cust_kw, e), key=K_AVECT) from None
                require(custom['bad'] and 'not in fault plane' in str(e), lambda: '%s with %r raised ValueError(%s)' % (what, cust_kw, e))
                labels.update({'refusal_avect', 'nt'} if is_nt_plane(cell, h3) else {'refusal_avect'})
                return labels
            if custom['bad']:
                bad_avect_accepted(am, StackingFault, case, u, cust_kw,
                                   '%s accepted a shift vector %r that leaves the plane' % (what, cust_kw['a1vect_uvw']))
            cust_kw = {}
    # ---- object history: earlier surface() calls on the same object, setters and fault() calls in between (not judged)
    hist = case.get('history') or {}
    prior = hist.get('prior') or []
    setter_at = custom['at'] % (len(prior) + 1) if custom is not None and custom['where'] == 'setter' else None

    def apply_setter():
        try:
            sf.a1vect_uvw = cust_kw['a1vect_uvw']
            sf.a2vect_uvw = cust_kw['a2vect_uvw']
        except ValueError as e:
            require(custom['bad'] and 'not in fault plane' in str(e), lambda: '%s: assigning %r raised ValueError(%s)' % (what, cust_kw, e))
            labels.update({'refusal_avect', 'nt'} if is_nt_plane(cell, h3) else {'refusal_avect'})
            return False
        if custom['bad']:
            bad_avect_accepted(am, StackingFault, case, u, cust_kw,
                               '%s: a1vect_uvw = %r, a shift vector that leaves the plane, was accepted' % (what, cust_kw['a1vect_uvw']))
        labels.add('history_setter_avect')
        return True

    cur = 0                       # constructor without shift / shiftindex: shiftindex 0 (documented)
    explicit_pos = False
    prev_natoms = None
    for j, step in enumerate(prior):
        if setter_at == j:
            if not apply_setter():
                return labels
            cust_kw = {}
        extra = {}
        if step.get('fpos') is not None:
            extra['faultpos_rel'] = step['fpos']
            explicit_pos = True
        psys, cur = run_step(sf, step, cur, S=S, H=H, **extra)
        prev_natoms = psys.natoms
        ledger.add_system(psys, 'earlier surface() call #%d' % j)
        if step['shiftmode'].startswith('set_shift'):
            labels.add('history_set_shift')
        after = step.get('after')
        if after is not None:
            po = float(psys.box.origin[ci])
            pw = float(psys.box.vects[ci, ci])
            if after['op'] == 'set_rel':
                sf.faultpos_rel = after['v']
                labels.add('history_setter_faultpos')
                explicit_pos = True
            elif after['op'] == 'set_cart':
                sf.faultpos_cart = po + min(max(after['v'], 0.02), 0.98) * pw
                labels.add('history_setter_faultpos')
                explicit_pos = True
            else:
                fk = {'a1': after['a1'], 'a2': after['a2']}
                if after['fpos'] is not None:
                    fk['faultpos_rel'] = after['fpos']
                    explicit_pos = True
                ledger.add_system(sf.fault(**fk), 'fault() between the surface() calls')
                labels.add('history_fault_between')
    if setter_at == len(prior):
        if not apply_setter():
            return labels
        cust_kw = {}
    if prior:
        what = '%s [after %d earlier surface() calls on the same object: %s]' % (
            what, len(prior), ' ; '.join(', '.join('%s=%r' % kv for kv in sorted(p.items())) for p in prior))
        labels.add('history_second_surface')
        if len(prior) > 1:
            labels.add('history_third_surface')
    # ---- base system
    sm = case['sizemults']
    nsh = len(sf.shifts)
    fshift = hist.get('final_shift', 'index')
    kw, cur = shift_arg(sf, fshift, case['shiftsel'] % nsh, cur, H)
    if fshift.startswith('set_shift'):
        labels.add('history_set_shift')
        what = '%s.%s(#%d)' % (what, fshift, cur)
    elif fshift == 'none' and prior:
        labels.add('history_shift_persisted')
    if sm is not None:
        kw['sizemults'] = H.mults(sm)
    if case['minwidth'] is not None:
        kw['minwidth'] = H.num(case['minwidth'] * S)
    if case['even']:
        kw['even'] = True
    if case['vacuum'] is not None:
        kw['vacuumwidth'] = H.num(float(case['vacuum']) * S)
    w0 = '%s.surface(%s)' % (what, ', '.join('%s=%r' % kv for kv in sorted(kw.items())))
    base_sys = surface_call(sf, kw, H, w0)
    ledger.add_system(base_sys, w0)
    sh_now = np.asarray(sf.shift, dtype=float)
    sh_exp = np.asarray(sf.shifts, dtype=float)[cur]
    # a shift vector handed in as a float32 array IS the numbers it holds: 1e-9 against the request, 1e-6 against the table
    sh_req = sh_exp if H.vec_abs is None else H.vec_abs
    require(sh_now.shape == (3,) and np.abs(sh_now - sh_req).max() <= 1e-9 * geo.L and np.abs(sh_now - sh_exp).max() <= 1e-6 * geo.L,
            lambda: '%s: shift attribute %r, the termination in force is shifts[%d] = %r' % (w0, sh_now.tolist(), cur, sh_exp.tolist()))
    if prev_natoms is not None and prev_natoms != base_sys.natoms:
        labels.add('history_natoms_changed')
    B = np.array(base_sys.box.vects, dtype=float)
    o = np.array(base_sys.box.origin, dtype=float)
    base = np.array(base_sys.atoms.pos, dtype=float)
    btype = np.array(base_sys.atoms.atype).astype(int)
    exp_pbc = [True, True, True]
    exp_pbc[ci] = False
    require([bool(x) for x in base_sys.pbc] == exp_pbc, lambda: '%s: pbc %r' % (w0, base_sys.pbc))
    for i in geo.inpl:
        cnt = mult_span(sm[i])[1] if sm is not None else 1
        require(np.abs(B[i] - cnt * geo.B0[i]).max() <= 1e-8 * geo.L * cnt, lambda: '%s: in-plane box vector %d is %r, expected %d x %r'
                % (w0, i, B[i].tolist(), cnt, geo.B0[i].tolist()))
    width = float(B[ci, ci])
    x = base[:, ci]
    Lx = cluster_layers(x, 1e-6 * max(S, geo.L))
    fp = case['fpos']
    mode = fp['mode']
    fkw = {}
    tol = 1e-8 * max(S, geo.L, width)
    if case['outside']:
        bad = {'faultpos_rel': 1.0 + fp['frac']} if fp['gapsel'] % 2 else {'faultpos_cart': float(o[ci] - (fp['frac'] + 0.01) * S)}
        try:
            sf.fault(a1=0.5, **bad)
        except ValueError as e:
            require('faultpos is outside system' in str(e), lambda: '%s.fault(%r) raised ValueError(%s)' % (w0, bad, e))
            labels.add('refusal_faultpos')
        else:
            raise Violation('%s.fault(a1=0.5, %r): a fault position outside the system was accepted' % (w0, bad))
    if mode == 'default':
        fpv = float(o[ci] + 0.5 * width)          # surface(): 'Default value is 0.5', whatever was set on the object before
        if prior:
            labels.add('history_faultpos_defaulted_after_set' if explicit_pos else 'history_faultpos_defaulted_after_default')
    else:
        if len(Lx) >= 2:
            gi = fp['gapsel'] % (len(Lx) - 1)
            fpv = float(Lx[gi] + fp['frac'] * (Lx[gi + 1] - Lx[gi]))
            nr = fp.get('near')
            if nr:
                # class E: the plane a hair (1e-6 ... 1e-3 of the slab width, 10 ... 1e4 times the band in which rounding decides)
                # above the lower / below the upper atomic layer of the gap
                dnear = 10.0 ** int(nr['e']) * width
                if dnear < 0.45 * (Lx[gi + 1] - Lx[gi]):
                    fpv = float(Lx[gi] + dnear) if nr['side'] == 0 else float(Lx[gi + 1] - dnear)
                    labels.add('fpos_near_layer')
        else:
            labels.add('onelayer')
            fpv = float(Lx[0] + (0.3 if fp['gapsel'] % 2 else -0.3) * min(Lx[0] - o[ci], o[ci] + width - Lx[0]))
        fnum = H.num if H.f.get('num') != 'np4' else (lambda x_: g14.scalar_arg('np8', x_))       # a position between layers is not a float32 number
        if mode == 'cart':
            fkw['faultpos_cart'] = fnum(fpv)
        else:
            fkw['faultpos_rel'] = fnum(float((fpv - o[ci]) / width))
        if fp['where'] == 'surface':
            base_sys = surface_call(sf, dict(kw, sizemults=H.mults(sm), **fkw) if sm is not None else dict(kw, **fkw), H, w0)
            ledger.add_system(base_sys, w0 + ' again with %r' % fkw)
            require(np.array_equal(np.asarray(base_sys.atoms.pos), base), lambda: '%s: rebuilding the same surface with %r gave other positions' % (w0, fkw))
            fkw = {}
    # ---- the fault
    sh = case['shift']
    e = np.zeros(3)
    e[ci] = 1.0
    skw = {}
    hair = sh['kind'] in ('a12near', 'decades')
    # numbers handed in as numpy scalars ARE the numbers they hold (float32: the request is the rounded value); a hair is no float32 number
    snum = H.num if not (hair and H.f.get('num') == 'np4') else (lambda x_: g14.scalar_arg('np8', x_))
    if sh['kind'] in ('a12', 'a12out', 'lattice', 'a12near') or (sh['kind'] == 'decades' and sh['via'] == 'a12out'):
        if sh.get('a1') is not None:
            skw['a1'] = snum(sh['a1']) if not isinstance(sh['a1'], int) or H.f.get('num') else sh['a1']
        if sh.get('a2') is not None:
            skw['a2'] = snum(sh['a2']) if not isinstance(sh['a2'], int) or H.f.get('num') else sh['a2']
        if 'out' in sh:
            skw['outofplane'] = snum(sh['out'] * S)                    # 'given in absolute units'
        expected = (float(skw.get('a1', 0.0)) * A1 + float(skw.get('a2', 0.0)) * A2 + float(skw.get('outofplane', 0.0)) * e)
    elif sh['kind'] == 'faultshift' or sh['kind'] == 'decades':
        fform = H.f.get('shift') if not (hair and H.f.get('shift') == 'f4') else 'f8'
        skw['faultshift'] = H.keep(g14.float_arg(fform or 'f8', np.array(sh['vec'], dtype=float) * S), 'faultshift')
        expected = g14.request(skw['faultshift'])
    else:
        expected = np.zeros(3)
    if case['minimum_r'] is not None:
        skw['minimum_r'] = H.num(case['minimum_r'] * S)
    pf = hist.get('pre_fault')
    if pf is not None:
        # an earlier fault() on the final surface; it may move the fault plane only when the judged call places its own
        pk = {'a1': pf['a1'], 'a2': pf['a2']}
        if pf['fpos'] is not None and fkw:
            pk['faultpos_rel'] = pf['fpos']
        ledger.add_system(sf.fault(**pk), 'an earlier fault() on the same surface')
        labels.add('history_pre_fault')
    allkw = dict(skw, **fkw, **cust_kw)
    w1 = '%s.fault(%s)' % (w0, ', '.join('%s=%r' % (k_, v.tolist() if isinstance(v, np.ndarray) else v) for k_, v in sorted(allkw.items())))
    try:
        fsys = sf.fault(**allkw)
    except ValueError as ex:
        if custom is not None and custom['bad'] and 'not in fault plane' in str(ex):
            labels.add('refusal_avect')
            return labels
        raise
    ledger.add_system(fsys, w1)
    if caller:
        ledger.verify_inputs(' by ' + w1)          # class B: the arguments are bit-identical after the call
    if custom is not None and custom['bad'] and cust_kw:
        bad_avect_accepted(am, StackingFault, case, u, cust_kw, '%s accepted a shift vector that leaves the plane' % w1)
    fpc = float(sf.faultpos_cart)
    require(abs(fpc - fpv) <= 1e-9 * max(S, abs(fpv), width), lambda: '%s: faultpos_cart %.12g, requested position %.12g' % (w1, fpc, fpv))
    fpr = float(sf.faultpos_rel)
    require(abs(fpr - (fpv - o[ci]) / width) <= 1e-9, lambda: '%s: faultpos_rel %.12g for position %.12g in [%.12g, %.12g]' % (w1, fpr, fpv, o[ci], o[ci] + width))
    # domain: 'fault-plane positions lying between atomic layers'.  An atom within BAND of the plane in force (given, defaulted
    # or reached through the object's history) without being on it EXACTLY (float equality of the very numbers atomman compares)
    # puts the case out of domain: rounding decides atom by atom which side it is on.  Only the shift-independent assertions
    # are then made.  An atomic plane exactly on the fault plane (all of its atoms equal to faultpos_cart) stays: 'above' is strict
    band = FAULT_BAND * max(S, width)
    near = np.abs(x - fpc) <= band
    exact = near & (x == fpc)
    out_of_domain = bool((near & ~exact).any())
    side = np.where(exact, 0, np.where(x > fpc, 1, 0))
    if out_of_domain:
        side[near] = -1
        labels.add('atom_on_fault_plane_exempt')
    elif exact.any():
        labels.add('onplane_exact')
    mask = np.asarray(sf.abovefault)
    require(mask.shape == (len(x),) and np.array_equal(mask[side >= 0], side[side >= 0] == 1),
            lambda: '%s: abovefault does not mark exactly the atoms above %.9g' % (w1, fpc))
    new = np.array(fsys.atoms.pos, dtype=float)
    require(new.shape == base.shape and np.array_equal(np.asarray(fsys.atoms.atype).astype(int), btype),
            lambda: '%s: atom count / types changed' % w1)
    require([bool(v) for v in fsys.pbc] == exp_pbc, lambda: '%s: pbc %r' % (w1, fsys.pbc))
    Bf = np.asarray(fsys.box.vects, dtype=float)
    for i in geo.inpl:
        require(np.abs(Bf[i] - B[i]).max() <= 1e-9 * geo.L * max(1.0, np.abs(B[i]).max() / geo.L), lambda: '%s: in-plane box vector %d changed: %r -> %r' % (w1, i, B[i].tolist(), Bf[i].tolist()))
    require(np.array_equal(np.asarray(sf.system.atoms.pos), base), lambda: '%s modified the stored surface system' % w1)
    if out_of_domain:
        labels.add('fpos_' + mode)
        return labels
    delta = displacement_check(base, new, side, expected, B, ci, tol, w1, common_delta=case['minimum_r'] is not None)
    require(delta >= -tol, lambda: '%s: minimum_r pulled the upper part towards the plane (extra out-of-plane shift %.3g)' % (w1, delta))
    if delta > tol:
        labels.add('minimum_r_pushed')
    nab, nbe = int((side == 1).sum()), int((side == 0).sum())
    if nab and nbe:
        labels.add('both_sides')
    if sh['kind'] == 'decades':
        # class F: the components of the request span 8+ decades.  The shift is ADDED to the stored positions (and the slab wrapped
        # in the plane): each atom's displacement is the request to within the rounding of its own coordinates, so the smallest
        # component (1e-9 of the largest) is resolved; and it is the displacement of the call that asks for it alone
        tolF = 1e-12 * max(float(np.abs(base).max()), float(np.abs(B).max()), float(np.abs(o).max()))
        displacement_check(base, new, side, expected, B, ci, tolF, w1 + ' [components over 8+ decades, rounding-level tolerance]')
        if sh['via'] == 'faultshift':
            nzc = [j for j in range(3) if expected[j] != 0.0]
            j = min(nzc, key=lambda j_: abs(expected[j_]))
            alone = np.zeros(3)
            alone[j] = expected[j]
            akw = {'faultshift': alone.copy()}
        else:
            alone = float(skw['a1']) * A1
            akw = {'a1': skw['a1']}
        w1a = '%s then .fault(%s)' % (w1, ', '.join('%s=%r' % (k_, v.tolist() if isinstance(v, np.ndarray) else v) for k_, v in sorted(akw.items())))
        fsys_a = ledger.add_system(sf.fault(**akw), w1a)
        displacement_check(base, np.array(fsys_a.atoms.pos, dtype=float), side, alone, B, ci, tolF, w1a + ' [the smallest component alone]')
        if nab and nbe:
            labels.add('decades')
    if sh['kind'] == 'lattice' and case['minimum_r'] is None:
        # full in-plane lattice vector: the perfect (unfaulted) slab is restored as a set of atoms
        mt = cm.Motif(B, o, base, 1e-6 * max(S, geo.L))
        m = mt.match(new)
        cntm = mt.multiplicity(m.index)
        okm = (len(m.unmatched) == 0 and np.all(cntm == 1) and np.all(m.shift[:, ci] == 0)
               and np.array_equal(btype[m.index], btype))
        require(okm, lambda: '%s: a shift by the full lattice vector %r does not restore the unfaulted slab (%d atoms off, '
                'multiplicities %r..%r)' % (w1, expected.tolist(), len(m.unmatched), cntm.min(), cntm.max()))
        labels.add('lattice_restored')
        if (sh['a1'] or sh['a2']) and nab and nbe:
            labels.add('lattice_nonzero')
    if np.linalg.norm(expected) > 1e-6 * S and nab and nbe and np.abs(np.cross(A1, A2)).max() > 0:
        labels.add('shifted')
        if sh.get('a1') and not sh.get('a2'):
            labels.add('a1_only')
    # ---- iterfaultmap
    if case['itermap'] is not None and not (custom is not None and custom['bad']):
        n1, n2 = case['itermap']
        out = list(sf.iterfaultmap(num_a1=H.idx(n1), num_a2=H.idx(n2)))
        for a1, a2, sy in out:
            ledger.add_system(sy, '%s.iterfaultmap(%d, %d) at a1=%r a2=%r' % (w0, n1, n2, a1, a2))
        require(len(out) == n1 * n2, lambda: '%s.iterfaultmap(%d, %d) yielded %d systems' % (w0, n1, n2, len(out)))
        seen = set()
        for a1, a2, sy in out:
            k1, k2 = a1 * n1, a2 * n2
            require(abs(k1 - round(k1)) < 1e-9 and abs(k2 - round(k2)) < 1e-9 and 0 <= round(k1) < n1 and 0 <= round(k2) < n2,
                    lambda: '%s.iterfaultmap(%d, %d) yielded a1, a2 = %r, %r, not on the regular grid' % (w0, n1, n2, a1, a2))
            seen.add((int(round(k1)), int(round(k2))))
            displacement_check(base, np.array(sy.atoms.pos, dtype=float), side, a1 * A1 + a2 * A2, B, ci, tol,
                               '%s.iterfaultmap(%d, %d) at a1=%r a2=%r' % (w0, n1, n2, a1, a2))
        require(len(seen) == n1 * n2, lambda: '%s.iterfaultmap(%d, %d): grid points repeated' % (w0, n1, n2))
        labels.add('itermap')
    # ---- class A: everything handed out during the case is what it was when it was handed out (and judged), also after another
    # object was built on the same unit cell and used
    if case.get('other'):
        oth = case['other']
        sf2 = StackingFault(list(hkl), ucell, cutboxvector=cut, conventional_setting=setting, shiftindex=oth['sel'] % nsh,
                            **tol_arg(StackingFault, cell))
        m2 = [1, 1, 1]
        m2[ci] = int(oth['mult'])
        ledger.add_system(sf2.surface(sizemults=m2), 'surface() of a second StackingFault object on the same unit cell')
        ledger.add_system(sf2.fault(a1=oth['a1'], a2=0.5), 'fault() of a second StackingFault object on the same unit cell')
        ledger.add_system(sf2.rcell, 'rcell of a second StackingFault object on the same unit cell')
        labels.add('ledger_other')
    require(np.array_equal(np.asarray(ucell.atoms.pos), snap_pos) and np.array_equal(np.asarray(ucell.box.vects), snap_v),
            lambda: '%s: the unit cell was modified' % what)
    ledger.verify(' at the end of the case')
    if len(ledger.systems) >= 4:
        labels.add('ledger')
    if caller:
        # class B.  The caller overwrites in place what it handed in (index / multiplier / shift-vector arrays and lists), the systems
        # handed out (the faulted system included) and the unit cell (in place and through the setter), then asks for the same fault
        # again with fresh arguments: it must come out bit for bit as before.  The surface system itself is the object's documented
        # `system` attribute and is left alone.
        snap_f = g14.Ledger.snap_system(fsys)
        shift_before = np.array(sf.shift, dtype=float)
        caller_overwrites(H, ledger)
        if not np.array_equal(np.asarray(sf.shift, dtype=float), shift_before):
            raise Violation('%s: after the caller overwrote the array it had passed as shift, the shift attribute of the object is %r '
                            '(it was %r): set_shift keeps the caller\'s array instead of its values'
                            % (what, np.asarray(sf.shift).tolist(), shift_before.tolist()), key=K_SHIFT)
        for system, _, _ in ledger.systems:
            if system is not sf.rcell and system is not sf.system:
                ledger.drop(system)
                system.atoms.pos[...] = np.asarray(system.atoms.pos) * 0.5 + 1.25
                system.box_set(vects=np.asarray(system.box.vects) * 2.0)
        scribble_ucell(ucell)
        akw = {}
        for k_ in ('a1', 'a2', 'outofplane', 'minimum_r'):
            if k_ in skw:
                akw[k_] = float(skw[k_])
        if 'faultshift' in skw:
            akw['faultshift'] = expected.copy()
        again = sf.fault(**akw)
        now = g14.Ledger.snap_system(again)
        for k_ in ('pos', 'atype', 'vects', 'origin', 'pbc'):
            require(now[k_].shape == snap_f[k_].shape and np.array_equal(now[k_], snap_f[k_]),
                    lambda: '%s: asked again (fault(%s)) after the caller overwrote its arguments, the systems handed out and the unit cell: '
                    '%s differs (max %.3g)' % (w1, ', '.join('%s=%r' % kv for kv in sorted(akw.items())), k_,
                                              float(np.abs(now[k_].astype(float) - snap_f[k_].astype(float)).max())
                                              if now[k_].shape == snap_f[k_].shape else -1.0))
        ledger.verify(' after the caller overwrote what it had handed in')
        labels.add('caller_mut')
    labels.add('fpos_' + mode)
    labels.add('kind_' + sh['kind'])
    if is_nt_plane(cell, h3):
        labels.add('nt')
    labels.add('built')
    return labels


# ----------------------------------------------------------------------------- class H: option combinations, enumerated

OPT_BASES = [
    # hcp-like two-atom cell, basal plane in Miller-Bravais indices: two atomic layers per period, several terminations
    {'ucell': {'cell': {'family': 'hexagonal', 'abc': GENERIC['hexagonal'], 'setting': 'p', 'rot': None, 'lscale': 0},
               'atoms': [[0.0, 0.0, 0.0], [1.0 / 3.0, 2.0 / 3.0, 0.5]], 'types': [1, 1]}, 'hkl': [0, 0, 0, 1], 'cut': 'c'},
    # fcc given by its primitive cell, (111) of the conventional cell: three terminations, tilted cut vector
    {'ucell': {'cell': {'family': 'cubic', 'abc': GENERIC2['cubic'], 'setting': 'f', 'rot': None, 'lscale': 0},
               'atoms': [[0.0, 0.0, 0.0]], 'types': [1]}, 'hkl': [1, 1, 1], 'cut': 'c'},
    # thorough tier only
    {'ucell': {'cell': {'family': 'monoclinic', 'abc': GENERIC['monoclinic'], 'setting': 'p', 'rot': None, 'lscale': 0},
               'atoms': [[0.0, 0.0, 0.0], [0.25, 0.5, 0.13037], [0.61737, 0.25, 0.5]], 'types': [1, 2, 1]}, 'hkl': [0, 1, 0], 'cut': 'b'},
    {'ucell': {'cell': {'family': 'cubic', 'abc': GENERIC['cubic'], 'setting': 'i', 'rot': [[1, 2, 3], 37.5], 'lscale': -10},
               'atoms': [[0.0, 0.0, 0.0]], 'types': [1]}, 'hkl': [1, 1, 0], 'cut': 'a'},
    {'ucell': {'cell': {'family': 'orthorhombic', 'abc': GENERIC['orthorhombic'], 'setting': 'p', 'rot': None, 'lscale': 0,
                        'perm': [[2, 0, 1], [1, 1, 1]]},
               'atoms': [[0.0, 0.0, 0.0], [0.5, 0.5, 0.25], [0.0, 0.5, 0.61737]], 'types': [1, 1, 2]}, 'hkl': [0, 0, 1], 'cut': 'c'},
]


def _opt_fault(base, n, cutmult=2, minwidth=None, even=False, vacuum=None, fmode='default', fwhere='surface', shift=None,
               minimum_r=None, custom=None, prior=(), final_shift='index', pre_fault=None):
    ci = CUTIDX[base['cut']]
    mults = [2, [-1, 1], 1]
    mults[ci] = cutmult
    return {'opt': 'fault', 'ucell': base['ucell'], 'hkl': base['hkl'], 'cut': base['cut'], 'sizemults': mults, 'minwidth': minwidth,
            'even': even, 'vacuum': vacuum, 'shiftsel': n, 'fpos': {'mode': fmode, 'where': fwhere, 'gapsel': n, 'frac': (0.5, 0.25, 0.8)[n % 3]},
            'shift': shift or {'kind': 'a12', 'a1': 0.3, 'a2': -0.45}, 'custom': custom, 'minimum_r': minimum_r, 'itermap': None,
            'outside': False, 'history': {'prior': list(prior), 'final_shift': final_shift, 'pre_fault': pre_fault},
            'caller': n % 4 == 1}


def _opt_step(ci, n, after=None, fpos=None, mode='index'):
    mults = [1, 1, 1]
    mults[ci] = (2, -1, 3)[n % 3]
    return {'sizemults': mults, 'minwidth': None, 'even': False, 'vacuum': (None, 5.0)[n % 2], 'shiftsel': n, 'shiftmode': mode,
            'fpos': fpos, 'after': after}


def enum_options(tier):
    """Every combination of the options that touch the same state of one object, and the state-changing calls in every order
    (class H).  G1: what decides the slab along the cut vector and where the fault plane ends up in it (multiplier sign x minwidth x
    even x vacuum x fault position default / relative / Cartesian, given to surface() or to fault()).  G2: what decides the shift
    vector (a1, a2 [, outofplane] | faultshift) x minimum_r x user shift vectors given to the constructor / the setters / fault()
    x fault position.  G3: how the termination is chosen in the constructor (nothing, index, vector, box-relative vector) x how
    surface() chooses or keeps it x multiplier sign.  Orders: two earlier surface() calls followed by every ordered pair of
    {faultpos_rel setter, faultpos_cart setter, fault(), nothing} with the shift-vector setters before, between or after them."""
    bases = OPT_BASES[:2] if tier == 'quick' else OPT_BASES
    cases = []
    n = 0
    for bi, base in enumerate(bases):
        ci = CUTIDX[base['cut']]
        for cutmult in (2, -3):
            for minwidth in (None, 17.0):
                for even in (False, True):
                    for vacuum in (None, 7.25):
                        for fmode, fwhere in (('default', 'surface'), ('rel', 'surface'), ('cart', 'surface'), ('rel', 'fault'), ('cart', 'fault')):
                            n += 1
                            cases.append(_opt_fault(base, n, cutmult=cutmult, minwidth=minwidth, even=even, vacuum=vacuum,
                                                    fmode=fmode, fwhere=fwhere))
        for shift in ({'kind': 'a12', 'a1': 0.3, 'a2': -0.45}, {'kind': 'a12out', 'a1': -0.7, 'a2': 0.2, 'out': 0.5},
                      {'kind': 'faultshift', 'vec': [0.8, -1.3, 0.4]}):
            for minimum_r in (None, 2.5):
                for cwhere in (None, 'init', 'setter', 'fault'):
                    for fmode, fwhere in (('default', 'surface'), ('rel', 'fault'), ('cart', 'surface')):
                        n += 1
                        custom = None if cwhere is None else {'combo': [[1, 1], [0, 1]], 'where': cwhere, 'bad': False, 'at': n}
                        cases.append(_opt_fault(base, n, cutmult=(3, -2)[n % 2], vacuum=(None, 5.0)[(n // 2) % 2], fmode=fmode, fwhere=fwhere,
                                                shift=dict(shift), minimum_r=minimum_r, custom=custom))
        if tier != 'quick' or bi == 0:
            for imode in (None, 'index', 'vector', 'scaled'):
                for smode in ('index', 'vector', 'scaled', 'set_shift', 'set_shift_vector', 'init'):
                    for cutmult in (2, -2):
                        n += 1
                        mults = [1, [0, 2], 1]
                        mults[ci] = cutmult
                        c = {'opt': 'surface', 'ucell': base['ucell'], 'hkl': base['hkl'], 'cut': base['cut'], 'sizemults': mults,
                             'minwidth': None, 'even': False, 'vacuum': (None, 5.0)[n % 2], 'shiftsel': n, 'shiftmode': smode,
                             'history': {'prior': [_opt_step(ci, n)] if n % 3 == 0 else []}, 'caller': n % 4 == 1}
                        if imode:
                            c['init'] = {'mode': imode, 'sel': n // 2 + 1}
                        cases.append(c)
        if tier != 'quick' or bi == 1:
            afters = ({'op': 'set_rel', 'v': 0.25}, {'op': 'set_cart', 'v': 0.62}, {'op': 'fault', 'a1': 0.4, 'a2': 0.1, 'fpos': 0.75}, None)
            for a0 in afters:
                for a1 in afters:
                    for at in (0, 1, 2):
                        n += 1
                        prior = [_opt_step(ci, n, after=a0, fpos=(None, 0.4)[n % 2]), _opt_step(ci, n + 1, after=a1, mode='set_shift')]
                        custom = {'combo': [[1, 0], [1, 1]], 'where': 'setter', 'bad': False, 'at': at}
                        cases.append(_opt_fault(base, n, cutmult=3, fmode=('default', 'rel')[n % 2], fwhere='fault', custom=custom,
                                                prior=prior, final_shift=('none', 'index', 'set_shift')[n % 3],
                                                pre_fault={'a1': 0.5, 'a2': 0.5, 'fpos': 0.3} if n % 4 == 0 else None))
    N = len(cases)
    step = next(q for q in (7919, 7907, 7901, 7883, 7879, 7877) if math.gcd(q, N) == 1)
    cases = [cases[(i * step) % N] for i in range(N)]
    scale = float(os.environ.get('VERIF_SCALE', '1'))
    if scale < 1:
        cases = cases[::int(math.ceil(1.0 / scale))]
    return cases


def oracle_options(case):
    labels = set(oracle_surface(case) if case['opt'] == 'surface' else oracle_fault(case))
    labels.add('opt_' + case['opt'])
    if 'built' in labels:
        labels.add('opt_built')
    return labels


def _unit_guards(scaled_blocked, near, scaled, si):
    """min_share guards of the length-unit classes (half of the observed shares).  While the unit dependence of free_surface_basis
    (K_SCALE) is an open finding, every case outside about 1e-3 .. 1e2 is excluded-and-counted and carries no labels, so only the
    classes that survive it can be guarded; once the finding is no longer listed open the full guards (SI share) apply."""
    from ..core import load_known
    blocked = K_SCALE in load_known('C14')[0]
    if blocked:
        return {'scaled': scaled_blocked, 'scale_near': near}
    return {'scaled': scaled, 'scale_near': near, 'scale_si': si}


def _caller_guards(blocked, free, shift_out=None):
    """min_share guards of the caller-side mutation class (B).  While the two aliasing findings (K_SIZEMULTS, K_SHIFT) are listed
    open, the cases that meet them are excluded-and-counted and carry no labels: only what survives can be guarded."""
    from ..core import load_known
    known = load_known('C14')[0]
    if K_SIZEMULTS in known or K_SHIFT in known:
        return {'caller_mut': blocked}
    out = {'caller_mut': free}
    if shift_out:
        out['caller_mut_shift_out'] = shift_out
    return out


# guards of the generator classes carried over from the seeded rounds: half of the observed shares (seed 1, /repo with the two
# aliasing findings open, i.e. the smaller of the shares before / after their repair)
CLAUSES = [
    Clause('basis', oracle_basis, enumerate=enum_basis, max_share={'refusal': 0.08},
           min_share=dict({'nt': 0.4, 'centred': 0.06, 'hex_4': 0.04,
                           'ledger': 0.5, 'hkl_form': 0.15, 'hkl_narrow': 0.045, 'hkl_float': 0.03, 'hkl_layout': 0.02, 'caller_mut': 0.024,
                           'sym': 0.013, 'sym_perm': 0.0088, 'sym_relabel': 0.0088, 'near_sym': 0.0088},
                          **_unit_guards(0.04, 0.025, 0.12, 0.035)),
           desc='free_surface_basis on every plane up to the index bound x cutboxvector in a generic cell per family, centred '
                'settings, Miller-Bravais: integer, right-handed, zone law exact, out-of-plane row on the normal side, normal = +g'),
    Clause('basis_random', oracle_basis_random, basis_random_cases, quick=560, thorough=13000,
           min_share=dict({'nt': 0.35, 'centred': 0.1, 'rigid_rot': 0.15,
                           'hkl_form': 0.18, 'hkl_narrow': 0.065, 'caller_mut': 0.099, 'ledger': 0.1, 'sym': 0.11, 'sym_perm': 0.095,
                           'sym_relabel': 0.025, 'near_sym': 0.016}, **_unit_guards(0.1, 0.03, 0.23, 0.11)),
           max_share={'refusal': 0.15},
           desc='the same oracle on random cells of every family / centred setting (30 % rigidly rotated), planes up to index 4'),
    Clause('surface', oracle_surface, surface_cases, quick=570, thorough=11500,
           min_share=dict({'nt': 0.2, 'built': 0.31, 'multilayer': 0.2, 'multishift': 0.3, 'vacuum': 0.12, 'minwidth_decides': 0.06,
                           'negmult': 0.12, 'tuplemult': 0.12, 'centred': 0.12, 'hex4': 0.02, 'cut_a': 0.07, 'cut_b': 0.07,
                           'history_second_surface': 0.26, 'history_third_surface': 0.1, 'history_shift_persisted': 0.07,
                           'history_set_shift': 0.16, 'history_defaults_after_given': 0.14,
                           # classes carried over from the seeded rounds
                           'ledger': 0.26, 'ledger_other': 0.03, 'forms': 0.065, 'hkl_form': 0.055, 'hkl_narrow': 0.03, 'shift_form': 0.06,
                           'mults_form': 0.04, 'npscalar_form': 0.06, 'store': 0.055, 'store_narrow_float': 0.022, 'store_layout': 0.025,
                           'near_layer': 0.022, 'near_layer_judged': 0.012, 'minwidth_near': 0.03, 'minwidth_exact': 0.008, 'near_sym': 0.017,
                           'sym': 0.06, 'sym_perm': 0.045, 'sym_relabel': 0.015, 'rows_signed_perm': 0.025},
                          **_caller_guards(0.008, 0.06, 0.015), **_unit_guards(0.09, 0.04, 0.23, 0.08)),
           max_share={'refusal_search': 0.25, 'refusal_cut': 0.4, 'layer_ambiguous': 0.05, 'c04_filtering_skip': 0.02},
           desc='FreeSurface: chosen vectors, transform, rcellwidth; all offered shifts halfway between atomic planes, one per gap; built '
                'systems: pbc, box = multipliers x oriented cell, same crystal by map-back with multiplicity, cut between planes, '
                'minwidth/even/sizemults, vacuum lengthens the cut vector only, surfacearea; in half of the cases after one or two '
                'earlier surface() / set_shift() calls with other arguments on the same object (only the shift persists)'),
    Clause('fault', oracle_fault, fault_cases, quick=570, thorough=11500,
           min_share={'nt': 0.2, 'built': 0.31, 'shifted': 0.26, 'both_sides': 0.31, 'lattice_nonzero': 0.02, 'custom_avect': 0.1,
                      'onplane_exact': 0.015, 'itermap': 0.042, 'refusal_avect': 0.025, 'kind_faultshift': 0.03, 'fpos_rel': 0.1,
                      'a1_only': 0.06, 'centred': 0.12,
                      'history_second_surface': 0.23, 'history_third_surface': 0.11, 'history_faultpos_defaulted_after_set': 0.07,
                      'history_faultpos_defaulted_after_default': 0.005, 'history_natoms_changed': 0.2,
                      'history_setter_faultpos': 0.12, 'history_fault_between': 0.075, 'history_setter_avect': 0.02,
                      'history_shift_persisted': 0.041, 'history_set_shift': 0.16, 'history_pre_fault': 0.08,
                      # classes carried over from the seeded rounds
                      'ledger': 0.28, 'ledger_other': 0.05, 'forms': 0.08, 'hkl_form': 0.075, 'hkl_narrow': 0.04, 'shift_form': 0.065,
                      'mults_form': 0.04, 'npscalar_form': 0.07, 'store': 0.05, 'store_narrow_float': 0.025, 'fpos_near_layer': 0.012,
                      'kind_a12near': 0.01, 'decades': 0.01, 'near_sym': 0.027, 'sym': 0.065, 'sym_perm': 0.055, 'sym_relabel': 0.013,
                      'rows_signed_perm': 0.035,
                      **_caller_guards(0.06, 0.1), **_unit_guards(0.09, 0.045, 0.24, 0.09)},
           max_share={'refusal_search': 0.25, 'refusal_cut': 0.4, 'c04_filtering_skip': 0.02, 'atom_on_fault_plane_exempt': 0.15},
           desc='StackingFault.fault: atoms not above the plane stay, atoms above move by a1*a1vect + a2*a2vect + outofplane (or the '
                'given faultshift) modulo the in-plane cell vectors; full lattice vectors restore the slab; fault positions between '
                'layers (cart/rel/default, at surface() or fault()); user shift vectors; refusals; iterfaultmap grid; in half of the '
                'cases after one or two earlier surface() calls on the same object (other termination / size / vacuum / fault position) '
                'with faultpos and shift-vector setters and fault() calls in between'),
    Clause('options', oracle_options, enumerate=enum_options, nontrivial='opt_built',
           min_share=dict({'opt_built': 0.43, 'opt_surface': 0.045, 'opt_fault': 0.41, 'init_index': 0.011, 'init_vector': 0.011,
                           'init_scaled': 0.011, 'kind_faultshift': 0.06, 'kind_a12out': 0.06, 'custom_avect': 0.19,
                           'history_setter_avect': 0.1, 'history_setter_faultpos': 0.045, 'history_fault_between': 0.025, 'negmult': 0.03,
                           'fpos_cart': 0.12, 'fpos_rel': 0.15, 'fpos_default': 0.12, 'ledger': 0.24}, **_caller_guards(0.08, 0.12)),
           desc='class H, enumerated: every combination of the options that touch the same state of one FreeSurface / StackingFault '
                'object (multiplier sign x minwidth x even x vacuum x fault position default / relative / Cartesian at surface() or '
                'fault(); a1, a2, outofplane | faultshift x minimum_r x user shift vectors at the constructor / setters / fault() x '
                'fault position; termination chosen in the constructor by nothing / index / vector / box-relative vector x chosen or '
                'kept by surface() in six ways x multiplier sign) and the state-changing calls in every order, judged by the surface '
                'and fault oracles'),
]
