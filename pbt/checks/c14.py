"""C14 - Surface and stacking-fault cells cut the right plane, between atomic layers.

Clauses
  basis         free_surface_basis on ALL planes up to an index bound (enumerated) in one generic cell per crystal
                family, centred settings and Miller-Bravais input: integer right-handed rows, zone law (exact integer
                arithmetic), reported normal = +(h a* + k b* + l c*)
  basis_random  the same oracle on random cells of every family / setting and random planes
  surface       FreeSurface(...).surface(...): same crystal (lattice map-back), periodic except across the cut, box,
                every offered termination halfway between atomic planes, minwidth / even / sizemults / vacuum
  fault         StackingFault(...).fault(...): atoms below the plane stay, atoms above move by exactly the requested
                vector modulo the in-plane cell vectors; full lattice vectors restore the crystal
"""
import functools
import itertools
import math
import os

import numpy as np
from hypothesis import strategies as st

from ..core import Clause, Violation, require
from .. import gens
from ..oracles import crystal_match as cm
from ..oracles import surface_ref as sr

RULE = ("basis: every integer plane (hkl) with max|index| <= 3 (thorough: 4) x the three cutboxvector values in one generic "
        "cell of each of the seven crystal families, in primitive cells of centred settings (f, i, a, b, c, t1, t2; hkl "
        "relative to the conventional cell) and with Miller-Bravais input/output for the hexagonal cell; one case = one "
        "cell and a block of planes.  basis_random: random cells of every family (optionally rigidly rotated) and setting, "
        "random planes up to index 4.  surface / fault: hand-built unit cells (1-4 atoms, 1-2 types, special and generic "
        "fractional coordinates, box origin zero) of every family and admissible centred setting, planes up to index 3 "
        "(2 for the oblique families), all three cutboxvector values, size multipliers as +/-int and (m,n) tuples, "
        "minwidth, even, vacuumwidth, every offered shiftindex; fault positions between atomic layers given as Cartesian "
        "or relative position at surface() or at fault(), fractional shifts a1,a2 in [-1.5,1.5], full lattice vectors, "
        "outofplane, full faultshift vectors, user-chosen in-plane shift vectors.  Non-trivial: plane with >= 2 non-zero "
        "indices in a non-cubic or centred cell.")
ASSUMPTIONS = [
    "numpy linear algebra is correct",
    "the table of primitive cell vectors per centring (pbt/oracles/surface_ref.PN, the standard choices used by "
    "atomman.tools.miller) defines which conventional cell a primitive box belongs to",
    "lattice parameters are Angstrom-scale (2-12), as the absolute tolerances inside free_surface_basis presume",
    "AssertionError('Failed to find ...') from free_surface_basis is the refusal its Raises section documents; it is "
    "accepted only if a larger maxindex (<= 3*default+3) then succeeds, and its share is rate-guarded",
    "ValueError('... cannot have x/y/z component for cutboxvector') is the documented refusal of an orientation whose "
    "out-of-plane vector is not perpendicular to the plane; it is accepted only when my own vectors are not perpendicular",
    "the out-of-plane row is required to point to the side of the reported normal (docstring: 'an out-of-plane vector "
    "close to the plane normal')",
    "FreeSurface.shifts is documented as 'all shift values that place the fault halfway between atomic layers': "
    "halfway and completeness are asserted, not only 'strictly between'",
    "an atom whose coordinate equals the fault position exactly is not 'above' the plane (docstring of fault/abovefault) "
    "and must stay; atoms within 1e-9 of the plane but not exactly on it are exempt",
    "unit cells whose atomic layers along the plane normal are closer than 1e-4 A without coinciding (1e-9) are exempt "
    "from the layer-counting assertions",
    "System.rotate / supersize / wrap are decided by C04 / C05; box origin of the unit cell is zero (the translation "
    "convention of rotate for other origins is not fixed by the property)",
]
LEVEL_TEXT = ("All planes up to index 3 (thorough 4) with all three out-of-plane choices in a generic cell of each crystal "
              "family, centred settings and Miller-Bravais indices, plus random cells; surface and stacking-fault systems "
              "built from hand-made unit cells over multipliers, minimum widths, vacuum, every termination, fault "
              "positions between layers and fractional / full-lattice shifts.")
TECHNIQUE = ("exact integer zone-law / determinant arithmetic, independent reciprocal vectors, lattice map-back with "
             "multiplicity, independent layer analysis along the plane normal, displacement modulo the in-plane lattice")
WALL = {'quick': 75, 'thorough': 600}

K_PARALLEL = 'C14:free_surface_basis:parallel-inplane-rows'
CUTIDX = {'a': 0, 'b': 1, 'c': 2}
FAMILIES = gens.FAMILIES


# ----------------------------------------------------------------------------- cells (case -> numbers)

def cell_vconv(cell):
    lx, ly, lz, xy, xz, yz = gens.abc_to_lammps(*cell['abc'])
    V = np.array([[lx, 0.0, 0.0], [xy, ly, 0.0], [xz, yz, lz]], dtype=float)
    if cell.get('rot'):
        V = V @ gens.rotation_matrix(*cell['rot']).T
    return V


def cell_vprim(cell):
    return sr.prim_vects(cell_vconv(cell), cell.get('setting', 'p'))


def is_nt_plane(cell, hkl3):
    nz = sum(1 for x in hkl3 if x)
    return nz >= 2 and (cell['family'] != 'cubic' or cell.get('setting', 'p') != 'p')


def plane3(hkl):
    return sr.hex_plane4to3(hkl) if len(hkl) == 4 else [int(x) for x in hkl]


# ----------------------------------------------------------------------------- the basis oracle (one call)

def _is_refusal(e):
    return isinstance(e, AssertionError) and 'Failed to find' in str(e)


def call_basis(am, hkl, box, cut, setting, ret_hex, maxindex=None):
    from atomman.defect import free_surface_basis
    kw = dict(box=box, cutboxvector=cut, return_planenormal=True)
    if setting != 'p':
        kw['conventional_setting'] = setting
    if ret_hex is not None:
        kw['return_hexagonal'] = ret_hex
    if maxindex is not None:
        kw['maxindex'] = maxindex
    return free_surface_basis(hkl, **kw)


def judge_basis(out, hkl, Vp, setting, cut, expect4, what):
    """all assertions on one returned (uvws, planenormal); returns (status, int rows in primitive 3-index form)
    status 'ok' or 'parallel' (the keyed defect: two parallel in-plane rows)"""
    require(isinstance(out, tuple) and len(out) == 2, lambda: '%s: return_planenormal=True returned %r' % (what, type(out)))
    uvws, normal = out
    uvws = np.asarray(uvws)
    normal = np.asarray(normal, dtype=float)
    require(normal.shape == (3,) and np.all(np.isfinite(normal)) and np.linalg.norm(normal) > 0,
            lambda: '%s: plane normal %r is not a finite non-zero 3-vector' % (what, normal))
    if expect4:
        require(uvws.shape == (3, 4), lambda: '%s: Miller-Bravais rows expected, got shape %r' % (what, uvws.shape))
        s = np.abs(uvws[:, :3].astype(float).sum(axis=1)).max()
        require(s <= 1e-9, lambda: '%s: Miller-Bravais rows with u+v+t != 0:\n%r' % (what, uvws))
        r3 = sr.hex_vector4to3_times3(uvws) / 3.0
    else:
        require(uvws.shape == (3, 3), lambda: '%s: 3x3 rows expected, got shape %r' % (what, uvws.shape))
        r3 = uvws.astype(float)
    ri = np.rint(r3)
    require(np.all(np.isfinite(r3)) and np.abs(r3 - ri).max() <= 1e-9,
            lambda: '%s: rows are not integer lattice vectors:\n%r' % (what, uvws))
    rows = [[int(x) for x in r] for r in ri]
    h3 = plane3(hkl)
    ci = CUTIDX[cut]
    inpl = [i for i in range(3) if i != ci]
    z = sr.zone_numerators(h3, rows, setting)
    for i in inpl:
        require(z[i] == 0, lambda: '%s: row %d %r (meant to lie in the plane) has h u + k v + l w = %s/%d != 0; rows %r'
                % (what, i, rows[i], z[i], sr.DEN[setting], rows))
    par = not any(sr.icross(rows[inpl[0]], rows[inpl[1]]))
    if par:
        return 'parallel', rows
    require(z[ci] != 0, lambda: '%s: the out-of-plane row %r lies in the plane (h u + k v + l w = 0); rows %r' % (what, rows[ci], rows))
    d = sr.idet(rows)
    dV = float(np.linalg.det(Vp))
    require(d != 0, lambda: '%s: rows are linearly dependent (det 0): %r' % (what, rows))
    require((d > 0) == (dV > 0), lambda: '%s: rows %r are left-handed (det %d, cell det %.3g)' % (what, rows, d, dV))
    g = sr.plane_g(h3, Vp, setting)
    gn, nn = float(np.linalg.norm(g)), float(np.linalg.norm(normal))
    cr = float(np.linalg.norm(np.cross(normal, g))) / (gn * nn)
    cond = float(np.linalg.cond(Vp))
    require(cr <= 1e-9 * cond, lambda: '%s: reported normal %r is not parallel to h a* + k b* + l c* = %r (sin = %.3g)'
            % (what, normal.tolist(), g.tolist(), cr))
    require(float(np.dot(normal, g)) > 0, lambda: '%s: reported normal %r is antiparallel to h a* + k b* + l c* = %r'
            % (what, normal.tolist(), g.tolist()))
    require(z[ci] > 0, lambda: '%s: out-of-plane row %r points to the back of the plane (h u + k v + l w = %s/%d < 0, '
            'normal side is +)' % (what, rows[ci], z[ci], sr.DEN[setting]))
    return 'ok', rows


def basis_one(am, hkl, box, Vp, setting, cut, ret_hex, what):
    """returns status in {'ok','refusal','parallel'} and rows (or None)"""
    expect4 = (len(hkl) == 4) if ret_hex is None else bool(ret_hex)
    try:
        out = call_basis(am, hkl, box, cut, setting, ret_hex)
    except AssertionError as e:
        if not _is_refusal(e):
            raise
        # documented refusal: must be curable by a larger search bound
        h3 = plane3(hkl)
        d = sr.default_maxindex(h3, setting)
        tried = []
        for mi in (d + 1, d + 2, 2 * d + 2, 3 * d + 3):
            if mi in tried:
                continue
            tried.append(mi)
            try:
                out = call_basis(am, hkl, box, cut, setting, ret_hex, maxindex=mi)
            except AssertionError as e2:
                if not _is_refusal(e2):
                    raise
                continue
            st_, rows = judge_basis(out, hkl, Vp, setting, cut, expect4, what + ' [maxindex=%d after refusal]' % mi)
            return ('refusal' if st_ == 'ok' else st_), rows
        raise Violation("%s: refused with %r and no maxindex up to 3*default+3 = %d cures it (tried %r)"
                        % (what, str(e), 3 * d + 3, tried))
    return judge_basis(out, hkl, Vp, setting, cut, expect4, what)


def oracle_basis(case):
    import atomman as am
    cell = case['cell']
    setting = cell.get('setting', 'p')
    Vp = cell_vprim(cell)
    box = am.Box(vects=Vp)
    labels = {cell['family'], 'setting_' + setting}
    if cell.get('rot'):
        labels.add('rigid_rot')
    mode = case.get('hex', '3')
    known = []
    ncall = 0
    for hkl3 in case['planes']:
        if mode in ('4', '4to3'):
            hkl = [hkl3[0], hkl3[1], -(hkl3[0] + hkl3[1]), hkl3[2]]
        else:
            hkl = list(hkl3)
        ret_hex = {'3': None, '4': None, '3to4': True, '4to3': False}[mode]
        if is_nt_plane(cell, hkl3):
            labels.add('nt')
        for cut in case['cuts']:
            ncall += 1
            what = 'free_surface_basis(%r, %s(%s) cell %r%s, cutboxvector=%r%s)' % (
                hkl, cell['family'], setting, cell['abc'], ' rotated' if cell.get('rot') else '', cut,
                '' if ret_hex is None else ', return_hexagonal=%r' % ret_hex)
            status, rows = basis_one(am, hkl, box, Vp, setting, cut, ret_hex, what)
            labels.add(status)
            labels.add('cut_' + cut)
            if status == 'parallel':
                known.append('%s returned two parallel in-plane rows %r (determinant 0)' % (what, rows))
    if mode != '3':
        labels.add('hex_' + mode)
    if known:
        raise Violation('%d of %d calls: %s' % (len(known), ncall, known[0]), key=K_PARALLEL)
    return labels


# ----------------------------------------------------------------------------- enumeration of the basis clause

GENERIC = {
    'cubic': [3.3, 3.3, 3.3, 90.0, 90.0, 90.0],
    'tetragonal': [3.1, 3.1, 4.7, 90.0, 90.0, 90.0],
    'orthorhombic': [3.0, 3.9, 5.3, 90.0, 90.0, 90.0],
    'hexagonal': [3.2, 3.2, 5.2, 90.0, 90.0, 120.0],
    'rhombohedral': [4.1, 4.1, 4.1, 71.0, 71.0, 71.0],
    'monoclinic': [3.0, 3.7, 4.9, 90.0, 104.0, 90.0],
    'triclinic': [3.0, 3.7, 4.9, 81.0, 104.0, 97.0],
}
GENERIC2 = {     # second set (thorough): obtuse / acute variants
    'cubic': [4.05, 4.05, 4.05, 90.0, 90.0, 90.0],
    'tetragonal': [4.6, 4.6, 2.95, 90.0, 90.0, 90.0],
    'orthorhombic': [6.1, 4.2, 2.9, 90.0, 90.0, 90.0],
    'hexagonal': [2.95, 2.95, 4.68, 90.0, 90.0, 120.0],
    'rhombohedral': [3.9, 3.9, 3.9, 103.0, 103.0, 103.0],
    'monoclinic': [5.1, 3.3, 6.4, 90.0, 63.0, 90.0],
    'triclinic': [4.4, 3.1, 5.6, 112.0, 74.0, 61.0],
}
CENTRED = [('cubic', 'f'), ('tetragonal', 'i'), ('orthorhombic', 'c'), ('monoclinic', 'a'), ('hexagonal', 't1'),
           ('cubic', 'i'), ('orthorhombic', 'f'), ('orthorhombic', 'b'), ('hexagonal', 't2'), ('monoclinic', 'c')]


@functools.lru_cache(maxsize=None)
def all_planes(n):
    return [list(p) for p in itertools.product(range(-n, n + 1), repeat=3) if any(p)]


def _blocks(planes, size):
    return [planes[i:i + size] for i in range(0, len(planes), size)]


def enum_basis(tier):
    cases = []
    rot = [[1, 2, 3], 37.5]
    if tier == 'quick':
        P = all_planes(3)
        for fam in FAMILIES:
            cell = {'family': fam, 'abc': GENERIC[fam], 'setting': 'p', 'rot': None}
            full = fam in ('triclinic', 'monoclinic', 'rhombohedral', 'hexagonal')
            mode = '4' if fam == 'hexagonal' else '3'
            for bi, blk in enumerate(_blocks(P, 3)):
                cuts = 'abc' if full else ('ca' if bi % 2 else 'cb')
                cases.append({'cell': cell, 'planes': blk, 'cuts': cuts, 'hex': mode})
        # sampled: centred settings, the other Miller-Bravais modes, a rigidly rotated cell
        for j, (fam, s) in enumerate(CENTRED[:5]):
            cell = {'family': fam, 'abc': GENERIC[fam], 'setting': s, 'rot': None}
            for bi, blk in enumerate(_blocks(P[j % 3::3], 3)):
                cases.append({'cell': cell, 'planes': blk, 'cuts': 'cab'[bi % 3], 'hex': '3'})
        hexc = {'family': 'hexagonal', 'abc': GENERIC['hexagonal'], 'setting': 'p', 'rot': None}
        for k, mode in enumerate(('3', '3to4', '4to3')):
            for bi, blk in enumerate(_blocks(P[k::6], 3)):
                cases.append({'cell': hexc, 'planes': blk, 'cuts': 'cab'[bi % 3], 'hex': mode})
        tric = {'family': 'triclinic', 'abc': GENERIC2['triclinic'], 'setting': 'p', 'rot': rot}
        for bi, blk in enumerate(_blocks(P[1::4], 3)):
            cases.append({'cell': tric, 'planes': blk, 'cuts': 'cab'[bi % 3], 'hex': '3'})
    else:
        P = all_planes(4)
        for table in (GENERIC, GENERIC2):
            for fam in FAMILIES:
                cell = {'family': fam, 'abc': table[fam], 'setting': 'p', 'rot': rot if table is GENERIC2 and fam == 'triclinic' else None}
                mode = '4' if fam == 'hexagonal' and table is GENERIC else '3'
                for blk in _blocks(P, 2):
                    cases.append({'cell': cell, 'planes': blk, 'cuts': 'abc', 'hex': mode})
        P3 = all_planes(3)
        for j, (fam, s) in enumerate(CENTRED):
            cell = {'family': fam, 'abc': GENERIC[fam], 'setting': s, 'rot': None}
            for bi, blk in enumerate(_blocks(P3, 3)):
                cases.append({'cell': cell, 'planes': blk, 'cuts': 'abc', 'hex': '3'})
        hexc = {'family': 'hexagonal', 'abc': GENERIC2['hexagonal'], 'setting': 'p', 'rot': None}
        for mode in ('3to4', '4to3'):
            for bi, blk in enumerate(_blocks(P3, 3)):
                cases.append({'cell': hexc, 'planes': blk, 'cuts': 'cab'[bi % 3], 'hex': mode})
    # development aid only: VERIF_SCALE < 1 thins the enumeration (the clause is exhaustive at scale >= 1)
    scale = float(os.environ.get('VERIF_SCALE', '1'))
    if scale < 1:
        step = int(math.ceil(1.0 / scale))
        cases = cases[::step]
    return cases


# ----------------------------------------------------------------------------- random cells / planes

_fam = st.sampled_from(FAMILIES)
_rot = gens.rotations(min_angle=1.0)
_idx3 = st.integers(-3, 3)
_idx4 = st.integers(-4, 4)
_idx2 = st.integers(-2, 2)
_cut = st.sampled_from(['a', 'b', 'c'])
_int10 = st.integers(0, 9)
SETTING_FAMILIES = {
    'i': ('orthorhombic', 'tetragonal', 'cubic'),
    'f': ('orthorhombic', 'cubic'),
    'a': ('monoclinic', 'orthorhombic'),
    'b': ('monoclinic', 'orthorhombic'),
    'c': ('monoclinic', 'orthorhombic'),
    't1': ('hexagonal',),
    't2': ('hexagonal',),
}
FAMILY_SETTINGS = {f: ['p'] + [s for s, fs in SETTING_FAMILIES.items() if f in fs] for f in FAMILIES}


@st.composite
def cells(draw, centred_share=4):
    fp = draw(gens.family_params())
    fam = fp['family']
    setting = 'p'
    opts = FAMILY_SETTINGS[fam]
    if len(opts) > 1 and draw(_int10) < centred_share:
        setting = draw(st.sampled_from(opts[1:]))
    rot = draw(_rot) if draw(_int10) < 3 else None
    return {'family': fam, 'abc': fp['abc'], 'setting': setting, 'rot': rot}


def _plane(draw, src):
    for _ in range(5):
        p = [draw(src) for _ in range(3)]
        if any(p):
            return p
    return [1, 1, 0]


@st.composite
def basis_random_cases(draw):
    cell = draw(cells())
    hkl = _plane(draw, _idx4 if draw(_int10) < 4 else _idx3)
    mode = '3'
    if cell['family'] == 'hexagonal' and cell['setting'] == 'p':
        mode = draw(st.sampled_from(['3', '4', '4', '3to4', '4to3']))
    return {'cell': cell, 'planes': [hkl], 'cuts': draw(_cut), 'hex': mode}


def oracle_basis_random(case):
    h3 = case['planes'][0]
    if sr.default_maxindex(h3, case['cell'].get('setting', 'p')) > 12:
        return {'skipped_costly'}
    return oracle_basis(case)


CLAUSES = [
    Clause('basis', oracle_basis, enumerate=enum_basis, max_share={'refusal': 0.05},
           min_share={'nt': 0.5},
           desc='free_surface_basis on every plane up to the index bound x cutboxvector in a generic cell per family, centred '
                'settings, Miller-Bravais: integer, right-handed, zone law exact, out-of-plane row on the normal side, normal = +g'),
    Clause('basis_random', oracle_basis_random, basis_random_cases, quick=640, thorough=16000,
           min_share={'nt': 0.3}, max_share={'refusal': 0.08},
           desc='the same oracle on random cells of every family / centred setting (30 % rigidly rotated), planes up to index 4'),
]
