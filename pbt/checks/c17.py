"""C17 - Analysis tools recover a known imposed deformation exactly.

Observation points: atomman.displacement, atomman.defect.Strain (G, strain, rotation, invariant1-3, angularvelocity,
nye, asdict), atomman.defect.nye_tensor, slip_vector, disregistry, DifferentialDisplacement (ddvectors, neighbors,
arrowcenters, arrowuvectors).

Reference code: pbt/oracles/deform_ref.py (numpy only: hand-written unit cells, shell table, neighbour pairs by
the rounded minimum image - exact below half the smallest periodic width, which the supercell size guarantees -,
-curl G by least squares) and pbt/oracles/nearest_image.py (exhaustive nearest image, only for displacements
beyond half a cell width).  Nothing below calls the function it judges.

Conventions derived from the docstrings / the property text
  * Strain: Q G = P by least squares, Q current and P reference neighbour vectors as rows.  With q = F p
    (columns) Q = P F^T, hence G = F^-T (the property's "inverse transpose of F"); strain = sym(I - G),
    rotation = skew(I - G), invariants = trace / sum of principal minors / determinant of the strain,
    angular velocity = length of the axial vector of the rotation tensor; Nye tensor = -curl G = 0 for uniform G.
  * slip_vector docstring: s_i = -sum_j [d_ij(t) - d_ij(0)]; with the property text: own half's displacement minus the
    other half's, times the number of neighbours in the other half.
  * disregistry: displacement of the plane of atoms just above the slip plane (along +n) minus that of the plane
    just below, at the m-coordinates of the atoms of those two planes.
  * DifferentialDisplacement: for neighbour pair (i, j) of the reference system's list, d_ij(system1) - d_ij(system0)
    = u_j - u_i; arrow centres are the pair midpoints and arrow unit vectors the pair directions in the reference
    system (reference = 0 or 1).

Object / process histories (the property holds for every history of calls, not just for fresh objects): every case
carries a history from pbt/gens_c17.histories - earlier queries on the two System objects (neighbour lists with other
cutoffs, also stored as the documented 'neighbors' attribute, r0(), dvect, scaled reads, wrap()), either System object
first existing in another state and brought to the judged one in place through the public position / cell / pbc setters,
the tools run on an unrelated pair of systems in between, repeated calls; the strain clause keeps one Strain object
through two states (solved and read in the first - judged there too where the expectation is known -, then changed
through solve_G / clear_properties / theta_max / set_p_vectors / build_p_vectors) and judges the second with the same
oracle as a fresh object; DifferentialDisplacement objects are re-solved after other cutoffs / references / swapped or
updated systems.  The judged calls and their oracles are the same as for a fresh object; queries must leave positions
and cell bit-identical (wrap(): moved by whole cell vectors along periodic axes only).

Length unit: every case carries a length unit S = 10**lscale, lscale = -12 .. 4 (S = 1 in a third to a half of the cases,
S <= 1e-9 - the same crystal in metres, atomman's working units may be SI - in 15-25 %): the crystal is built with the numbers
as drawn (lattice parameter 2.5-5.5) and then cell, origin and positions are multiplied by S, and so is every other
length of the case (cutoffs, translations, slips, plane positions and offsets, p vectors, per-atom noise); relative
quantities (F, cell shifts, slip in nearest-neighbour distances) are untouched.  None of the judged tools documents a
unit or a tolerance argument, so every result must scale with S (lengths), 1 (G, strain, rotation, invariants, unit
vectors) or 1/S (Nye tensor).  Established on the unchanged code: displacement, System.dvect, NeighborList, Strain,
nye_tensor, slip_vector, DifferentialDisplacement are scale free over the whole range; disregistry is not (np.isclose with
numpy's default absolute 1e-8 on plane coordinates: open finding KEY_DISREG_UNIT, keyed to crystals whose planes are 1e-8
units or less apart; everything else of such a case is judged before the keyed violation is raised).

Cross-pollinated generator classes (what a check misses is almost never an oracle but a generator class; each class below is
judged by the oracles described above, nothing else):
  A result ledger (class Ledger): every array the judged calls hand out - function results, tuples, dicts, the arrays behind the
    properties of Strain / DifferentialDisplacement objects, also those of an object's earlier state - is kept with a copy taken at
    return time (the copy is what the oracles judge) and compared bit for bit at the end of the case, after the later calls on the
    same objects, the other tools, the swapped pair and (io.twin) the same tools on another pair of systems of the SAME size;
    results of different calls must not share memory with each other, with the inputs or with the systems' storage.  Arrays handed to
    Strain.save_to_system leave the ledger (Atoms documents that direct setting keeps the given array and that later assignments
    are saved over it in place).  Labels ledger / ledger_same_shape / twin.
  B caller-side mutation: positions / cell / pbc / atype of every System handed to a tool, p vectors, axes, m, n, planepos (arrays and
    nested lists) are bit-identical after the calls; with io.scribble the caller overwrites in place the arrays it was handed and
    the arrays it handed in and calls again (displacement, slip_vector, disregistry: same answer as the first call), and re-uses
    its p-vector / axes buffers right after a Strain object was set up (the object solves on first access; open finding
    KEY_PV_VIEW for one ndarray list without axes).  Labels scribbled / pv_reused.
  C storage and input dtypes: positions handed to Atoms as big-endian float64 (any case), single precision (displacement clause:
    both systems rounded to it first and the case defined by the rounded coordinates; elsewhere where exactly representable), half
    precision / int8 .. uint64 / big-endian integers for whole-number crystals, also shifted so that the extreme coordinate is the
    limit of the dtype (127, -128, 255, 32767, -32768, 65535); displacement(box_reference=None) is judged in numpy's result type
    of the two storages, as in C02; open finding KEY_SV_DTYPE (slip_vector refuses every storage but native float64).  Vector /
    matrix arguments (m, n, planepos, axes, p vectors, positions of the in-place routes) as tuples, read-only, strided views,
    big-endian, narrowest exact dtype (spell()); cutoff as numpy.float32 (the cutoff IS that number), theta_max as numpy.int16 /
    float32, reference as numpy.uint8 / int8 / int64 / bool.  Labels stored_* / int_narrow / at_dtype_limit / arg_form* / pv_adt* /
    cutoff_f32 / theta_npscalar / ref_scalar.
  D working-unit configuration: does not apply - none of the anchored files reads atomman.unitconvert, none has a default or tolerance
    in working units (disregistry's is relative to the box since e943bfc) and nothing derived from a unit is cached; the same
    physical system in other units is the length-unit class above (unit_small / unit_si / unit_large).
  E near-threshold values: strain |E| = 1e-4 .. 1e-12 and rotations of 1e-3 .. 1e-9 degrees (almost undeformed; cells whose
    second-order tilts fall under Box's documented 1e-9 clean-up are skipped as before), slips of 1e-3 .. 1e-10 neighbour
    distances, random displacements of 1e-4 .. 1e-12 widths, slip and m directions 1e-3 .. 1e-12 degrees off a cell edge / a
    close-packed direction, slip planes a relative 1e-3 .. 1e-9 of the layer gap from an atomic plane, cells shifted so that atoms
    are a relative 1e-3 .. 1e-12 from a periodic face, hcp c/a a relative 1e-3 .. 1e-12 from ideal.  Labels near_identity / tiny_E /
    tiny_R / tiny_slip / tiny_u / slip_near_axis / m_near_axis / plane_near_atoms / near_face / ca_near_ideal.
  F many decades in one call: displacement mode 'decades' - the per-atom displacements of ONE call span 8-12 decades; each row is
    judged relative to its own magnitude (64 eps x coordinate size + 1e-9 |u_i|) and bit-equal to the call on that atom alone.
  G exactly structured inputs: the 23 proper signed permutations of the axes applied to atoms and cell (exact zeros, negative
    entries, lower / upper triangular cells in every arrangement), the cell vectors relabelled in all 6 orders (left-handed cells),
    F = I + M with M zero / diagonal / strictly lower / strictly upper triangular / full with entries k/256, translations by exactly
    whole cell vectors.  Labels sperm / vperm / lefthanded / F_struct / F_identity / F_lower / F_upper / F_diag / whole_cells.
  H enumerated option combinations: clause 'options' (gens_c17.option_cases), an exhaustive list on fixed small crystals.

Tolerances: every comparison is absolute 1e-9 in units of S (lengths: 1e-9 S, tensors dimensionless: 1e-9, Nye in
1/length: 1e-9 / S) unless stated: positions are below ~150 S in magnitude, so neighbour vectors carry <= 4e-14 absolute rounding,
the least-squares solves are only judged where the neighbour set has singular-value ratio >= 0.05 (condition <= 20),
which bounds every result error by ~1e-11.  Common translations of up to 60 change roundings by 1e-14 relative
to the same effect.  Neighbour decisions stay away from the cutoff by construction (cutoff inside a shell gap with a
margin of 1 % for the reference crystal and 4.5 % where the deformed crystal's list is used; strain norm <= 3 %).
"""
import copy
import functools
import itertools
import math
import warnings

import numpy as np

from ..core import Clause, Violation, require
from .. import gens, gens_c17 as G17
from ..oracles import deform_ref as DR
from ..oracles import nearest_image as NI

RULE = ("reference crystals fcc / bcc / hcp (c/a 1.55-1.9 incl. ideal) / B2 / L1_2 built by hand (unit cell -> "
        "System.rotate along a menu of integer vector sets incl. tilted cells -> supersize to >= 2.2 (cutoff + largest "
        "displacement difference) per cell width, 30-900 atoms), optionally rigidly rotated, shifted origin, renumbered, "
        "under all 8 periodicity settings; cutoff anywhere inside one of the first three gaps between complete neighbour "
        "shells; deformation F = R(I+E), rotation <= 8 deg, |E|_2 <= 0.03, applied to atoms and cell, then translated and "
        "re-wrapped into a shifted cell; the whole case expressed in a length unit 10^k, k = -12..4 (k = 0 in >= a third, metres-like "
        "k <= -9 in ~20 %: cell, origin, positions, cutoffs, translations, slips, plane positions, p vectors times 10^k, all tolerances "
        "relative to it); rigid slip of the half above a plane between two atomic layers (any layer gap, "
        "any of the three cell faces, in-plane vector of any direction, |s| <= 0.4 nearest-neighbour distances, split "
        "between the halves, cut axis open or periodic); displacement clause also random per-atom vectors, translations by "
        "several cells and systems declaring different periodic axes.  Non-trivial: (F has both a rotation and a strain "
        "part, or the slip is not along a cell edge) and the crystal is re-oriented, rigidly rotated or has two atom "
        "types; displacement clause: at least one atom changed its periodic image (same crystal condition); invariance "
        "clause: renumbered and translated.  Every case also carries an object / process history (gens_c17.histories): 0-3 "
        "earlier queries on each of the two System objects (neighborlist with a cutoff from any of the first three shell gaps, "
        "such a list stored as the documented 'neighbors' attribute, r0(), dvect/dmag, scaled reads, derived box quantities, "
        "wrap()); either System object may first exist in another state (other positions / cell / opposite periodicity, "
        "whole-number coordinates handed over as integers) and be brought to the judged state in place through one of six "
        "position routes x six cell routes x the pbc setter, with list / Fortran-ordered / read-only inputs; the tools run on an "
        "unrelated pair of systems in between and the function calls are repeated; one Strain object is solved in an earlier "
        "state (the same System object under another F, other reference vectors with known expected G, another theta_max), "
        "read, changed through solve_G() / solve_G(theta_max) / clear_properties() / the theta_max setter / set_p_vectors / "
        "build_p_vectors and judged after the second solve with its properties read in a drawn order; DifferentialDisplacement "
        "objects are re-solved after another cutoff / reference / swapped systems / in-place updates of their systems / the "
        "reference setter; neighbour lists reach every tool by cutoff, explicit list or the systems' 'neighbors' attribute.  "
        "Cross-pollinated classes (module docstring): result ledger with later calls on the same objects / a pair of the same size, "
        "caller-side overwriting and re-use of everything handed in and out, positions stored as big-endian / single / half precision / "
        "narrow, unsigned and big-endian integers up to the dtype limits, arguments as tuples / read-only / strided / big-endian / narrow "
        "arrays and numpy scalars, almost-zero strains, rotations, slips and displacements (1e-3 .. 1e-12), directions, slip planes, cell "
        "faces and c/a almost at their special values, per-atom displacements spanning 8-12 decades in one call, signed permutations of "
        "the axes, relabelled (left-handed) cells, triangular / diagonal / identity F with entries k/256, and an exhaustive list of option "
        "combinations on fixed small crystals")
ASSUMPTIONS = ["numpy linear algebra is correct",
               "System.supersize / System.rotate build the crystal they document (judged by C04), Box keeps the cell it is given "
               "(C01), NeighborList lists exactly the pairs below the cutoff (C03): the check compares per-pair results against "
               "the list the tool reports and verifies that list against its own pair enumeration",
               "rounded minimum image is the unique image shorter than half the smallest periodic cell width (proved in "
               "pbt/oracles/deform_ref.py); supercells are sized so that every neighbour vector, before and after the deformation, is that short",
               "Nye tensor = -curl G (Hartley & Mishin 2005, the reference of atomman.defect.Strain / nye_tensor) with the gradient taken "
               "by least squares over the listed neighbours; used only to compare the class, the nye_tensor function and the reference "
               "on slipped crystals, where G is not uniform",
               "the 'axes' argument of Strain / nye_tensor maps crystal-frame p vectors into the system frame as p_sys = axes_unit . p "
               "(atomman's axes convention: rows are the crystal directions of the system's x, y, z)",
               "DifferentialDisplacement sign: current minus reference separation of (i -> j), i.e. u_j - u_i"]
LEVEL_TEXT = ("Hand-built fcc/bcc/hcp/B2/L1_2 crystals in standard, re-oriented (orthogonal and tilted), rigidly rotated and renumbered "
              "settings under every periodicity setting; homogeneous gradients (rotation <= 8 deg, strain <= 3 %), rigid slips at every "
              "layer gap, cutoffs across the first three shell gaps, all reference routes of Strain (base system, per-atom / single / "
              "axes-transformed / first-shell-only p vectors, given neighbour lists) and both references of DifferentialDisplacement; "
              "all of it also after earlier use of the same System / Strain / DifferentialDisplacement objects (queries, stale "
              "'neighbors' attributes, in-place updates through every public setter, re-solves) and of the same process; "
              "every case expressed in a length unit between 1e-12 and 1e4 (Angstrom-like numbers, nm, metres, large numbers); "
              "results re-judged bit for bit after later calls (ledger), inputs and outputs overwritten by the caller, narrow / big-endian "
              "storage and argument dtypes, near-threshold magnitudes down to 1e-12, decades of displacement in one call, exactly "
              "structured cells and gradients, and enumerated option combinations.")
TECHNIQUE = ("closed-form expectation from the imposed F / slip (G = F^-T, strain/rotation/invariants, zero Nye, n_across * relative "
             "displacement, u_j - u_i per listed pair), own neighbour enumeration, class-vs-function-vs-own-curl agreement on slipped "
             "crystals, metamorphic translation / renumbering")
WALL = {'quick': 70, 'thorough': 580}

TOL = 1e-9
KEY_READONLY = 'C17:Strain:p_vectors-single-list:read-only-broadcast'
KEY_ONENBR = 'C17:Strain:atom-with-single-neighbour'
KEY_NONCONTIG = 'C17:Strain:p_vectors-array:not-C-contiguous'
KEY_ROASSIGN = 'C17:Strain:p_vectors-per-atom-array:read-only-assignment'
KEY_DISREG_UNIT = 'C17:disregistry:absolute-isclose-tolerance:plane-spacing-below-1e-8-units'
DISREG_MSG = 'planepos must fall between atomic planes'
KEY_SV_DTYPE = 'C17:slip_vector:positions-not-stored-as-float64'
KEY_PV_VIEW = 'C17:Strain:p_vectors-single-ndarray:keeps-view-of-callers-array'
I3 = np.eye(3)
MAXATOMS = 900
IDEAL_CA = (8.0 / 3.0) ** 0.5


def _signed_permutations():
    """the 24 proper signed permutation matrices, identity first"""
    out = []
    for perm in itertools.permutations(range(3)):
        for sg in itertools.product((1.0, -1.0), repeat=3):
            M = np.zeros((3, 3))
            for i in range(3):
                M[i, perm[i]] = sg[i]
            if np.linalg.det(M) > 0:
                out.append(M)
    assert len(out) == 24 and np.array_equal(out[0], np.eye(3))
    return out


SPERMS = _signed_permutations()
VPERMS = list(itertools.permutations(range(3)))          # odd (left-handed): indices 1, 2, 5
LIMIT_DTYPES = {'i1max': 'i1', 'i1min': 'i1', 'u1max': 'u1', 'i2max': 'i2', 'i2min': 'i2', 'u2max': 'u2'}
NOIO = {'pdt': 0, 'idt': 0, 'adt': 0, 'scal': 0, 'twin': False, 'scribble': False}


# ----------------------------------------------------------------------------- ledger, caller-side mutation, spellings, dtypes

def _leaves(raw, where):
    """(name, ndarray) for every numeric array inside what a call handed out / was handed (arrays, tuples, lists, dicts,
    object arrays of arrays)"""
    if isinstance(raw, np.ndarray):
        if raw.dtype == object:
            for n, x in enumerate(raw):
                yield from _leaves(x, '%s[%d]' % (where, n))
        else:
            yield where, raw
    elif isinstance(raw, dict):
        for k in sorted(raw):
            yield from _leaves(raw[k], '%s[%r]' % (where, k))
    elif isinstance(raw, (tuple, list)):
        for n, x in enumerate(raw):
            yield from _leaves(x, '%s[%d]' % (where, n))


def _bits(a):
    return (a.shape, a.dtype.str, a.tobytes())


class Ledger:
    """Class A (result ledger) and class B (caller-side mutation) of the cross-pollination round.

    Everything a judged call handed OUT (arrays, tuples and dicts of arrays, the arrays behind object properties) is kept
    together with a copy taken at return time - the copy is what the oracles judge -, and re-compared bit for bit after all
    LATER calls on the same objects, on other objects of the same size and of the other tools (verify): a result the caller
    holds must stay the result of ITS call.  Results of different function calls must not share memory with each other nor
    with anything handed in.  Everything handed IN (position / cell storage of the System objects, p vectors, axes, m, n,
    planepos, neighbour tables; arrays and nested lists) must be bit-identical after the calls."""

    def __init__(self):
        self.res, self.ins, self.sys, self.systems = [], [], [], []

    def add(self, raw, where, fresh=True):
        for name, a in _leaves(raw, where):
            if not any(a is x[0] for x in self.res):
                self.res.append((a, a.copy(), name, fresh))
        return raw

    def add_input(self, raw, where):
        if isinstance(raw, (list, tuple)) and not any(raw is x[0] for x in self.ins):
            self.ins.append((raw, copy.deepcopy(raw), where))
        for name, a in _leaves(raw, where):
            if not any(a is x[0] for x in self.ins):
                self.ins.append((a, a.copy(), name))
        return raw

    def add_system(self, s, where):
        self.systems.append(s)
        for name, get in (('atoms.pos', lambda: s.atoms.pos), ('atoms.atype', lambda: s.atoms.atype), ('box.vects', lambda: s.box.vects),
                          ('box.origin', lambda: s.box.origin), ('pbc', lambda: np.asarray(s.pbc))):
            self.sys.append((get, np.array(get()), '%s.%s' % (where, name)))

    @staticmethod
    def _same(a, b):
        if isinstance(a, np.ndarray):
            return isinstance(b, np.ndarray) and _bits(a) == _bits(b)
        if isinstance(a, (list, tuple)):
            return type(a) is type(b) and len(a) == len(b) and all(Ledger._same(x, y) for x, y in zip(a, b))
        return type(a) is type(b) and a == b

    def verify(self, labels, when):
        # An array handed to Strain.save_to_system() is from then on the per-atom property of the System: Atoms documents that
        # direct setting may keep the array it is given and that a later assignment to an existing key is saved over the old
        # values in place.  Such arrays (a strain read earlier and then saved, overwritten by the next save) leave the ledger.
        views = [v for x in self.systems for v in x.atoms.view.values()]
        self.res = [x for x in self.res if not any(np.may_share_memory(x[0], v) and np.shares_memory(x[0], v) for v in views)]
        for a, snap, name, _ in self.res:
            require(_bits(a) == _bits(snap), lambda: 'result ledger (%s): %s was %r ... when it was returned and is %r ... now (first differing '
                    'element %d of %d): a result the caller holds was changed by a later call'
                    % (when, name, snap.ravel()[:4].tolist(), a.ravel()[:4].tolist(),
                       int(np.argmax(a.ravel() != snap.ravel())) if a.shape == snap.shape else -1, a.size))
        for a, snap, name in self.ins:
            require(self._same(a, snap), lambda: 'caller-side (%s): the input %s was changed by the call: %r -> %r'
                    % (when, name, np.asarray(snap).ravel()[:6].tolist() if isinstance(snap, np.ndarray) else str(snap)[:120],
                       np.asarray(a).ravel()[:6].tolist() if isinstance(a, np.ndarray) else str(a)[:120]))
        for get, snap, name in self.sys:
            now = np.asarray(get())
            require(_bits(now) == _bits(snap), lambda: 'caller-side (%s): %s of a System handed to the tools changed (dtype %s -> %s, largest change %.3g)'
                    % (when, name, snap.dtype, now.dtype, amax(now.astype(float) - snap.astype(float)) if now.shape == snap.shape else float('nan')))
        fresh = [x for x in self.res if x[3] and x[0].size]
        for i in range(len(fresh)):
            a = fresh[i][0]
            for j in range(i + 1, len(fresh)):
                b = fresh[j][0]
                if np.may_share_memory(a, b) and np.shares_memory(a, b) and fresh[i][2].split('[')[0] != fresh[j][2].split('[')[0]:
                    raise Violation('result ledger (%s): the arrays handed out by two calls share memory: %s / %s' % (when, fresh[i][2], fresh[j][2]))
            for b, _, name in self.ins:
                if isinstance(b, np.ndarray) and b.size and np.may_share_memory(a, b) and np.shares_memory(a, b):
                    raise Violation('result ledger (%s): %s shares memory with the input %s' % (when, fresh[i][2], name))
            for get, _, name in self.sys:
                b = get()
                if isinstance(b, np.ndarray) and np.may_share_memory(a, b) and np.shares_memory(a, b):
                    raise Violation('result ledger (%s): %s shares memory with %s' % (when, fresh[i][2], name))
        if len(self.res) >= 2:
            labels.add('ledger')
        if len({x[0].shape for x in self.res}) < len(self.res):
            labels.add('ledger_same_shape')          # two results of one shape: where a shared workspace would show

    def snapshot(self, name):
        """the copy taken when `name` was returned"""
        for a, snap, n, _ in self.res:
            if n == name:
                return snap
        raise KeyError(name)

    def scribble(self, labels):
        """the caller re-uses what it holds: every writable array handed out and every writable array it handed in is
        overwritten in place (the ledger is closed by this).  Returns the number of arrays overwritten."""
        n = 0
        for a, _, _, fresh in self.res:
            if fresh:
                n += scribble(a)
        for a, _, _ in self.ins:
            if isinstance(a, np.ndarray):
                n += scribble(a)
        self.res, self.ins = [], []
        if n:
            labels.add('scribbled')
        return n


def scribble(a):
    """overwrite an array the caller owns in place with other finite numbers of its dtype"""
    if not (isinstance(a, np.ndarray) and a.flags.writeable and a.size and a.dtype.kind in 'fiub'):
        return 0
    if a.dtype.kind == 'f':
        a[...] = np.asarray(a)[..., ::-1] * 0.75 + 0.25 if a.ndim else a * 0.75 + 0.25
    elif a.dtype.kind == 'b':
        a[...] = ~a
    else:
        a[...] = np.bitwise_xor(a, 1)
    return 1


def _totuple(x):
    return tuple(_totuple(y) for y in x) if isinstance(x, list) else x


def narrowest_exact(a):
    """the same numbers in the narrowest dtype that holds them exactly: int8 / int16 / int32 for whole numbers, else
    float32 where exact, else unchanged"""
    a = np.asarray(a, dtype=float)
    if a.size and np.array_equal(a, np.rint(a)):
        for dt in ('i1', 'i2', 'i4'):
            info = np.iinfo(dt)
            if a.min() >= info.min and a.max() <= info.max:
                return a.astype(dt)
    f = a.astype(np.float32)
    if np.array_equal(f.astype(float), a):
        return f
    return a


def spell(a, code, labels=None):
    """Class C: one vector / matrix argument with the same numbers in another documented spelling ('array-like'):
    0 float64 ndarray, 1 nested lists, 2 nested tuples, 3 read-only, 4 strided (non-contiguous) view, 5 big-endian,
    6 narrowest exact dtype (int8 .. int32 for whole numbers, float32 where exact)"""
    a = np.array(a, dtype=float)
    c = int(code) % 7
    if c == 1:
        out = a.tolist()
    elif c == 2:
        out = _totuple(a.tolist())
    elif c == 3:
        a.setflags(write=False)
        out = a
    elif c == 4:
        big = np.full(a.shape[:-1] + (2 * a.shape[-1],), np.nan)
        out = big[..., ::2]
        out[...] = a
    elif c == 5:
        out = a.astype('>f8')
    elif c == 6:
        out = narrowest_exact(a)
        if labels is not None and out.dtype != a.dtype:
            labels.add('arg_narrow')
            if out.dtype.kind == 'i':
                labels.add('arg_int')
    else:
        out = a
    if labels is not None and c:
        labels.add('arg_form%d' % c)
        labels.add('arg_spelled')
    return out


_INT_MENU = ('i1', 'u1', 'i2', 'u2', 'i4', '>i4', '>i2', 'u4', 'i8', 'u8', '>i8', 'i1')


def _int_fit(P, name):
    """the integer dtype `name`, widened (unsigned -> signed when there are negative values) until it holds P"""
    chain = {'i1': 'i2', 'u1': 'i1', 'i2': 'i4', 'u2': 'i2', 'i4': 'i8', 'u4': 'i4', '>i2': '>i4', '>i4': '>i8', 'u8': 'i8'}
    while True:
        info = np.iinfo(name)
        if P.min() >= info.min and P.max() <= info.max:
            return np.dtype(name)
        name = chain[name]


def storage(P, intpos, io, limit=None):
    """Class C: the positions in the dtype they are handed to Atoms in (Atoms keeps a floating dtype as it is and converts
    integers to float64).  Only value-preserving conversions: whole numbers as (narrow / unsigned / big-endian) integers or
    half / single precision, anything as big-endian float64, single precision where every value is exactly representable."""
    P = np.array(P, dtype=float)
    pdt = io.get('pdt') or 0
    whole = bool(P.size) and np.array_equal(P, np.rint(P))
    if pdt == 'int' and whole:
        return P.astype(_int_fit(P, LIMIT_DTYPES[limit] if limit else _INT_MENU[io.get('idt', 0) % len(_INT_MENU)]))
    if pdt == 'be':
        return P.astype('>f8')
    if pdt in ('f16', 'f32'):
        for dt in ((np.float16, np.float32) if pdt == 'f16' else (np.float32,)):
            with np.errstate(over='ignore'):
                Q = P.astype(dt)
            if np.array_equal(Q.astype(float), P):
                return Q
        return P
    if intpos and whole:
        return P.astype(int)
    return P


def narrow32(P):
    """P rounded to single precision, as float64 (the displacement clause defines its systems by these values)"""
    return np.asarray(P, dtype=float).astype(np.float32).astype(float)


def storage_labels(s, labels, who):
    dt = s.atoms.pos.dtype
    if dt != np.dtype(float):
        labels.add('stored_narrow')
        labels.add('stored_%s%d%s' % (dt.kind, dt.itemsize, '_be' if dt.byteorder == '>' else ''))
        labels.add('stored_narrow%d' % who)
    return dt != np.dtype(float)


# ----------------------------------------------------------------------------- crystals

@functools.lru_cache(maxsize=256)
def _gaps(kind, a, ca, minratio, angle_rule):
    """admissible shell gaps [(r_lo, r_hi)] among the first three, and the nearest-neighbour distance"""
    V, rel, _ = DR.unit_cell(kind, a, ca)
    radii = DR.shell_radii(V, rel, 2.05 * a)
    gaps = DR.shell_gaps(radii, minratio)[:3]
    if angle_rule:
        good = []
        for lo, hi in gaps:
            ok = True
            for p in DR.site_vectors(V, rel, lo * (1 + 1e-6)):
                u = p / np.linalg.norm(p, axis=1)[:, None]
                c = u @ u.T
                np.fill_diagonal(c, -1.0)
                if c.max() > math.cos(math.radians(25.0)):
                    ok = False
            if ok:
                good.append((lo, hi))
        gaps = good
    assert gaps
    return tuple(gaps), radii[0]


def unit_xtal(case, labels):
    """the crystal description of the case with its length unit S = 10**lscale (xt['S']): every length the oracles
    derive from it (lattice parameter, cell, origin, shell radii, cutoffs, nearest-neighbour distance, translations, plane
    offsets) is multiplied by S, every length tolerance by S, every 1/length tolerance by 1/S.  The tools are scale free:
    none of them documents a tolerance or a unit (established on the unchanged code, see known_findings for the one
    exception, disregistry)"""
    k = int(case.get('lscale') or 0)
    S = float('1e%d' % k)
    labels.add('unit_1' if k == 0 else ('unit_small' if k < 0 else 'unit_large'))
    if k <= -9:
        labels.add('unit_si')          # squared lengths below 1e-16: where absolute tolerances of 1e-8 .. 1e-12 would bite
    return dict(case['xtal'], S=S), S


def choose_cutoff(xt, sh, margin, minratio, angle_rule, maxgap=None):
    """cutoff, nearest-neighbour distance and shell gaps in the length unit of the case"""
    gaps, dnn = _gaps(xt['kind'], xt['a'], xt['ca'] or 1.633, minratio, angle_rule)
    S = xt.get('S', 1.0)
    if maxgap is not None:
        gaps = gaps[:maxgap]
    k = sh['gap'] % len(gaps)
    lo, hi = gaps[k][0] * (1 + margin), gaps[k][1] * (1 - margin)
    assert hi > lo
    return (lo + sh['frac'] * (hi - lo)) * S, dnn * S, k, tuple((g0 * S, g1 * S) for g0, g1 in gaps)


class Ref:
    """reference crystal built from the case: positions, types, cell, plus what the oracles need"""
    pass


def build_ref(xt, need, need_axis=None):
    """need: minimum perpendicular width of the supercell (periodic or not), in the length unit of the case.  The
    crystal is built with the numbers as drawn (System.rotate / supersize are judged by C04) and then expressed in the
    unit of the case: positions, cell and origin times S"""
    import atomman as am
    kind, a = xt['kind'], xt['a']
    S = xt.get('S', 1.0)
    need = need / S
    ca = xt['ca'] or 1.633
    V, rel, types = DR.unit_cell(kind, a, ca)
    box = am.Box.hexagonal(a, a * ca) if kind == 'hcp' else am.Box.cubic(a)
    uc = am.System(atoms=am.Atoms(pos=rel.copy(), atype=types.copy()), box=box, scale=True)
    menu = G17.orient_menu(kind)
    oi = xt['orient'] % len(menu)
    uv = menu[oi]
    T = np.eye(3)
    if uv is not None:
        uc, T = uc.rotate(np.array(uv), return_transform=True)
    w = DR.perp_widths(np.array(uc.box.vects))
    base = [int(math.ceil(need / w[k])) for k in range(3)]
    extra = list(xt['extra'])
    n = [base[k] + extra[k] for k in range(3)]
    while n[0] * n[1] * n[2] * uc.natoms > MAXATOMS and any(extra):
        j = int(np.argmax(extra))
        extra[j] -= 1
        n = [base[k] + extra[k] for k in range(3)]
    s = uc.supersize(*n)
    pos = np.array(s.atoms.pos, dtype=float)
    atype = np.array(s.atoms.atype, dtype=int)
    vects = np.array(s.box.vects, dtype=float)
    origin = np.array(s.box.origin, dtype=float)
    R = np.eye(3)
    if xt['rot']:
        R = gens.rotation_matrix(*xt['rot'])
        pos, vects, origin = pos @ R.T, vects @ R.T, origin @ R.T
    sp = int(xt.get('sperm') or 0) % len(SPERMS)
    if sp:
        # exactly structured orientation: a proper signed permutation of the Cartesian axes (cell vectors along -x, +z, ...:
        # exact zeros and negative entries, lower / upper triangular cells in every arrangement)
        R = SPERMS[sp] @ R
        pos, vects, origin = pos @ SPERMS[sp].T, vects @ SPERMS[sp].T, origin @ SPERMS[sp].T
    vp = int(xt.get('vperm') or 0) % len(VPERMS)
    if vp:
        vects = vects[list(VPERMS[vp])]          # the same cell with its vectors relabelled (odd: left-handed)
    shift = np.array(xt['origin'], dtype=float)
    pos, origin = pos + shift, origin + shift
    lim = xt.get('limit')
    if lim and S == 1.0 and np.array_equal(pos, np.rint(pos)) and np.array_equal(origin, np.rint(origin)):
        # whole-number crystal moved by a whole vector so that its extreme coordinate is the limit of a narrow integer dtype
        info = np.iinfo(LIMIT_DTYPES[lim])
        mv = (info.max - pos.max(axis=0)) if lim.endswith('max') else (info.min - pos.min(axis=0))
        pos, origin = pos + mv, origin + mv
    if S != 1.0:
        pos, vects, origin, V, a = pos * S, vects * S, origin * S, V * S, a * S
    perm = DR.permutation(len(pos), xt['perm'])
    pos, atype = pos[perm], atype[perm]
    r = Ref()
    r.kind, r.a, r.ca, r.pos, r.atype, r.vects, r.origin = kind, a, ca, pos, atype, vects, origin
    r.S = S
    r.A = R @ T                    # crystal frame -> system frame
    r.uv, r.oi = uv, oi
    r.sperm, r.vperm = sp, vp
    r.ucell = (V, rel)
    r.natoms = len(pos)
    r.twotype = kind in ('b2', 'l12')
    r.reoriented = bool(oi) or bool(xt['rot']) or bool(sp)
    r.rotated = bool(xt['rot']) or bool(sp)
    r.limit = lim if (lim and S == 1.0) else None
    return r


def mk_system(pos, atype, vects, origin, pbc, intpos=False, labels=None, io=None, limit=None):
    """intpos: coordinates that are all whole numbers are handed over as an integer array (documented input:
    'list/ndarray of float'; whole numbers written without a decimal point are the common way to type a small cell);
    io: storage dtype of the positions (see storage())"""
    import atomman as am
    P = storage(pos, intpos, io or NOIO, limit)
    atype = np.array(atype, dtype=int)
    if P.dtype.kind in 'iu':
        if labels is not None:
            labels.add('int_pos')
            if P.dtype != np.dtype(int):
                labels.add('int_narrow')
        if P.dtype.itemsize < 8:
            atype = atype.astype(np.dtype('u1') if P.dtype.kind == 'u' else np.dtype('i1'))
    return am.System(atoms=am.Atoms(pos=P, atype=atype),
                     box=am.Box(vects=np.array(vects, dtype=float), origin=np.array(origin, dtype=float)),
                     pbc=[bool(x) for x in pbc])


def box_kept(system, vects, origin):
    """Box zeroes components below 1e-9 max|vects|: the case is only used when the cell arrived unchanged"""
    sc = np.abs(vects).max()
    return (np.abs(np.asarray(system.box.vects) - vects).max() <= 1e-13 * sc
            and np.abs(np.asarray(system.box.origin) - origin).max() <= 1e-13 * (sc + np.abs(origin).max()))


def xtal_labels(r):
    labs = {r.kind}
    if r.sperm:
        labs.add('sperm')                  # class G: signed permutation of the axes
    if r.vperm:
        labs.add('vperm')
        if r.vperm in (1, 2, 5):
            labs.add('lefthanded')
    if r.sperm or r.vperm:
        labs.add('structured_cell')
    if r.limit:
        labs.add('at_dtype_limit')
    if r.kind == 'hcp' and 0.0 < abs(r.ca / IDEAL_CA - 1.0) <= 2e-3:
        labs.add('ca_near_ideal')          # class E
    if r.oi:
        labs.add('reoriented')
    if r.rotated:
        labs.add('rotated')
    if r.twotype:
        labs.add('twotype')
    return labs


# ----------------------------------------------------------------------------- deformations

def gradient(Fd):
    """F = R (I + E), |E|_2 = emag; or exactly structured F = I + M (entries k/256).  Returns F, has a rotation part,
    has a strain part"""
    if Fd.get('M') is not None:
        M = np.array(Fd['M'], dtype=float).reshape(3, 3)
        F = I3 + M
        hasE = bool(np.any(F.T @ F != I3))
        return F, bool(np.any(M != M.T)), hasE
    R = gens.rotation_matrix(*Fd['rot']) if Fd['rot'] else np.eye(3)
    e = Fd['E']
    S = np.array([[e[0], e[3], e[4]], [e[3], e[1], e[5]], [e[4], e[5], e[2]]], dtype=float)
    E = np.zeros((3, 3))
    if Fd['emag'] > 0:
        E = S * (Fd['emag'] / np.linalg.norm(S, 2))
    return R @ (I3 + E), bool(Fd['rot']), Fd['emag'] > 0


def gradient_labels(Fd):
    """classes E (almost no strain / rotation) and G (exactly structured F)"""
    labs = set()
    if Fd.get('M') is not None:
        labs |= {'F_struct', 'F_' + str(Fd.get('skind', 'struct'))}
    else:
        if 0.0 < Fd['emag'] <= 1e-4:
            labs.add('tiny_E')
        if Fd['rot'] and Fd['rot'][1] <= 1e-3:
            labs.add('tiny_R')
        if labs:
            labs.add('near_identity')
    return labs


def deform(r, F, move, pbc):
    """affine image of the reference (atoms and cell), translated; cell then shifted against the atoms along periodic
    axes and the atoms wrapped back.  Returns pos1, vects1, origin1, u (imposed displacement F x + t - x), nshift"""
    t = np.array(move['t'], dtype=float) * r.S
    pos1 = r.pos @ F.T + t
    vects1 = r.vects @ F.T
    origin1 = r.origin @ F.T + t
    u = pos1 - r.pos
    bs = np.array([move['boxshift'][k] if pbc[k] else 0.0 for k in range(3)])
    origin1 = origin1 + bs @ vects1
    pos1, shift = DR.wrap(pos1, vects1, origin1, pbc)
    return pos1, vects1, origin1, u, shift


def slip_setup(r, sl, dnn):
    """plane, halves and the rigid slip of the case"""
    cut = sl['cut']
    i1, i2 = (cut + 1) % 3, (cut + 2) % 3
    e1, e2 = r.vects[i1], r.vects[i2]
    nrm = np.cross(e1, e2)
    nrm /= np.linalg.norm(nrm)
    if nrm @ r.vects[cut] < 0:
        nrm = -nrm
    proj = (r.pos - r.origin) @ nrm
    order = np.argsort(proj, kind='stable')
    sp = proj[order]
    brk = np.nonzero(np.diff(sp) > 1e-6 * r.a)[0]
    starts = np.concatenate([[0], brk + 1])
    ends = np.concatenate([brk + 1, [len(sp)]])
    levels = np.array([sp[s:e].mean() for s, e in zip(starts, ends)])
    assert len(levels) >= 2
    g = sl['layer'] % (len(levels) - 1)
    mid = levels[g] + sl['frac'] * (levels[g + 1] - levels[g])
    upper = proj > mid
    lay = np.empty(len(proj), dtype=int)
    for k, (s, e) in enumerate(zip(starts, ends)):
        lay[order[s:e]] = k
    x1 = e1 / np.linalg.norm(e1)
    x2 = np.cross(nrm, x1)
    ang = math.radians(sl['angle'])
    s = sl['mag'] * dnn * (math.cos(ang) * x1 + math.sin(ang) * x2)
    u_up, u_low = sl['split'] * s, -(1.0 - sl['split']) * s
    u = np.where(upper[:, None], u_up, u_low)
    pbc = [False, False, False]
    pbc[i1], pbc[i2], pbc[cut] = bool(sl['inpbc'][0]), bool(sl['inpbc'][1]), bool(sl['cutpbc'])
    d = dict(cut=cut, nrm=nrm, x1=x1, x2=x2, mid=mid, upper=upper, lay=lay, g=g, nlayers=len(levels), s=s, u_up=u_up, u_low=u_low,
             u=u, pbc=pbc, gap=float(levels[g + 1] - levels[g]), mingap=float(np.diff(levels).min()))
    return d


def disreg_blocked(sd, *positions):
    """Input class of the open finding KEY_DISREG_UNIT: disregistry() groups the atoms of one plane with
    np.isclose(y, y_plane) at numpy's default tolerances, |dy| <= 1e-8 + 1e-5 |y_plane|.  The relative part is far below
    every plane spacing of the crystals used here (|y| <= ~150 length units, spacings >= 0.2); the absolute 1e-8 is a
    length in working units that no docstring mentions: in a unit in which atomic planes are 1e-8 or less apart (metres)
    neighbouring planes are taken as one plane"""
    yb = max(amax(p @ sd['nrm']) for p in positions)
    return bool(sd['mingap'] <= 1.05 * (1e-8 + 1e-5 * yb))


class disreg_guard:
    """inside the class of KEY_DISREG_UNIT every failure of disregistry (its ValueError, coordinates of more than two
    planes, mixed displacements) is that finding; outside nothing is caught"""
    def __init__(self, blocked, S):
        self.blocked, self.S = blocked, S

    def __enter__(self):
        return self

    def __exit__(self, et, e, tb):
        if self.blocked and et is not None and ((et is ValueError and DISREG_MSG in str(e)) or (et is Violation and e.key is None)):
            raise Violation('disregistry() on a crystal whose atomic planes are 1e-8 length units or less apart (length unit %g, '
                            'e.g. metres): %s' % (self.S, str(e)[:300]), key=KEY_DISREG_UNIT) from None
        return False


def slipped(r, sd, sl):
    """positions of the slipped crystal, wrapped into a cell shifted along the periodic axes"""
    pbc = sd['pbc']
    pos1 = r.pos + sd['u']
    # half the drawn shift: every atom then stays within one cell of its reference position, i.e. inside the 27
    # candidates that dvect (hence displacement, disregistry) documents to compare
    bs = np.array([0.5 * sl['boxshift'][k] if pbc[k] else 0.0 for k in range(3)])
    origin1 = r.origin + bs @ r.vects
    pos1, shift = DR.wrap(pos1, r.vects, origin1, pbc)
    assert np.abs(shift).max() <= 1
    return pos1, origin1, shift


def pair_table(pos, vects, pbc, rc):
    I, J, D, L = DR.pairs_within(pos, vects, pbc, rc)
    return I, J, D, L


def group_by_atom(n, I, J, D):
    """per-atom neighbour indices and vectors (pairs are sorted by i)"""
    start = np.searchsorted(I, np.arange(n))
    end = np.searchsorted(I, np.arange(n), side='right')
    return [(J[s:e], D[s:e]) for s, e in zip(start, end)]


def rank_ok(vecs):
    """neighbour set spans 3-D with singular-value ratio >= 0.05"""
    if len(vecs) < 3:
        return False
    sv = np.linalg.svd(vecs, compute_uv=False)
    return bool(sv[2] >= 0.05 * sv[0])


def match_stable(p, q, theta_max, eps=1e-7):
    """Would the documented p-q matching (best angle below theta_max, one q per p: the one whose length is closest to
    the shortest p) come out the same under rounding-level changes, and is the matched set 3-D?  Only used to decide
    where two computations may be compared; ties arise e.g. for a slip along a symmetry direction, where a displaced
    neighbour vector bisects two reference vectors exactly."""
    if len(p) < 3 or len(q) < 3:
        return False
    pm, qm = np.linalg.norm(p, axis=1), np.linalg.norm(q, axis=1)
    c = (q @ p.T) / qm[:, None] / pm[None, :]
    order = np.argsort(-c, axis=1)
    best = c[np.arange(len(q)), order[:, 0]]
    second = c[np.arange(len(q)), order[:, 1]]
    cth = math.cos(math.radians(theta_max))
    live = best > cth - eps
    if np.any(live & (best < cth + eps)):
        return False                                    # a theta_max decision within rounding
    if np.any(live & (best - second < eps)):
        return False                                    # two reference vectors equally good
    pick = order[:, 0]
    rad = np.abs(pm.min() - qm)
    keep = []
    for k in set(pick[live].tolist()):
        js = np.nonzero(live & (pick == k))[0]
        if len(js) > 1:
            rs = np.sort(rad[js])
            if rs[1] - rs[0] < eps * pm.min():
                return False                            # two q equally close to r1 compete for one p
        keep.append(js[np.argmin(rad[js])])
    return rank_ok(q[np.array(keep, dtype=int)]) if len(keep) >= 3 else False


def stable_atoms(N, per0, per1, theta, band_hit):
    """per0 / per1: my per-atom (indices, vectors) in the reference / current system"""
    th = 27.0 if theta is None else theta
    st = np.zeros(N, dtype=bool)
    for i in range(N):
        if band_hit[i]:
            continue
        st[i] = match_stable(per0[i][1], per1[i][1], th)
    nb = np.array([st[i] and bool(np.all(st[per1[i][0]])) for i in range(N)])
    return st, nb


def min_image(d, vects, pbc):
    s = np.linalg.solve(vects.T, np.asarray(d, dtype=float).T).T
    for k in range(3):
        if pbc[k]:
            s[..., k] -= np.rint(s[..., k])
    return s @ vects


def nlist_pairs(nl, n):
    """(I, J) of a NeighborList in its own order (atom by atom)"""
    I, J = [], []
    for i in range(n):
        js = np.asarray(nl[i], dtype=int)
        I.extend([i] * len(js))
        J.extend(js.tolist())
    return np.array(I, dtype=int), np.array(J, dtype=int)


def check_list(what, I, J, n, refI, refJ, bandI=None, bandJ=None):
    """the tool's pair list equals my enumeration (pairs in the band around the cutoff may be on either side)"""
    got = set((I * n + J).tolist())
    require(len(got) == len(I), lambda: '%s: neighbour list holds duplicate pairs' % what)
    ref = set((refI * n + refJ).tolist())
    band = set((bandI * n + bandJ).tolist()) if bandI is not None else set()
    extra = (got - ref) - band
    missing = (ref - got) - band
    require(not extra and not missing,
            lambda: '%s: neighbour list differs from my pair enumeration: %d extra %r, %d missing %r'
            % (what, len(extra), [(k // n, k % n) for k in sorted(extra)[:3]], len(missing), [(k // n, k % n) for k in sorted(missing)[:3]]))


class strain_guard:
    """maps the known failures of defect.Strain to keyed violations (context manager)"""
    def __init__(self, single_list, few_neighbours, noncontig=False, readonly3d=False):
        self.single, self.few, self.noncontig, self.readonly3d = single_list, few_neighbours, noncontig, readonly3d

    def __enter__(self):
        return self

    def __exit__(self, et, e, tb):
        if et is ValueError:
            msg = str(e)
            if self.single and 'read-only' in msg:
                # documented: "If one list of p_vectors is given, then it is applied to all atoms"
                raise Violation('Strain(system, p_vectors=<one list of vectors>) without axes raises ValueError(%s)' % msg,
                                key=KEY_READONLY) from None
            if self.few and 'wrong number of dimensions' in msg:
                raise Violation('Strain on a system in which an atom has exactly one neighbour inside the cutoff raises ValueError(%s)' % msg,
                                key=KEY_ONENBR) from None
            if self.noncontig and 'not C-contiguous' in msg:
                # p_vectors : "array-like object"; the function form nye_tensor() takes the same array
                raise Violation('Strain with p_vectors given as an ndarray whose per-atom blocks are not C-contiguous (Fortran-ordered / '
                                'sliced / transposed array) raises ValueError(%s) when G is solved' % msg, key=KEY_NONCONTIG) from None
            if self.readonly3d and 'read-only' in msg:
                raise Violation('Strain / set_p_vectors with per-atom p_vectors given as one read-only (natoms, n, 3) ndarray raises '
                                'ValueError(%s): set_p_vectors assigns into the caller\'s array' % msg, key=KEY_ROASSIGN) from None
        return False


def make_dd(am, s0, s1, reference, lazy, other=None, pre=None, reusable=False, **nb):
    """the documented ways to the same object: (0) everything at construction; (1) construction without a list, then
    solve(list); (2) construction with the other reference, then solve(list, reference); (3) an object already solved
    with another cutoff and the other reference, read, then solve(list, reference); (4) an object solved for the two
    systems in swapped roles, then solve(system0, system1, list); (5) 'pre': an object that was solved while system1
    was in an earlier state (the System object has since been updated in place), solved again - without arguments where
    its stored list is still the reference system's list ('reusable'), else with the list / cutoff; (6) construction
    with the other reference, the reference then set through the property, then solve(list)"""
    DD = am.defect.DifferentialDisplacement
    if lazy == 5 and pre is None:
        lazy = 3
    if lazy in (3, 4) and other is None:
        lazy = lazy - 2
    if lazy == 1:
        dd = DD(s0, s1, reference=reference)
        require(dd.ddvectors is None, 'DifferentialDisplacement without neighbors/cutoff already holds ddvectors')
        dd.solve(**nb)
    elif lazy == 2:
        dd = DD(s0, s1, reference=1 - reference)
        dd.solve(reference=reference, **nb)
    elif lazy == 3:
        dd = DD(s0, s1, cutoff=other, reference=1 - reference)
        require(dd.ddvectors is not None and len(dd.ddvectors) == len(dd.arrowcenters), 'DifferentialDisplacement(cutoff) holds no ddvectors')
        dd.solve(reference=reference, **nb)
    elif lazy == 4:
        dd = DD(s1, s0, cutoff=other, reference=reference)
        dd.solve(system0=s0, system1=s1, **nb)
    elif lazy == 6:
        dd = DD(s0, s1, reference=1 - reference)
        dd.reference = reference
        dd.solve(**nb)
    elif lazy == 5:
        dd = pre
        if 'neighbors' in nb or not reusable:
            dd.solve(**nb)
        else:
            dd.solve()
    else:
        dd = DD(s0, s1, reference=reference, **nb)
    return dd


# ----------------------------------------------------------------------------- object / process histories

NOHIST = {'ops0': [], 'ops1': [], 'build0': None, 'build1': None, 'decoy': False, 'repeat': False, 'forms': 0, 'intpos': False}


def other_cutoff(xt, rc, k, x):
    """a cutoff inside any of the first three shell gaps of the crystal (not necessarily the judged one) and whether it
    selects other shells than rc"""
    gaps, _ = _gaps(xt['kind'], xt['a'], xt['ca'] or 1.633, 1.05, False)
    S = xt.get('S', 1.0)
    lo, hi = gaps[k % len(gaps)]
    c = (lo * 1.01 + x * (hi * 0.99 - lo * 1.01)) * S
    same = any(g[0] * S < min(c, rc) and max(c, rc) < g[1] * S for g in gaps)
    return c, not same


def run_queries(am, s, ops, xt, rc, labels, allow_wrap):
    """Earlier use of one System object: neighbour lists with other cutoffs (also stored as the documented 'neighbors'
    attribute), r0(), dvect / dmag, scaled reads, derived box quantities, wrap().  None of this may change what a later
    analysis call returns.  Returns True when wrap() was called (positions may then have moved by cell vectors)."""
    n = s.natoms
    wrapped = False
    for q in ops:
        op, k, x = q['op'], q['k'], q['x']
        if op == 'wrap' and (not allow_wrap or s.atoms.pos.dtype.itemsize < 8):
            op = 'scaled'          # (wrap() on half / single precision storage rounds the wrapped coordinates: not a whole cell vector)
        with warnings.catch_warnings():
            warnings.simplefilter('ignore')
            if op in ('nlist', 'attr'):
                c, differs = other_cutoff(xt, rc, k, x)
                if op == 'nlist':
                    s.neighborlist(cutoff=c)
                else:
                    s.neighbors = am.NeighborList(system=s, cutoff=c)
                if differs:
                    labels.add('q_other_shells')
            elif op == 'r0':
                s.r0()
            elif op == 'dvect':
                i = k % n
                js = [(k // 7 + 3 * m) % n for m in range(1 + k % 4)]
                s.dvect(i, js)
                s.dmag(i, js[0])
            elif op == 'scaled':
                s.atoms_prop('pos', scale=True)
                s.atoms_prop(key='pos', index=k % n, scale=True)
            elif op == 'derived':
                b = s.box
                b.reciprocal_vects, b.volume, b.a, b.alpha, s.natypes, s.atoms.atypes
            elif op == 'wrap':
                s.wrap()
                wrapped = True
        labels.add('q_' + op)
    return wrapped


def snapshot(s):
    return np.array(s.atoms.pos), np.array(s.box.vects), np.array(s.box.origin), [bool(x) for x in s.pbc]


def after_queries(s, snap, wrapped, what):
    """queries leave the System as it was; wrap() may move atoms by whole cell vectors along periodic axes (and
    stretch the cell along the others).  Returns the positions now held by the object."""
    pos, vects, origin, pbc = snap
    p = np.array(s.atoms.pos, dtype=float)
    require(p.shape == pos.shape and [bool(x) for x in s.pbc] == pbc, lambda: '%s: queries changed the number of atoms or pbc' % what)
    if not wrapped:
        require(np.array_equal(p, pos) and np.array_equal(np.asarray(s.box.vects), vects) and np.array_equal(np.asarray(s.box.origin), origin),
                lambda: '%s: read-only queries (neighborlist / r0 / dvect / scaled reads) changed positions or box' % what)
        return p
    d = np.linalg.solve(vects.T, (p - pos).T).T
    k = np.rint(d)
    ok = np.abs(d - k).max() <= 1e-9 and np.abs(k).max() <= 1 and all(pbc[j] or not k[:, j].any() for j in range(3))
    require(ok, lambda: '%s: wrap() moved atoms by other than one cell vector along periodic axes (largest relative move %r)'
            % (what, d[np.argmax(np.abs(d).max(axis=1))].tolist()))
    return p


def input_form(a, form):
    """the same numbers as nested lists / Fortran-ordered / read-only array / strided view / big-endian / narrowest exact dtype"""
    a = np.array(a, dtype=float)
    if form == 1:
        return a.tolist()
    if form == 2:
        return np.asfortranarray(a)
    if form == 3:
        a.setflags(write=False)
    if form in (4, 5, 6):
        return spell(a, form)
    return a


def set_state(s, pos, vects, origin, pbc, b, labels):
    """bring an existing System object to another state through its public setters: box, pbc, then positions"""
    P = input_form(pos, b['form'] % 7)
    if b['form'] % 7 >= 4:
        labels.add('setpos_form%d' % (b['form'] % 7))
    vects, origin = np.array(vects, dtype=float), np.array(origin, dtype=float)
    same_vects = np.array_equal(np.asarray(s.box.vects), vects)
    br = b['box'] % 6
    if br == 0:
        s.box_set(vects=vects, origin=origin)
    elif br == 1:
        s.box.set(vects=vects.tolist(), origin=origin.tolist())
    elif br == 2:
        s.box.vects = vects
        s.box.origin = origin
    elif br == 3:
        s.box_set(avect=vects[0], bvect=vects[1], cvect=vects[2], origin=origin)
    elif br == 4:
        s.box_set(vects=vects, origin=origin, scale=True)          # atoms follow the cell, then are set below
    elif same_vects:
        s.box_set(origin=origin)
    else:
        s.box.set(avect=tuple(vects[0]), bvect=tuple(vects[1]), cvect=tuple(vects[2]), origin=tuple(origin))
    s.pbc = [bool(x) for x in pbc]
    pr = b['pos'] % 6
    if pr == 0:
        s.atoms.pos[:] = P
    elif pr == 1:
        s.atoms.pos = P
    elif pr == 2:
        s.atoms_prop('pos', value=P)
    elif pr == 3:
        s.atoms.view['pos'][:] = P
    elif pr == 4:
        s.atoms_prop('pos', value=DR.rel_coords(np.array(pos, dtype=float), vects, origin), scale=True)
    else:
        s.atoms.view['pos'] = P
    labels.add('inplace_built')
    labels.add('setpos%d' % pr)
    labels.add('setbox%d' % br)


def staged_system(am, b, ops, intpos, atype, stateA, final, xt, rc, labels, allow_wrap, who):
    """One System object of the case with its earlier life.  final = (pos, vects, origin, pbc) is the judged state.
    Without an in-place build b the object is created in that state; with b it first exists in stateA = (pos, vects,
    origin) (possibly with the opposite periodicity), is queried there (first half of ops) and handed back, so that the
    caller can create analysis objects on it; finish() then brings it to the judged state through the public setters
    selected by b, runs the remaining queries and returns (cell arrived unchanged, positions now held).
    Returns (system, cell of the first state arrived unchanged, finish)."""
    pos, vects, origin, pbc = final
    intpos, io, limit = (intpos if isinstance(intpos, tuple) else (intpos, None, None))
    if b is None:
        s = mk_system(pos, atype, vects, origin, pbc, intpos, labels, io, limit)
        keptA = box_kept(s, vects, origin)
        first = []
    else:
        posA, vectsA, originA = stateA
        pbcA = [not x for x in pbc] if b['pbcflip'] else pbc
        # half / single precision storage survives the in-place setters (values assigned into it are rounded): used for the
        # first state only where the judged positions are exactly representable in the same dtype
        ioA = io
        if io and io.get('pdt') in ('f16', 'f32'):
            dA, dF = storage(posA, intpos, io).dtype, storage(pos, intpos, io).dtype
            if dA != dF:
                ioA = dict(io, pdt=0)
        s = mk_system(posA, atype, vectsA, originA, pbcA, intpos, labels, ioA, None)
        keptA = box_kept(s, vectsA, originA)
        first, ops = ops[:(len(ops) + 1) // 2], ops[(len(ops) + 1) // 2:]
        if keptA:
            run_queries(am, s, first, xt, rc, labels, allow_wrap)

    def finish():
        if b is not None:
            set_state(s, pos, vects, origin, pbc, b, labels)
            if b['pbcflip']:
                labels.add('pbc_set_later')
            labels.add('ref_inplace_built' if who.startswith('ref') else 'cur_inplace_built')
        kept = box_kept(s, vects, origin)
        snap = snapshot(s)
        if b is not None and kept:
            # every setter route must have produced the judged state itself (where Box kept the cell it was given: its
            # documented clean-up zeroes components below 1e-9 of the largest, e.g. the second-order tilts of an almost
            # undeformed cell; such cases are skipped by the callers)
            require(np.abs(snap[0] - pos).max() <= 64 * DR.EPS * (amax(pos) + amax(vects) + amax(origin)),
                    lambda: '%s: positions set through route pos=%d box=%d form=%d differ from the given ones by %.3g'
                    % (who, b['pos'] % 6, b['box'] % 6, b['form'] % 7, np.abs(snap[0] - pos).max()))
        wrapped = run_queries(am, s, ops, xt, rc, labels, allow_wrap) if kept else False
        now = after_queries(s, snap, wrapped, who) if kept else snap[0]
        if first or ops:
            labels.add('queried%d' % (0 if who.startswith('ref') else 1))
        if wrapped:
            labels.add('am_wrapped')
        return kept, now
    return s, keptA, finish


def make_current(am, hist, r, stateA, pos1, vects1, origin1, pbc1, xt, rc, labels, allow_wrap, while_A=None):
    """the deformed System object (see staged_system); while_A(s1, keptA) is called while it is in its first state.
    Returns (s1, cell arrived unchanged, positions now held)."""
    s1, keptA, finish = staged_system(am, hist['build1'], hist['ops1'], (hist['intpos'], hist.get('io'), None), r.atype, stateA,
                                      (pos1, vects1, origin1, pbc1), xt, rc, labels, allow_wrap, 'deformed system')
    if hist['build1'] is not None and while_A is not None:
        while_A(s1, keptA)
    kept, now = finish()
    return s1, kept, now


def reference_stateA(r):
    """an earlier state of the reference object: the crystal expanded by 0.3 % about a point and shifted (the same pairs
    are within every cutoff the clauses use: their margins to the shells are 1 % or more)"""
    c = r.origin + 0.5 * r.vects.sum(axis=0)
    t = 0.1 * r.vects[0]
    return (c + 1.003 * (r.pos - c) + t, 1.003 * r.vects, c + 1.003 * (r.origin - c) + t)


def make_reference(am, hist, r, pbc, xt, rc, labels, allow_wrap, staged=False):
    """the reference System object; staged: returns (s0, finish) with the object still in its first state"""
    s0, _, finish = staged_system(am, hist.get('build0'), hist['ops0'], (hist['intpos'], hist.get('io'), r.limit), r.atype, reference_stateA(r),
                                  (r.pos, r.vects, r.origin, pbc), xt, rc, labels, allow_wrap, 'reference system')
    if staged:
        return s0, finish
    kept, now = finish()
    return s0, kept, now


@functools.lru_cache(maxsize=1)
def _decoy_data():
    a = 3.0
    _, rel, _ = DR.unit_cell('bcc', a)
    cells = np.array([[i, j, k] for i in range(3) for j in range(3) for k in range(3)], dtype=float)
    pos = ((rel[None, :, :] + cells[:, None, :]).reshape(-1, 3)) * a
    F = I3 + np.array([[0.01, 0.004, 0.0], [0.0, -0.006, 0.003], [0.002, 0.0, 0.008]])
    return a, pos, 3 * a * I3, F


def run_decoy(am, full=True):
    """the same tools on an unrelated pair of systems (a strained 54-atom bcc block) in between: nothing of it may be
    remembered by the next call (full=False: the compiled function forms only)"""
    a, pos, V, F = _decoy_data()
    t = np.ones(len(pos), dtype=int)
    d0 = mk_system(pos, t, V, np.zeros(3), [True, True, True])
    d1 = mk_system(pos @ F.T, t, V @ F.T, np.zeros(3), [True, True, False])
    with warnings.catch_warnings():
        warnings.simplefilter('ignore')
        am.displacement(d0, d1)
        am.defect.slip_vector(d0, d1, cutoff=0.9 * a)
        am.defect.disregistry(d0, d1, m=[1, 0, 0], n=[0, 0, 1], planepos=[0, 0, 0.25 * a])
        if full:
            am.defect.DifferentialDisplacement(d0, d1, cutoff=0.9 * a, reference=0)
            st = am.defect.Strain(d1, cutoff=0.9 * a, basesystem=d0, theta_max=20)
            st.strain, st.angularvelocity


def amax(x):
    x = np.asarray(x)
    return float(np.abs(x).max()) if x.size else 0.0


# ----------------------------------------------------------------------------- displacement

def oracle_displacement(case):
    import atomman as am
    mode = case['mode']
    labels = {'mode_' + mode, 'boxref_' + case['boxref']}
    xt, S = unit_xtal(case, labels)
    io = case.get('io') or NOIO
    led = Ledger()
    pbc = [bool(x) for x in case['pbc']]
    rc, dnn, _, _ = choose_cutoff(xt, case['shells'], 0.01, 1.05, False)
    r = build_ref(xt, 2.2 * (rc + 0.45 * dnn))
    if mode == 'slip':
        sd = slip_setup(r, case['slip'], dnn)
        pbc = sd['pbc']
    # the deformed system may declare other periodic axes than the reference ('final' documents system_1's box and
    # pbc, 'initial' system_0's); it is wrapped along its own periodic axes
    pbc1 = [bool(x) for x in case['pbc1']] if (case.get('pbc1') is not None and mode != 'slip') else pbc
    if mode == 'slip':
        pos1, origin1, shift = slipped(r, sd, case['slip'])
        vects1, u = r.vects, sd['u']
    elif mode == 'F':
        F, hasrot, hasE = gradient(case['F'])
        pos1, vects1, origin1, u, shift = deform(r, F, case['move'], pbc1)
        if hasrot and hasE:
            labels.add('F_both')
    else:
        wmin = min(DR.min_width(r.vects, pbc), DR.min_width(r.vects, pbc1))
        scale = wmin if np.isfinite(wmin) else DR.perp_widths(r.vects).min()
        if mode == 'decades':
            # class F: ONE call whose rows span ndec decades: atom i is displaced by a vector of length <= dtop x 0.45 widths
            # x 10**-(i % (ndec + 1)); every row is judged relative to its own magnitude and against the one-atom call
            dec = np.arange(r.natoms) % (case['ndec'] + 1)
            u = DR.uniform(3 * r.natoms, case['useed']).reshape(-1, 3) * (case['dtop'] * 0.45 * scale / math.sqrt(3.0)) * (10.0 ** -dec)[:, None]
        else:
            u = DR.uniform(3 * r.natoms, case['useed']).reshape(-1, 3) * (case['amp'] * scale / math.sqrt(3.0))
            if 0.0 < case['amp'] <= 1e-3:
                labels.add('tiny_u')          # class E: almost no displacement
        if mode == 'big':
            u = u + np.array(case['bigt'], dtype=float) @ r.vects
            if not case['amp'] and np.array_equal(np.rint(case['bigt']), case['bigt']):
                labels.add('whole_cells')          # class G: exactly whole cell vectors
        pos1 = r.pos + u
        vects1 = r.vects
        bs = np.array([case['move']['boxshift'][k] if pbc1[k] else 0.0 for k in range(3)])
        origin1 = r.origin + bs @ vects1
        pos1, shift = DR.wrap(pos1, vects1, origin1, pbc1)
    if io.get('pdt') == 'f32':
        # class C: both systems hold single-precision positions.  The case is DEFINED by the rounded coordinates (exactly
        # representable, so nothing is lost when they are stored): the imposed displacement of atom i moves with them
        p0n, p1n = narrow32(r.pos), narrow32(pos1)
        u = u + (p1n - pos1) - (p0n - r.pos)
        r.pos, pos1 = p0n, p1n
    if any(abs(x) in (1e-3, 1e-6, 1e-9, 1e-12) for x in case['move']['boxshift']) and mode != 'slip':
        labels.add('near_face')              # class E: atoms a relative 1e-3 .. 1e-12 from a periodic face
    if mode == 'F':
        labels |= gradient_labels(case['F'])
    elif mode == 'slip':
        labels |= slip_labels(case)
    labels |= xtal_labels(r)
    hist = dict(case.get('hist') or NOHIST, io=io)
    # object history: earlier queries on both System objects (no wrap(): this clause keeps its own book of the cell
    # vectors every atom was moved by; one query per object and no r0(), to keep this cheap clause cheap - the other
    # clauses run the full lists); the deformed object may first exist as the reference crystal / half-way state
    # Neighbour lists are only asked of systems whose atoms are inside their cell along the open axes (random / several-
    # cell displacements put atoms further than a cutoff outside it, where atomman's cell-list binning is not defined:
    # out-of-range bin indices, a NeighborList matter outside this property)
    inside = mode in ('F', 'slip')
    swap = {'r0': 'dvect'} if inside else {'r0': 'dvect', 'nlist': 'scaled', 'attr': 'derived'}
    light = lambda ops, sw: [dict(q, op=sw.get(q['op'], q['op'])) for q in ops[:1]]
    hist = dict(hist, ops0=light(hist['ops0'], {'r0': 'dvect'}), ops1=light(hist['ops1'], swap))
    s0, kept0, _ = make_reference(am, hist, r, pbc, xt, rc, labels, False)
    stateA = (r.pos, r.vects, r.origin)
    if hist['build1'] and hist['build1']['state'] == 'other':
        stateA = (r.pos + 0.5 * (pos1 - r.pos), 0.5 * (r.vects + vects1), 0.5 * (r.origin + origin1))
    s1, kept1, _ = make_current(am, hist, r, stateA, pos1, vects1, origin1, pbc1, xt, rc, labels, False)
    if not (kept0 and kept1):
        return labels | {'box_zeroed_skip'}
    br = case['boxref']

    def call():
        if br == 'default':
            return am.displacement(s0, s1)
        if br == 'none':
            return am.displacement(s0, s1, box_reference=None)
        if hist['forms'] & 2:
            return am.displacement(s0, s1, br)
        return am.displacement(s0, s1, box_reference=br)
    if hist['decoy']:
        run_decoy(am, False)
        labels.add('decoy')
    storage_labels(s0, labels, 0)
    if storage_labels(s1, labels, 1) and 'stored_narrow0' in labels:
        labels.add('stored_narrow_both')
    led.add_system(s0, 'system_0')
    led.add_system(s1, 'system_1')
    out = led.add(call(), 'displacement')
    got = led.snapshot('displacement') if isinstance(out, np.ndarray) else np.asarray(out)
    # class A: later calls on the same pair, on the pair in swapped roles and (io.twin) on another pair of the same size;
    # what the first call handed out is re-judged bit for bit at the end
    led.add(am.displacement(s1, s0, box_reference='initial'), 'displacement(swapped)')
    if io['twin']:
        led.add(am.displacement(s0, s0), 'displacement(system_0, system_0)')
        led.add(am.displacement(s1, s1, box_reference=None), 'displacement(system_1, system_1)')
        labels.add('twin')
    if hist['repeat']:
        run_decoy(am, False)
        again = led.add(call(), 'displacement (second call)')
        require(np.array_equal(np.asarray(again), got), 'displacement() of the same two systems differs between two calls')
        labels.add('repeat')
    led.verify(labels, 'after %d later displacement() calls' % (len(led.res) - 1))
    if io['scribble']:
        # class B: the caller overwrites the arrays it was handed, then asks again
        if led.scribble(labels):
            again = np.asarray(call())
            require(_bits(again) == _bits(got), 'displacement() of the same two systems differs after the caller overwrote the arrays it '
                    'had been handed by the earlier calls')
    require(got.shape == (r.natoms, 3) and np.all(np.isfinite(got)), lambda: 'displacement returned shape %r' % (got.shape,))
    raw = pos1 - r.pos
    scale = amax(r.pos) + amax(pos1) + amax(vects1)
    tol = TOL * S + 64 * DR.EPS * scale
    if pbc1 != pbc:
        labels.add('pbc_differ')
    if np.any(shift != 0):
        labels.add('rewrapped')
    if br == 'none':
        # "None computes the straight difference between the positions": judged in the precision of numpy's result type of
        # that difference (single precision when BOTH systems store single-precision positions, as in C02)
        rt = np.result_type(s0.atoms.pos.dtype, s1.atoms.pos.dtype)
        err = amax(np.asarray(got, dtype=float) - raw)
        require(err <= tol + (4 * float(np.finfo(rt).eps) * scale if (rt.kind == 'f' and rt.itemsize < 8) else 0.0),
                lambda: 'displacement(box_reference=None) differs from pos1 - pos0 by %.3g' % err)
        return labels | {'nt'} if ('rewrapped' in labels and (r.reoriented or r.twotype)) else labels
    Vsel, psel = (r.vects, pbc) if br == 'initial' else (vects1, pbc1)
    same_box = amax(vects1 - r.vects) == 0.0
    wmin = DR.min_width(Vsel, psel)
    ulen = np.linalg.norm(u, axis=1)
    npsel = ~np.array(psel)
    # (a) the property: the imposed displacement itself, wherever it is shorter than half the smallest periodic width
    #     (then it is the unique shortest member of its class modulo the chosen cell), it differs from pos1 - pos0 by
    #     cell vectors of the chosen cell along the chosen periodic axes only, and it is one of the 27 candidates
    #     dvect documents to compare (at most one cell vector per axis)
    direct = ((ulen < 0.45 * wmin) & (same_box or br != 'initial') & (np.abs(shift).max(axis=1) <= 1)
              & (np.abs(shift[:, npsel]).sum(axis=1) == 0))
    if mode == 'decades' and direct.any():
        # class F: every row relative to its own magnitude (as far as the rounding of the coordinates allows), and equal
        # to the call on the one-atom systems
        rowtol = 64 * DR.EPS * scale + 1e-9 * ulen
        err = np.abs(got - u).max(axis=1)
        bad = np.nonzero(direct & (err > rowtol))[0]
        require(len(bad) == 0, lambda: 'displacement(%s) of atom %d in a call whose rows span %d decades is %r, imposed displacement %r '
                '(error %.3g, |u| = %.3g)' % (br, bad[0], case['ndec'], got[bad[0]].tolist(), u[bad[0]].tolist(), err[bad[0]], ulen[bad[0]]))
        for i in sorted({int(k) for k in np.nonzero(direct)[0][[0, len(np.nonzero(direct)[0]) // 2, -1]]}):
            # (the coordinates the two System objects hold: an in-place route may have re-derived them from relative ones)
            a0 = mk_system(np.asarray(s0.atoms.pos, dtype=float)[i:i + 1], r.atype[i:i + 1], r.vects, r.origin, pbc)
            a1 = mk_system(np.asarray(s1.atoms.pos, dtype=float)[i:i + 1], r.atype[i:i + 1], vects1, origin1, pbc1)
            one = np.asarray(am.displacement(a0, a1) if br == 'default' else am.displacement(a0, a1, box_reference=br))
            require(one.shape == (1, 3) and np.array_equal(one[0], got[i]),
                    lambda: 'displacement(%s): row %d of the %d-atom call is %r, the call on that atom alone returns %r'
                    % (br, i, r.natoms, got[i].tolist(), one.tolist()))
        if np.log10(max(ulen[direct].max(), 1e-300) / max(ulen[direct][ulen[direct] > 0].min(), 1e-300)) >= 8:
            labels.add('decades')
    if direct.any():
        err = np.abs(got[direct] - u[direct]).max(axis=1)
        bad = np.nonzero(err > tol)[0]
        require(len(bad) == 0, lambda: 'displacement(%s) of atom %d is %r, imposed displacement %r (|u| = %.4g, half width %.4g)'
                % (br, np.nonzero(direct)[0][bad[0]], got[direct][bad[0]].tolist(), u[direct][bad[0]].tolist(),
                   ulen[direct][bad[0]], 0.5 * wmin))
        labels.add('direct')
    # (b) elsewhere: the true nearest image of pos1 - pos0 under the chosen cell and periodicity (exhaustive search
    #     with proven radius).  C02: the result is an image and never longer than any of the 27 candidates; so when the
    #     strict global minimum is one of those 27 it must be the result.  Ties and minima further away are exempt.
    rest = np.nonzero(~direct)[0]
    if len(rest):
        ni = NI.NearestImage(Vsel, psel)
        nchk = 0
        for i in rest[:150]:
            res = ni.search(raw[i])
            if res['ntie'] > 1:
                labels.add('tie_exempt')
                continue
            if np.abs(res['n']).max() > 1:
                labels.add('beyond27_exempt')
                continue
            nchk += 1
            err = amax(got[i] - res['vec'])
            require(err <= tol, lambda: 'displacement(%s) of atom %d is %r, nearest image of pos1-pos0 (one of the 27 candidates) is %r'
                    % (br, i, got[i].tolist(), res['vec'].tolist()))
        if nchk:
            labels.add('searched')
    if 'rewrapped' in labels and (r.reoriented or r.twotype):
        labels.add('nt')
    if not same_box:
        labels.add('box_differs')
    return labels


# ----------------------------------------------------------------------------- strain

def expected_strain(F):
    return expected_from_G(np.linalg.inv(F).T)


def expected_from_G(Gx):
    D = I3 - Gx
    e = 0.5 * (D + D.T)
    w = 0.5 * (D - D.T)
    i1, i2, i3 = DR.invariants(e)
    av = math.sqrt(w[0, 1] ** 2 + w[0, 2] ** 2 + w[1, 2] ** 2)
    return Gx, e, w, i1, i2, i3, av


def _judge_class(N, Gg, res, dct, Gx, e, w, i1, i2, i3, av, good, goodnb, per, S=1.0):
    require(Gg.shape == (N, 3, 3), lambda: 'Strain.G has shape %r' % (Gg.shape,))
    errG = np.abs(Gg - Gx).reshape(N, -1).max(axis=1)
    bad = np.nonzero(good & ~(errG <= TOL))[0]
    require(len(bad) == 0, lambda: 'Strain.G of atom %d (of %d failing; %d neighbours) differs from F^-T by %.3g:\nG =\n%r\nF^-T =\n%r'
            % (bad[0], len(bad), len(per[bad[0]][0]), errG[bad[0]], Gg[bad[0]], Gx))
    for name, exp in (('strain', e), ('rotation', w)):
        got = res[name]
        require(got.shape == (N, 3, 3), lambda: 'Strain.%s has shape %r' % (name, got.shape))
        err = np.abs(got - exp).reshape(N, -1).max(axis=1)
        bad = np.nonzero(good & ~(err <= TOL))[0]
        require(len(bad) == 0, lambda: 'Strain.%s of atom %d differs from %s(I - F^-T) by %.3g:\n%r\nexpected\n%r'
                % (name, bad[0], 'sym' if name == 'strain' else 'skew', err[bad[0]], got[bad[0]], exp))
    for name, exp in (('invariant1', i1), ('invariant2', i2), ('invariant3', i3), ('angularvelocity', av)):
        got = res[name]
        require(got.shape == (N,), lambda: 'Strain.%s has shape %r' % (name, got.shape))
        err = np.abs(got - exp)
        bad = np.nonzero(good & ~(err <= TOL))[0]
        require(len(bad) == 0, lambda: 'Strain.%s of atom %d is %.12g, expected %.12g from the strain/rotation of F^-T'
                % (name, bad[0], got[bad[0]], exp))
    nye = res['nye']
    require(nye.shape == (N, 3, 3), lambda: 'Strain.nye has shape %r' % (nye.shape,))
    errN = np.abs(nye).reshape(N, -1).max(axis=1)
    bad = np.nonzero(goodnb & ~(errN <= TOL / S))[0]          # 1/length
    require(len(bad) == 0, lambda: 'Nye tensor of atom %d under a homogeneous deformation is %.3g (should vanish; length unit %g):\n%r'
            % (bad[0], errN[bad[0]], S, nye[bad[0]]))
    for k in ('strain', 'invariant1', 'invariant2', 'invariant3', 'angularvelocity', 'nye'):
        require(k in dct and np.array_equal(np.asarray(dct[k]), res[k], equal_nan=True),
                lambda: 'Strain.asdict()[%r] differs from the property of that name' % k)


def oracle_strain(case):
    import atomman as am
    unit_labels = set()
    xt, S = unit_xtal(case, unit_labels)
    io = case.get('io') or NOIO
    led = Ledger()
    refmode = case['refmode']
    pbc = [bool(x) for x in case['pbc']]
    if refmode == 'subset':
        pbc = [True, True, True]
    sh = case['shells']
    rc, dnn, kgap, gaps = choose_cutoff(xt, sh, 0.045, 1.12, True)
    if refmode == 'subset' and len(gaps) > 1:
        # the current list must reach beyond the reference set
        sh = dict(sh, gap=1 + sh['gap'] % (len(gaps) - 1))
        rc, dnn, kgap, gaps = choose_cutoff(xt, sh, 0.045, 1.12, True)
    if io['scal'] & 1:
        rc = float(np.float32(rc))          # the cutoff IS this single-precision number (handed over as numpy.float32 below)
    F, hasrot, hasE = gradient(case['F'])
    hist = dict(case.get('hist') or NOHIST, io=io)
    shist = case.get('shist')
    smode = shist['mode'] if shist else None
    # largest displacement difference over a neighbour pair: |F - I| * rc
    dF = np.linalg.norm(F - I3, 2)
    if smode == 'inplace':
        FA, _, _ = gradient(shist['F0'])
        dF = max(dF, np.linalg.norm(FA - I3, 2))
    r = build_ref(xt, 2.2 * 1.04 * (rc * (1 + dF) + 0.05 * dnn))
    labels = xtal_labels(r) | {'ref_' + refmode, 'nbr_' + case['nbrmode'], 'gap%d' % kgap} | unit_labels
    labels |= gradient_labels(case['F'])
    if any(abs(x) in (1e-3, 1e-6, 1e-9, 1e-12) for x in case['move']['boxshift']):
        labels.add('near_face')
    pos1, vects1, origin1, u, shift = deform(r, F, case['move'], pbc)
    s0, kept0, _ = make_reference(am, hist, r, pbc, xt, rc, labels, True)
    if not kept0:
        return labels | {'box_zeroed_skip'}
    N = r.natoms
    # my neighbour pairs in the reference; the deformed crystal must have the same ones (complete shells, margins)
    I0, J0, D0, L0 = pair_table(r.pos, r.vects, pbc, rc)
    I1, J1, D1, L1 = pair_table(pos1, vects1, pbc, rc)
    assert len(I0) == len(I1) and np.array_equal(I0, I1) and np.array_equal(J0, J1), 'generator: shells not complete in both systems'
    assert amax(D1 - D0 @ F.T) <= 1e-9 * (S + amax(pos1)), 'generator: deformed neighbour vectors are not F d0'
    per = group_by_atom(N, I0, J0, D0)
    good = np.array([rank_ok(v) for _, v in per])
    if not good.any():
        return labels | {'no_good_atom'}
    if not good.all():
        labels.add('surface_rankdef')
    if not all(pbc):
        labels.add('surface')
    # atoms whose neighbours are all good: the gradient of G over the neighbours is judged there
    goodnb = np.array([good[i] and bool(np.all(good[js])) for i, (js, _) in enumerate(per)])
    few = bool(np.any(np.bincount(I0, minlength=N) < 2))

    theta = case['theta']
    kw = {}
    if theta is not None:
        kw['theta_max'] = theta
    pv = None
    wrap_axes = None
    single_list = False
    if refmode in ('single', 'axes') and r.kind == 'hcp':
        refmode = 'peratom'                     # two inequivalent sites: no single list
    if refmode == 'base':
        pass
    elif refmode in ('peratom', 'peratom_axes'):
        # full (infinite-crystal) neighbour set of every atom, from my enumeration with all axes periodic
        If, Jf, Df, _ = pair_table(r.pos, r.vects, [True, True, True], rc)
        perf = group_by_atom(N, If, Jf, Df)
        cnt = {len(v) for _, v in perf}
        assert len(cnt) == 1
        pv = [np.array(v) for _, v in perf]
        if refmode == 'peratom_axes':
            # (enumerated clause only) the per-atom lists in the crystal frame together with the axes option: p_sys = A p_c
            pv = [v @ r.A for v in pv]
            wrap_axes = r.A.copy()
            labels.add('axes_given')
        if xt['perm'] % 2:
            pv = np.array(pv)
    elif refmode in ('single', 'axes', 'subset'):
        Vu, relu = r.ucell
        rsel = rc
        if refmode == 'subset':
            # reference set = first admissible shell group only, current list from a wider cutoff, wide theta_max:
            # outer-shell q vectors compete for the same p and must lose against the true partner
            rsel = gaps[0][0] * 1.0001
            th = theta if (theta is not None and theta >= 50.0) else 60.0
            kw['theta_max'] = th
        pc = DR.site_vectors(Vu, relu, rsel)[0]          # crystal frame
        use_axes = refmode == 'axes' or (refmode == 'subset' and xt['perm'] % 2 == 0)
        if use_axes:
            uv = r.uv
            orth = uv is not None and np.allclose(np.array(uv) @ np.array(uv).T, np.diag(np.diag(np.array(uv) @ np.array(uv).T)))
            if xt['rot'] is None and orth:
                wrap_axes = np.rint(SPERMS[r.sperm] @ np.array(uv)).astype(int)
                labels.add('axes_int')
            else:
                wrap_axes = r.A.copy()
            pv = pc.copy()
        else:
            pv = pc @ r.A.T
        if len(pv) == N or xt['perm'] % 3 == 1:
            pv = [pv]
        single_list = True
        if wrap_axes is not None:
            labels.add('axes_given')
        if refmode == 'subset' and r.kind == 'hcp':
            # two inequivalent sites: the first-shell reference set is given atom by atom
            If, Jf, Df, _ = pair_table(r.pos, r.vects, [True, True, True], rsel)
            pv = np.array([np.array(v) for _, v in group_by_atom(N, If, Jf, Df)])
            single_list = False
            wrap_axes = None
            labels.discard('axes_given'); labels.discard('axes_int')
        if refmode == 'subset':
            # is the class really exercised: some outer-shell vector within theta_max of a reference vector
            ps = pc / np.linalg.norm(pc, axis=1)[:, None]
            outer = DR.site_vectors(Vu, relu, rc)[0]
            outer = outer[np.linalg.norm(outer, axis=1) > rsel]
            if len(outer):
                co = (outer / np.linalg.norm(outer, axis=1)[:, None]) @ ps.T
                if co.max() > math.cos(math.radians(kw['theta_max'])) + 1e-6:
                    labels.add('subset_dup')
    # ---- documented input forms of the same numbers
    forms = hist['forms']
    nbrmode = case['nbrmode']
    rcv = np.float64(rc) if forms & 1 else rc
    if io['scal'] & 1:
        rcv = np.float32(rc)
        labels.add('cutoff_f32')
    if forms & 2 and 'theta_max' in kw and float(kw['theta_max']).is_integer():
        kw['theta_max'] = int(kw['theta_max'])
        labels.add('theta_int')
    if io['scal'] & 2 and 'theta_max' in kw:
        # numpy scalars of other dtypes (class C): int16 for whole numbers, float32 where exact, else float64
        t = kw['theta_max']
        kw['theta_max'] = np.int16(t) if float(t).is_integer() else (np.float32(t) if float(np.float32(t)) == float(t) else np.float64(t))
        labels.add('theta_npscalar')
    ddref = case['ddref']
    if io['scal'] & 4:
        ddref = [np.uint8, np.int8, np.int64, bool][(io['scal'] >> 3) + 2 * (io['idt'] % 2)](ddref)
        labels.add('ref_scalar')
    pvform = (forms >> 2) & 3
    if pv is not None and pvform:
        # nested lists / Fortran-ordered / read-only arrays ("array-like object")
        pv = [input_form(x, pvform) for x in pv] if isinstance(pv, list) else input_form(pv, pvform)
        labels.add('pv_form%d' % pvform)
    elif pv is not None and io['adt'] % 7 >= 4:
        # strided views / big-endian / narrowest exact dtype (class C)
        pv = [spell(x, io['adt']) for x in pv] if isinstance(pv, list) else spell(pv, io['adt'])
        labels.add('pv_adt%d' % (io['adt'] % 7))
        if any(a.dtype != np.dtype(float) for _, a in _leaves(pv, 'pv')):
            labels.add('pv_dtype')
    if wrap_axes is not None and io['adt'] % 7:
        wrap_axes = spell(wrap_axes, io['adt'], labels)
    # class B: the caller's own copy of what it hands in (same spelling, separate memory); `pv` itself is what the Strain
    # object is given and - with io.scribble - what the caller overwrites / re-uses once the object has been set up
    pv_keep = copy.deepcopy(pv)
    axes_keep = copy.deepcopy(wrap_axes)
    pv_view_class = isinstance(pv, np.ndarray) and single_list and wrap_axes is None and pv.flags.writeable
    reused = []

    def caller_reuses():
        """after the object has been given its reference vectors: they are unchanged; then the caller re-uses its buffers"""
        if pv is None:
            return
        require(Ledger._same(pv, pv_keep) and Ledger._same(wrap_axes, axes_keep), 'Strain / set_p_vectors changed the p_vectors or axes it was given')
        if io['scribble'] and not reused:
            n = sum(scribble(a) for _, a in _leaves(pv, 'pv')) + (scribble(wrap_axes) if isinstance(wrap_axes, np.ndarray) else 0)
            reused.append(n)
            if n:
                labels.add('pv_reused')
                if pv_view_class:
                    labels.add('pv_reused_single_ndarray')

    def map_pv(pvec, M):
        return [np.asarray(x, dtype=float) @ M.T for x in pvec] if isinstance(pvec, list) else np.asarray(pvec, dtype=float) @ M.T

    def new_strain(sys1, base, pvec, kws):
        """(Strain object, list of the analysed system, list of the base system) along the route of the case: cutoff,
        given lists, or the documented 'neighbors' attribute of the systems"""
        nl1 = nl0 = None
        args = {}
        if nbrmode == 'neighbors':
            nl1 = am.NeighborList(system=sys1, cutoff=rcv)
            args['neighbors'] = nl1
            if base is not None:
                nl0 = base.neighborlist(cutoff=rcv)
                args['baseneighbors'] = nl0
        elif nbrmode == 'attr':
            sys1.neighbors = nl1 = am.NeighborList(system=sys1, cutoff=rcv)
            if base is not None:
                base.neighbors = nl0 = am.NeighborList(system=base, cutoff=rcv)
        else:
            args['cutoff'] = rcv
        if base is not None:
            args['basesystem'] = base
        else:
            args['p_vectors'] = pvec
            if wrap_axes is not None:
                args['axes'] = wrap_axes
        args.update(kws)
        return am.defect.Strain(sys1, **args), nl1, nl0

    def read_prop(st, name):
        if name == 'asdict':
            return led.add(st.asdict(), 'earlier state: Strain.asdict()')
        if name == 'save':
            return st.save_to_system(['strain', 'invariant1', 'angularvelocity'])
        return np.array(led.add(getattr(st, name), 'earlier state: Strain.' + name))

    def stage0(st, G0x, judged):
        """the earlier state of the object: the drawn properties are read (so that they are held by the object when its
        state changes) and, where the expectation is known, judged like the final ones"""
        got = {}
        for name in shist['reads0']:
            got[name] = read_prop(st, name)
        if not judged or G0x is None:
            return
        G0 = np.array(st.G)
        errG = np.abs(G0 - G0x).reshape(N, -1).max(axis=1)
        bad = np.nonzero(good & ~(errG <= TOL))[0]
        require(len(bad) == 0, lambda: 'earlier state of the Strain object (%s): G of atom %d differs from the expected %r by %.3g'
                % (smode, bad[0], G0x.tolist(), errG[bad[0]]))
        _, e0, w0, a1, a2, a3, av0 = expected_from_G(G0x)
        for name, exp in (('strain', e0), ('rotation', w0), ('invariant1', a1), ('invariant2', a2), ('invariant3', a3), ('angularvelocity', av0)):
            if name in got:
                err = np.abs(got[name] - exp).reshape(N, -1).max(axis=1)
                bad = np.nonzero(good & ~(err <= TOL))[0]
                require(len(bad) == 0, lambda: 'earlier state of the Strain object (%s): %s of atom %d differs from the expectation by %.3g'
                        % (smode, name, bad[0], err[bad[0]]))
        labels.add('stage0_judged')

    # failures of the class on documented input forms that are listed as open findings (keyed; the case ends there)
    pv_arr = isinstance(pv, np.ndarray)
    guard = strain_guard(single_list and wrap_axes is None, few,
                         noncontig=pv_arr and pvform == 2 and wrap_axes is None,
                         readonly3d=pv_arr and pvform == 3 and pv.ndim == 3)
    with guard:
        base = s0 if refmode == 'base' else None
        pre = {}
        if smode == 'inplace':
            posA, vectsA, originA, _, _ = deform(r, FA, shist['move0'], pbc)
            IA, JA, _, _ = pair_table(posA, vectsA, pbc, rc)
            assert np.array_equal(IA, I0) and np.array_equal(JA, J0), 'generator: shells not complete in the earlier state'
            noisy = False
            if shist['pset'] % 2:
                # every other earlier state is not homogeneous (per-atom noise of 0.3 % of the neighbour distance, same
                # pairs): G varies from atom to atom and the Nye tensor held by the object is not zero
                pn = posA + DR.uniform(3 * N, 1 + shist['pset']).reshape(-1, 3) * (0.003 * dnn)
                In, Jn, _, _ = pair_table(pn, vectsA, pbc, rc)
                if np.array_equal(In, I0) and np.array_equal(Jn, J0):
                    posA, noisy = pn, True
                    labels.add('stage0_noisy')

            def while_A(sA, keptA):
                with warnings.catch_warnings():
                    warnings.simplefilter('ignore')
                    pre['st'] = new_strain(sA, base, pv, kw)
                    with strain_guard(single_list and wrap_axes is None, few):
                        stage0(pre['st'][0], np.linalg.inv(FA).T, keptA and not noisy)
                        if noisy and not few:
                            require(amax(pre['st'][0].nye) > 1e-7 / S, 'Nye tensor of a crystal with per-atom noise is zero')
                    if case.get('ddlazy', 0) == 5:
                        pre['dd'] = am.defect.DifferentialDisplacement(s0, sA, cutoff=rc, reference=case['ddref'])
            # the periodicity stays: the lists made in the earlier state are the lists of the judged state only then
            hist1 = dict(hist, build1=dict(shist['build'], pbcflip=False))
            s1, kept1, _ = make_current(am, hist1, r, (posA, vectsA, originA), pos1, vects1, origin1, pbc, xt, rc, labels, True, while_A)
            if 'st' in pre:
                caller_reuses()
        else:
            s1, kept1, _ = make_current(am, hist, r, None, pos1, vects1, origin1, pbc, xt, rc, labels, True)
        if not kept1:
            return labels | {'box_zeroed_skip'}
        storage_labels(s0, labels, 0)
        storage_labels(s1, labels, 1)
        led.add_system(s0, 'reference system')
        led.add_system(s1, 'analysed system')
        Gx, e, w, i1, i2, i3, av = expected_strain(F)
        with warnings.catch_warnings():
            warnings.simplefilter('ignore')
            if smode == 'inplace':
                st, nl1, nl0 = pre['st']
            elif smode == 'pvec':
                # other reference vectors first: those of the reference crystal strained by M = I + E0 (|E0| <= 1 %), for
                # which G = (F M^-1)^-T; then the right ones through set_p_vectors / build_p_vectors
                E0 = shist['F0']['E'] if any(shist['F0']['E']) else [1.0, 0.0, 0.0, 0.0, 0.0, 0.0]
                M, _, _ = gradient({'rot': None, 'E': E0, 'emag': shist['e0']})
                judged = True
                if refmode == 'base':
                    s0A = mk_system(r.pos @ M.T, r.atype, r.vects @ M.T, r.origin @ M.T, pbc)
                    judged = box_kept(s0A, r.vects @ M.T, r.origin @ M.T)
                    st, nl1, _ = new_strain(s1, s0A, None, kw)
                else:
                    st, nl1, _ = new_strain(s1, None, map_pv(pv, M if wrap_axes is None else r.A.T @ M @ r.A), kw)
                with strain_guard(single_list and wrap_axes is None, few):
                    stage0(st, np.linalg.inv(F @ np.linalg.inv(M)).T, judged)
                if refmode == 'base':
                    k = shist['pset'] % 6
                    sb = s0
                    if k >= 3 and judged:
                        # the strained reference object itself becomes the reference crystal (updated in place)
                        sb = s0A
                        set_state(sb, r.pos, r.vects, r.origin, pbc, shist['build'], labels)
                        require(box_kept(sb, r.vects, r.origin), 'cell of the reference set in place differs from the one given')
                        labels.add('ref_inplace_built')
                    if k % 3 == 0:
                        st.build_p_vectors(sb, cutoff=rcv)
                    elif k % 3 == 1:
                        st.build_p_vectors(sb, neighbors=am.NeighborList(system=sb, cutoff=rcv))
                    else:
                        sb.neighbors = am.NeighborList(system=sb, cutoff=rcv)
                        st.build_p_vectors(sb)
                else:
                    st.set_p_vectors(pv, axes=wrap_axes)
                    caller_reuses()
            elif smode == 'theta':
                # an angle window below every p-q angle first (no pairs: G = identity, documented warning), then the real one
                st, nl1, nl0 = new_strain(s1, base, pv, dict(kw, theta_max=0.02))
                caller_reuses()
                with strain_guard(single_list and wrap_axes is None, few):
                    stage0(st, None, False)
            else:
                st, nl1, nl0 = new_strain(s1, base, pv, kw)
                caller_reuses()          # (the object solves on first access: nothing has been computed yet)
            if smode:
                if hist['decoy']:
                    run_decoy(am)
                    labels.add('decoy')
                # second solve of the same object: the documented ways to recompute
                T = kw.get('theta_max', 27)
                route = shist['resolve']
                if smode == 'theta' and route not in ('solve_theta', 'setter'):
                    route = 'setter' if shist['pset'] % 2 else 'solve_theta'
                if route == 'solve':
                    st.solve_G()
                elif route == 'solve_theta':
                    st.solve_G(theta_max=T)
                elif route == 'clear':
                    st.clear_properties()
                else:
                    st.theta_max = T
                    st.solve_G()
                labels.add('sh_' + smode)
                labels.add('rs_' + route)
                labels.add('strain_resolved')
                if set(shist['reads0']) - {'G'}:
                    labels.add('derived_read_before')
            # a listed defect of the class must not hide the function form and the differential displacements: the keyed
            # violation is kept and raised after everything that does not depend on the class has been judged
            pending = None
            names = ['G', 'strain', 'rotation', 'invariant1', 'invariant2', 'invariant3', 'angularvelocity', 'nye']
            if case.get('names'):
                # (enumerated clause) the first properties to be read, in this order; the others follow
                names = list(case['names']) + [k for k in names if k not in case['names']]
                labels.add('derived_read_first')
            elif case.get('order'):
                names = [names[k] for k in DR.permutation(len(names), case['order'])]
                if names[0] != 'G':
                    labels.add('derived_read_first')
            res = {}
            try:
                with strain_guard(single_list and wrap_axes is None, few):
                    for k in names:
                        res[k] = np.array(led.add(getattr(st, k), 'Strain.' + k))
            except Violation as v:
                if v.key not in (KEY_READONLY, KEY_ONENBR):
                    raise
                pending = v
            if pending is None:
                Gg = res['G']
                dct = st.asdict()
    if pending is None:
        try:
            _judge_class(N, Gg, res, dct, Gx, e, w, i1, i2, i3, av, good, goodnb, per, S)
        except Violation as v:
            if not (v.key is None and pv_view_class and reused and reused[0]):
                raise
            # open finding: the object holds a view of the caller's array and solves lazily
            pending = Violation('Strain(system, p_vectors=<one list of p vectors as a writable ndarray>) without axes keeps a view of the '
                                'caller\'s array (numpy.broadcast_to) and solves on first access: after the caller overwrote / re-used its array '
                                'the object answers for other reference vectors: %s' % v.detail[:300], key=KEY_PV_VIEW)
    if pending is None:
        if case.get('order', 0) % 3 == 0:
            st.save_to_system()
            for k in ('strain', 'invariant1', 'invariant2', 'invariant3', 'angularvelocity', 'nye'):
                require(np.array_equal(np.asarray(s1.atoms.view[k]), res[k], equal_nan=True),
                        lambda: 'Strain.save_to_system(): per-atom property %r of the system differs from Strain.%s' % (k, k))
            labels.add('saved_to_system')
    # the function form
    if case['wrapper'] and not few:
        if refmode == 'base':
            pw = [np.array(x, dtype=float) for x in st.p_vectors]
        else:
            pw = copy.deepcopy(pv_keep)
        wkw = dict(kw)
        if wrap_axes is not None:
            wkw['axes'] = copy.deepcopy(axes_keep)
            led.add_input(wkw['axes'], 'axes of nye_tensor()')
        led.add_input(pw, 'p_vectors of nye_tensor()')
        with warnings.catch_warnings():
            warnings.simplefilter('ignore')
            if hist['decoy']:
                run_decoy(am)
            if nbrmode == 'neighbors':
                out = am.defect.nye_tensor(s1, pw, neighbors=nl1, **wkw)
            elif nbrmode == 'attr':
                s1.neighbors = nl1          # (an earlier query may have left another list there)
                out = am.defect.nye_tensor(s1, pw, **wkw)
            else:
                out = am.defect.nye_tensor(s1, pw, cutoff=rcv, **wkw)
        led.add(out, 'nye_tensor()')
        for key, exp, msk in (('strain', e, good), ('strain_invariant_1', i1, good), ('strain_invariant_2', i2, good),
                              ('strain_invariant_3', i3, good), ('angular_velocity', av, good),
                              ('Nye_tensor', np.zeros((3, 3)), goodnb)):
            require(key in out, lambda: 'nye_tensor() result lacks %r' % key)
            got = np.asarray(out[key])
            err = np.abs(got - exp).reshape(N, -1).max(axis=1)
            bad = np.nonzero(msk & ~(err <= (TOL / S if key == 'Nye_tensor' else TOL)))[0]
            require(len(bad) == 0, lambda: 'nye_tensor()[%r] of atom %d differs from the expectation by %.3g: %r vs %r'
                    % (key, bad[0], err[bad[0]], got[bad[0]], exp))
        labels.add('wrapper')
    # differential displacement of a homogeneous deformation: (F - I) d0 for every listed pair
    with warnings.catch_warnings():
        warnings.simplefilter('ignore')
        # under a homogeneous deformation both systems (and the earlier state of system1) have the same pairs: a stored
        # list stays the reference system's list
        dd = make_dd(am, s0, s1, ddref, case.get('ddlazy', 0), other=other_cutoff(xt, rc, case.get('order', 0), 0.5)[0],
                     pre=pre.get('dd'), reusable=True, cutoff=rcv)
    require(dd.reference == case['ddref'], lambda: 'DifferentialDisplacement.reference is %r after reference=%r' % (dd.reference, ddref))
    led.add((dd.ddvectors, dd.arrowcenters, dd.arrowuvectors), 'DifferentialDisplacement arrays')
    if case.get('ddlazy', 0) >= 3:
        labels.add('dd_resolved')
    Il, Jl = nlist_pairs(dd.neighbors, N)
    check_list('DifferentialDisplacement(reference=%d, construction %d)' % (case['ddref'], case.get('ddlazy', 0)), Il, Jl, N, I0, J0)
    lut = {int(k): n for n, k in enumerate((I0 * N + J0).tolist())}
    idx = np.array([lut[int(k)] for k in (Il * N + Jl).tolist()], dtype=int)
    ddv = np.asarray(dd.ddvectors)
    require(ddv.shape == (len(Il), 3), lambda: 'ddvectors has shape %r for %d listed pairs' % (ddv.shape, len(Il)))
    expdd = D0[idx] @ (F - I3).T
    err = np.abs(ddv - expdd).max(axis=1)
    k = int(np.argmax(err))
    require(err[k] <= TOL * S + 64 * DR.EPS * (amax(pos1) + amax(r.pos)),
            lambda: 'ddvector of pair (%d,%d) is %r, (F-I).d0 = %r (reference=%d)' % (Il[k], Jl[k], ddv[k].tolist(), expdd[k].tolist(), case['ddref']))
    if np.any(shift != 0):
        labels.add('rewrapped')
    if hasrot and hasE:
        labels.add('F_both')
        if r.reoriented or r.twotype:
            labels.add('nt')
    elif hasrot:
        labels.add('F_rot')
    else:
        labels.add('F_strain')
    if theta is not None:
        labels.add('theta_given')
    if io['twin'] and not few:
        # class A: the same tools afterwards on another pair of systems of the SAME size (the reference crystal analysed
        # against itself: G = 1, everything else zero)
        with warnings.catch_warnings():
            warnings.simplefilter('ignore')
            tw = am.defect.Strain(s0, cutoff=rcv, basesystem=s0, **kw)
            tres = {k: np.array(led.add(getattr(tw, k), 'second object: Strain.' + k)) for k in reversed(names)}
            tdd = am.defect.DifferentialDisplacement(s0, s0, cutoff=rcv, reference=1 - case['ddref'])
            led.add((tdd.ddvectors, tdd.arrowcenters, tdd.arrowuvectors), 'second object: DifferentialDisplacement arrays')
        for k, exp, msk in (('G', I3, good), ('strain', 0.0, good), ('rotation', 0.0, good), ('nye', 0.0, goodnb)):
            err = np.abs(tres[k] - exp).reshape(N, -1).max(axis=1)
            bad = np.nonzero(msk & ~(err <= (TOL / S if k == 'nye' else TOL)))[0]
            require(len(bad) == 0, lambda: 'Strain of the reference crystal against itself (second object of the case): %s of atom %d is off by %.3g'
                    % (k, bad[0], err[bad[0]]))
        require(amax(tdd.ddvectors) <= TOL * S, 'DifferentialDisplacement of the reference crystal against itself is not zero')
        labels.add('twin')
    led.verify(labels, 'end of the case')
    if pending is not None:
        raise pending
    return labels


# ----------------------------------------------------------------------------- slip

def _dd_check(am, what, s0, s1, r, pos1, pbc, rc, u, reference, nbrmode, labels, lazy=0, pos0=None, other=None, pre=None, reusable=False,
              refarg=None, led=None):
    """DifferentialDisplacement on (s0, s1): per listed pair u_j - u_i, centres and directions in the reference system
    (pos0 / pos1: the positions the two System objects hold now; refarg: the reference handed over as a numpy scalar / bool)"""
    N = r.natoms
    refpos = (r.pos if pos0 is None else pos0) if reference == 0 else pos1
    refarg = reference if refarg is None else refarg
    with warnings.catch_warnings():
        warnings.simplefilter('ignore')
        if nbrmode == 'neighbors':
            nl = am.NeighborList(system=s0 if reference == 0 else s1, cutoff=rc)
            dd = make_dd(am, s0, s1, refarg, lazy, other=other, pre=pre, reusable=reusable, neighbors=nl)
        else:
            dd = make_dd(am, s0, s1, refarg, lazy, other=other, pre=pre, reusable=reusable, cutoff=rc)
    require(dd.reference == reference, lambda: '%s: reference is %r' % (what, dd.reference))
    if led is not None:
        led.add((dd.ddvectors, dd.arrowcenters, dd.arrowuvectors), what)
    Il, Jl = nlist_pairs(dd.neighbors, N)
    band = 1e-7 * rc
    Ia, Ja, _, _ = pair_table(refpos, r.vects, pbc, rc - band)
    Ib, Jb, _, Lb = pair_table(refpos, r.vects, pbc, rc + band)
    inb = Lb >= rc - band
    check_list(what, Il, Jl, N, Ia, Ja, Ib[inb], Jb[inb])
    ddv = np.asarray(dd.ddvectors)
    require(ddv.shape == (len(Il), 3), lambda: '%s: ddvectors has shape %r for %d listed pairs' % (what, ddv.shape, len(Il)))
    expdd = u[Jl] - u[Il]
    err = np.abs(ddv - expdd).max(axis=1) if len(Il) else np.zeros(0)
    tol = TOL * r.S + 64 * DR.EPS * (amax(pos1) + amax(r.pos))
    if len(err):
        k = int(np.argmax(err))
        require(err[k] <= tol, lambda: '%s: ddvector of pair (%d,%d) is %r, u_j - u_i = %r' % (what, Il[k], Jl[k], ddv[k].tolist(), expdd[k].tolist()))
    dref = min_image(refpos[Jl] - refpos[Il], r.vects, pbc)
    cen = np.asarray(dd.arrowcenters)
    uv = np.asarray(dd.arrowuvectors)
    require(cen.shape == (len(Il), 3) and uv.shape == (len(Il), 3), lambda: '%s: arrowcenters/arrowuvectors shapes %r %r' % (what, cen.shape, uv.shape))
    if len(Il):
        err = np.abs(cen - (refpos[Il] + 0.5 * dref)).max(axis=1)
        k = int(np.argmax(err))
        require(err[k] <= tol, lambda: '%s: arrow centre of pair (%d,%d) is %r, pair midpoint in system %d is %r'
                % (what, Il[k], Jl[k], cen[k].tolist(), reference, (refpos[Il[k]] + 0.5 * dref[k]).tolist()))
        err = np.abs(uv - dref / np.linalg.norm(dref, axis=1)[:, None]).max(axis=1)
        k = int(np.argmax(err))
        require(err[k] <= 1e-9, lambda: '%s: arrow unit vector of pair (%d,%d) is %r, pair direction in system %d is %r'
                % (what, Il[k], Jl[k], uv[k].tolist(), reference, (dref[k] / np.linalg.norm(dref[k])).tolist()))
    ncross = int(np.count_nonzero(np.abs(expdd).max(axis=1) > 0)) if len(Il) else 0
    if ncross:
        labels.add('dd_cross_pairs')
    return dd, Il, Jl


def _disreg_check(am, what, s0, s1, r, sd, m_angle, n_flip, ofs, pos0=None, aslists=False, adt=0, led=None, labels=None):
    nrm, x1, x2 = sd['nrm'], sd['x1'], sd['x2']
    a = math.radians(m_angle)
    m = math.cos(a) * x1 + math.sin(a) * x2
    n = -nrm if n_flip else nrm
    planepos = r.origin + sd['mid'] * nrm + (ofs[0] * r.S) * x1 + (ofs[1] * r.S) * x2
    if aslists:
        args = dict(m=m.tolist(), n=tuple(n.tolist()), planepos=planepos.tolist())
    else:
        # class C: the three vectors in another spelling of the same numbers (strided, big-endian, read-only, narrow dtype ...)
        args = dict(m=spell(m, adt, labels), n=spell(n, adt + (1 if adt else 0), labels), planepos=spell(planepos, adt, labels))
    if led is not None:
        for k in sorted(args):
            led.add_input(args[k], '%s argument %s' % (what, k))
    out = am.defect.disregistry(s0, s1, **args)
    if led is not None:
        led.add(out, what)
    coord, dr = np.array(out[0]), np.array(out[1])
    require(coord.ndim == 1 and dr.shape == (len(coord), 3), lambda: '%s: shapes %r %r' % (what, coord.shape, dr.shape))
    adj = (sd['lay'] == sd['g']) | (sd['lay'] == sd['g'] + 1)
    mine = np.sort((r.pos if pos0 is None else pos0)[adj] @ m)
    tolc = 1e-8 * (r.S + amax(mine))
    # same set of coordinates (the tool may list a coordinate twice when two atoms differ in the last bits)
    d1 = np.abs(coord[:, None] - mine[None, :])
    require(len(coord) and d1.min(axis=1).max() <= tolc and d1.min(axis=0).max() <= tolc,
            lambda: '%s: coordinates %r are not the m-coordinates of the atoms in the two planes adjoining the slip plane %r'
            % (what, coord[:8].tolist(), mine[:8].tolist()))
    require(np.all(np.diff(coord) >= 0), lambda: '%s: coordinates not ascending' % what)
    exp = (sd['u_low'] - sd['u_up']) if n_flip else (sd['u_up'] - sd['u_low'])
    err = np.abs(dr - exp).max(axis=1)
    k = int(np.argmax(err))
    require(err[k] <= TOL * r.S + 64 * DR.EPS * amax(r.pos),
            lambda: '%s: disregistry at coordinate %.6g is %r; displacement of the half on the +n side minus the other half is %r'
            % (what, coord[k], dr[k].tolist(), exp.tolist()))
    return coord, dr


def oracle_slip(case):
    import atomman as am
    sl = case['slip']
    unit_labels = set()
    xt, S = unit_xtal(case, unit_labels)
    io = case.get('io') or NOIO
    led = Ledger()
    rc, dnn, kgap, _ = choose_cutoff(xt, case['shells'], 0.01, 1.05, False)
    if io['scal'] & 1:
        rc = float(np.float32(rc))          # the cutoff IS this single-precision number
    r = build_ref(xt, 2.2 * (rc + 0.45 * dnn))
    sd = slip_setup(r, sl, dnn)
    pbc = sd['pbc']
    labels = xtal_labels(r) | {'gap%d' % kgap, 'cut%d' % sd['cut']} | unit_labels | slip_labels(case)
    pos1, origin1, shift = slipped(r, sd, sl)
    hist = dict(case.get('hist') or NOHIST, io=io)
    forms = hist['forms']
    rcv = np.float64(rc) if forms & 1 else rc
    if io['scal'] & 1:
        rcv = np.float32(rc)
        labels.add('cutoff_f32')
    refarg = case['ddref']
    if io['scal'] & 4:
        refarg = [np.uint8, np.int8, np.int64, bool][(io['scal'] >> 3) + 2 * (io['idt'] % 2)](refarg)
        labels.add('ref_scalar')
    lazy = case.get('ddlazy', 0)
    N = r.natoms
    u, upper = sd['u'], sd['upper']
    # ---- the two System objects and their earlier life.  wrap() of the reference is kept to cases where the cut axis is
    # open (along a periodic cut axis it may move a whole boundary layer to the other side, which changes which two
    # planes adjoin the slip plane - the planes the case was built around)
    s0, finish0 = make_reference(am, hist, r, pbc, xt, rc, labels, not sl['cutpbc'], staged=True)
    stateA = (r.pos, r.vects, r.origin)
    if hist['build1'] and hist['build1']['state'] == 'other':
        stateA = (r.pos - 0.5 * u, r.vects, r.origin)           # the opposite slip, not wrapped
    s1, _, finish1 = staged_system(am, hist['build1'], hist['ops1'], (hist['intpos'], hist.get('io'), None), r.atype, stateA, (pos1, r.vects, origin1, pbc),
                                   xt, rc, labels, True, 'deformed system')
    pre = {}
    if lazy == 5 and (hist['build1'] or hist.get('build0')):
        # an analysis object that sees the two System objects before they are brought to the judged state
        with warnings.catch_warnings():
            warnings.simplefilter('ignore')
            pre['dd'] = am.defect.DifferentialDisplacement(s0, s1, cutoff=rc, reference=case['ddref'])
    kept0, pos0 = finish0()
    kept1, pos1 = finish1()
    # a list stored by that object is still the reference system's list only for reference=0 and a reference object that
    # kept its periodicity (its earlier state is the same crystal expanded by 0.3 %: the same pairs)
    b0 = hist.get('build0')
    reusable = case['ddref'] == 0 and not (b0 and b0['pbcflip'])
    if not (kept0 and kept1):
        return labels | {'box_zeroed_skip'}
    narrow0, narrow1 = storage_labels(s0, labels, 0), storage_labels(s1, labels, 1)
    led.add_system(s0, 'system_0')
    led.add_system(s1, 'system_1')
    I0, J0, D0, L0 = pair_table(r.pos, r.vects, pbc, rc)
    # ---- slip vector
    across = upper[I0] != upper[J0]
    nacross = np.bincount(I0[across], minlength=N)
    rel = np.where(upper[:, None], sd['u_up'] - sd['u_low'], sd['u_low'] - sd['u_up'])
    exp_sv = nacross[:, None] * rel

    def call_sv(what=None):
        with warnings.catch_warnings():
            warnings.simplefilter('ignore')
            if case['svnbr'] == 'neighbors':
                out = am.defect.slip_vector(s0, s1, neighbors=am.NeighborList(system=s0, cutoff=rcv))
            elif case['svnbr'] == 'attr':
                # documented third route: "or system_0 must have a neighbors attribute"
                s0.neighbors = am.NeighborList(system=s0, cutoff=rcv)
                out = am.defect.slip_vector(s0, s1)
            else:
                out = am.defect.slip_vector(s0, s1, cutoff=rcv)
        return led.add(out, what) if what else out
    if hist['decoy']:
        run_decoy(am)
        labels.add('decoy')
    # open finding KEY_SV_DTYPE: slip_vector hands the position arrays of the two systems to a Cython kernel typed
    # `const double[:,:]` as they are stored; Atoms keeps half / single precision and big-endian positions (every other tool
    # of this property converts).  The rest of the case is judged; the keyed violation is raised at the end.
    pending_sv = None
    try:
        sv = np.array(call_sv('slip_vector'))
    except ValueError as e:
        if not ((narrow0 or narrow1) and ('uffer' in str(e))):
            raise
        pending_sv = Violation('slip_vector(system_0, system_1) raises ValueError(%s) for systems whose positions are stored as %s / %s '
                               '(Atoms keeps the floating dtype it is given; displacement, NeighborList, Strain, disregistry and '
                               'DifferentialDisplacement accept the same systems)' % (str(e)[:120], s0.atoms.pos.dtype, s1.atoms.pos.dtype),
                               key=KEY_SV_DTYPE)
        sv = None
    labels.add('sv_' + case['svnbr'])
    if sv is not None:
        require(sv.shape == (N, 3), lambda: 'slip_vector returned shape %r' % (sv.shape,))
        tol = TOL * S + 64 * DR.EPS * (amax(pos1) + amax(r.pos)) * max(1, nacross.max())
        err = np.abs(sv - exp_sv).max(axis=1)
        k = int(np.argmax(err))
        require(err[k] <= tol, lambda: 'slip vector of atom %d (%s half, %d neighbours across the plane) is %r, expected %d x %r'
                % (k, 'upper' if upper[k] else 'lower', nacross[k], sv[k].tolist(), nacross[k], rel[k].tolist()))
    if (nacross == 0).any():
        labels.add('atoms_away_from_plane')
    if nacross[upper].any() and nacross[~upper].any():
        labels.add('both_halves_judged')
    # ---- disregistry
    # (a failure inside the input class of the open finding KEY_DISREG_UNIT is kept and raised at the end, so that it
    # does not hide the differential displacements and the Nye tensor of the same case)
    what_dr = 'disregistry'
    pending = None
    blocked = disreg_blocked(sd, pos0)
    try:
        with disreg_guard(blocked, S):
            cd, dr = _disreg_check(am, what_dr, s0, s1, r, sd, case['m_angle'], case['n_flip'], case['plane_ofs'], pos0, bool(forms & 2),
                                   io['adt'], led, labels)
    except Violation as v:
        if v.key != KEY_DISREG_UNIT:
            raise
        pending = v
    # ---- differential displacement
    if hist['decoy']:
        run_decoy(am)
    oc, _ = other_cutoff(xt, rc, sl['layer'], sl['frac'])
    _dd_check(am, 'DifferentialDisplacement(reference=%d, %s, construction %d)' % (case['ddref'], case['ddnbr'], lazy),
              s0, s1, r, pos1, pbc, rc, u, case['ddref'], case['ddnbr'], labels, lazy, pos0, oc, pre.get('dd'), reusable, refarg, led)
    if lazy:
        labels.add('dd_solve_later')
    if lazy >= 3:
        labels.add('dd_resolved')
    labels.add('ddref%d' % case['ddref'])
    if io['twin']:
        # class A: the same tools afterwards on another pair of systems of the SAME size (the reference against itself:
        # every result zero); what the earlier calls handed out is re-judged bit for bit at the end of the case
        with warnings.catch_warnings():
            warnings.simplefilter('ignore')
            if pending_sv is None:
                z = led.add(am.defect.slip_vector(s0, s0, cutoff=rcv), 'slip_vector(system_0, system_0)')
                require(amax(z) <= TOL * S, 'slip_vector of the reference crystal against itself is not zero')
            if pending is None:
                _, zd = _disreg_check(am, 'disregistry(system_0, system_0)', s0, s0, r, dict(sd, u_up=0.0 * sd['u_up'], u_low=0.0 * sd['u_low']),
                                      case['m_angle'], case['n_flip'], case['plane_ofs'], pos0, False, 0, led, None)
            tdd = am.defect.DifferentialDisplacement(s0, s0, cutoff=rcv, reference=0)
            led.add((tdd.ddvectors, tdd.arrowcenters, tdd.arrowuvectors), 'DifferentialDisplacement(system_0, system_0)')
            require(amax(tdd.ddvectors) <= TOL * S, 'DifferentialDisplacement of the reference crystal against itself is not zero')
        labels.add('twin')
    if hist['repeat']:
        # the same calls once more in the same process, after everything else ran on the same objects
        if sv is not None:
            sv2 = np.asarray(call_sv('slip_vector (second call)'))
            require(np.array_equal(sv2, sv), 'slip_vector() of the same two systems differs between two calls')
        if pending is None:
            cd2, dr2 = _disreg_check(am, what_dr + ' (second call)', s0, s1, r, sd, case['m_angle'], case['n_flip'], case['plane_ofs'], pos0, False,
                                     0, led, None)
            require(np.array_equal(cd2, cd) and np.array_equal(dr2, dr), 'disregistry() of the same two systems differs between two calls')
        labels.add('repeat')
    # ---- Nye tensor on a non-uniform G: class, function and -curl G must agree
    if case['nye']:
        kw = {} if case['theta'] is None else {'theta_max': case['theta']}
        with warnings.catch_warnings():
            warnings.simplefilter('ignore')
            st = am.defect.Strain(s1, cutoff=rc, basesystem=s0, **kw)
            I1, _, _, _ = pair_table(pos1, r.vects, pbc, rc)
            few = bool(np.any(np.bincount(I0, minlength=N) < 2) or np.any(np.bincount(I1, minlength=N) < 2))
            with strain_guard(False, few):
                Gg = np.array(led.add(st.G, 'Strain.G'))
            nyeC = np.array(led.add(st.nye, 'Strain.nye'))
            strC = np.array(led.add(st.strain, 'Strain.strain'))
            if few:
                out = None          # the function form needs at least one reference vector per atom
            else:
                pw = led.add_input([np.array(x, dtype=float).reshape(-1, 3) for x in st.p_vectors], 'p_vectors of nye_tensor()')
                out = led.add(am.defect.nye_tensor(s1, pw, cutoff=rc, **kw), 'nye_tensor()')
        sc = max(1.0 / S, amax(nyeC))          # 1/length
        # class and function may only be compared where the matching is not decided by a tie (see match_stable)
        if out is not None:
            band = 1e-7 * rc
            Ic, Jc, Dc, Lc = pair_table(pos1, r.vects, pbc, rc + band)
            band_hit = np.zeros(N, dtype=bool)
            band_hit[Ic[Lc >= rc - band]] = True
            per0 = group_by_atom(N, I0, J0, D0)
            per1 = group_by_atom(N, Ic, Jc, Dc)
            stab, stab_nb = stable_atoms(N, per0, per1, case['theta'], band_hit)
            nyeF = np.asarray(out['Nye_tensor'])
            err = np.abs(np.asarray(out['strain']) - strC).reshape(N, -1).max(axis=1)
            err[~stab] = 0.0
            k = int(np.argmax(err))
            require(err[k] <= 1e-8, lambda: 'strain of atom %d: Strain.strain =\n%r\nnye_tensor() =\n%r' % (k, strC[k], np.asarray(out['strain'])[k]))
            err = np.abs(nyeF - nyeC).reshape(N, -1).max(axis=1)
            err[~stab_nb] = 0.0
            k = int(np.argmax(err))
            require(err[k] <= 1e-8 * sc, lambda: 'Nye tensor of atom %d: Strain.nye =\n%r\nnye_tensor() =\n%r' % (k, nyeC[k], nyeF[k]))
            if stab_nb.any() and amax(nyeC[stab_nb]) > 1e-4 / S:
                labels.add('nye_class_vs_function')
        nl = st.neighbors
        njudged = 0
        worst = 0.0
        for i in range(N):
            js = np.asarray(nl[i], dtype=int)
            if len(js) < 3:
                continue
            q = min_image(pos1[js] - pos1[i], r.vects, pbc)
            if not rank_ok(q):
                continue
            mine = DR.curl_minus(Gg, i, js, q)
            e = amax(mine - nyeC[i])
            njudged += 1
            require(e <= 1e-8 * sc * 20, lambda: 'Nye tensor of atom %d: Strain.nye =\n%r\n-curl G from its own G and neighbours =\n%r' % (i, nyeC[i], mine))
            worst = max(worst, amax(mine))
        if njudged and worst > 1e-4 / S:
            labels.add('nye_nonuniform')
    ang = sl['angle'] % 90.0
    generic = sl['mag'] > 0 and min(ang, 90.0 - ang) > 0.5
    if generic:
        labels.add('slip_generic')
        if r.reoriented or r.twotype:
            labels.add('nt')
    if sl['cutpbc']:
        labels.add('cut_periodic')
    if not all(sl['inpbc']):
        labels.add('inplane_open')
    if np.any(shift != 0):
        labels.add('rewrapped')
    if 0.0 < sl['split'] < 1.0:
        labels.add('both_halves_move')
    led.verify(labels, 'end of the case')
    if io['scribble'] and led.scribble(labels):
        # class B: the caller overwrites every array it was handed and every array it handed in (m, n, planepos, p vectors),
        # then asks again: the answers are those of the first calls
        if sv is not None:
            require(_bits(np.asarray(call_sv())) == _bits(sv), 'slip_vector() of the same two systems differs after the caller overwrote the '
                    'arrays the earlier calls had handed out')
        if pending is None:
            cd3, dr3 = _disreg_check(am, what_dr + ' (after the caller re-used its arrays)', s0, s1, r, sd, case['m_angle'], case['n_flip'],
                                     case['plane_ofs'], pos0, bool(forms & 2), io['adt'])
            require(_bits(cd3) == _bits(cd) and _bits(dr3) == _bits(dr), 'disregistry() of the same two systems differs after the caller '
                    'overwrote the arrays it had handed in / been handed by the earlier calls')
    if pending_sv is not None:
        raise pending_sv
    if pending is not None:
        raise pending
    return labels


def slip_labels(case):
    """class E: almost no slip, a slip / an m direction almost along a special direction, a plane almost at an atomic layer"""
    labs = set()
    sl = case['slip']
    if sl['mag'] <= 1e-3:
        labs.add('tiny_slip')
    if sl['frac'] <= 1e-3 or sl['frac'] >= 1.0 - 1e-3:
        labs.add('plane_near_atoms')
    for name, ang in (('slip_near_axis', sl['angle']), ('m_near_axis', case.get('m_angle'))):
        if ang is not None:
            d = min(abs(ang - b) for b in (0.0, 45.0, 60.0, 90.0, 180.0, 270.0, 360.0))
            if 0.0 < d <= 2e-3:
                labs.add(name)
    if any(abs(x) in (1e-3, 1e-6, 1e-9, 1e-12) for x in sl['boxshift']):
        labs.add('near_face')
    if labs:
        labs.add('near_threshold')
    return labs


# ----------------------------------------------------------------------------- invariance

def _outputs(am, s0, s1, rc, theta, ddref, slipinfo, few, blocked=False, S=1.0, led=None, who=''):
    """everything the property lists, computed by atomman on one pair of systems (the values are copies taken at return
    time; the arrays handed out themselves go into the ledger)"""
    kw = {} if theta is None else {'theta_max': theta}
    out = {}
    keep = (lambda raw, name: led.add(raw, who + name)) if led is not None else (lambda raw, name: raw)
    with warnings.catch_warnings():
        warnings.simplefilter('ignore')
        out['disp'] = np.array(keep(am.displacement(s0, s1), 'displacement()'))
        st = am.defect.Strain(s1, cutoff=rc, basesystem=s0, **kw)
        with strain_guard(False, few):
            out['G'] = np.array(keep(st.G, 'Strain.G'))
        out['strain'] = np.array(keep(st.strain, 'Strain.strain'))
        out['rotation'] = np.array(keep(st.rotation, 'Strain.rotation'))
        out['inv'] = np.stack([keep(st.invariant1, 'Strain.invariant1'), keep(st.invariant2, 'Strain.invariant2'),
                               keep(st.invariant3, 'Strain.invariant3'), keep(st.angularvelocity, 'Strain.angularvelocity')], axis=1)
        out['nye'] = np.array(keep(st.nye, 'Strain.nye'))
        dd = am.defect.DifferentialDisplacement(s0, s1, cutoff=rc, reference=ddref)
        I, J = nlist_pairs(dd.neighbors, s0.natoms)
        out['dd'] = (I, J, np.array(keep(dd.ddvectors, 'DifferentialDisplacement.ddvectors')))
        keep((dd.arrowcenters, dd.arrowuvectors), 'DifferentialDisplacement arrows')
        if slipinfo is not None:
            try:
                out['slip'] = np.array(keep(am.defect.slip_vector(s0, s1, cutoff=rc), 'slip_vector()'))
            except ValueError as e:
                if not ('uffer' in str(e) and (s0.atoms.pos.dtype != np.dtype(float) or s1.atoms.pos.dtype != np.dtype(float))):
                    raise
                out['slip'] = None
                out['pending_sv'] = Violation('slip_vector(system_0, system_1) raises ValueError(%s) for systems whose positions are stored as '
                                              '%s / %s' % (str(e)[:120], s0.atoms.pos.dtype, s1.atoms.pos.dtype), key=KEY_SV_DTYPE)
            m, n, pp = slipinfo
            try:
                with disreg_guard(blocked, S):
                    c, d = keep(am.defect.disregistry(s0, s1, m=m, n=n, planepos=pp), 'disregistry()')
                out['disreg'] = (np.array(c), np.array(d))
            except Violation as v:
                if v.key != KEY_DISREG_UNIT:
                    raise
                out['disreg'] = None
                out['pending'] = v
    return out


def oracle_invariance(case):
    import atomman as am
    cfg = case['config']
    labels = {'cfg_' + cfg}
    xt, S = unit_xtal(case, labels)
    if cfg == 'F':
        pbc = [bool(x) for x in case['pbc']]
        rc, dnn, kgap, _ = choose_cutoff(xt, case['shells'], 0.045, 1.12, True)
        F, hasrot, hasE = gradient(case['F'])
        dF = np.linalg.norm(F - I3, 2)
        r = build_ref(xt, 2.2 * 1.04 * (rc * (1 + dF) + 0.05 * dnn))
        pos1, vects1, origin1, u, shift = deform(r, F, case['move'], pbc)
        slipinfo = None
        Fmap = F
    else:
        rc, dnn, kgap, _ = choose_cutoff(xt, case['shells'], 0.01, 1.05, False)
        r = build_ref(xt, 2.2 * (rc + 0.45 * dnn))
        sd = slip_setup(r, case['slip'], dnn)
        pbc = sd['pbc']
        pos1, origin1, shift = slipped(r, sd, case['slip'])
        vects1 = r.vects
        a = math.radians(case['m_angle'])
        m = math.cos(a) * sd['x1'] + math.sin(a) * sd['x2']
        n = -sd['nrm'] if case['n_flip'] else sd['nrm']
        pp = r.origin + sd['mid'] * sd['nrm'] + (case['plane_ofs'][0] * S) * sd['x1'] + (case['plane_ofs'][1] * S) * sd['x2']
        slipinfo = (m, n, pp)
        Fmap = I3
    labels |= xtal_labels(r)
    N = r.natoms
    # the first pair of System objects has been used before (earlier queries, stale 'neighbors' attributes, other
    # systems analysed in between); the transformed pair is fresh
    io = case.get('io') or NOIO
    led = Ledger()
    hist = dict(case.get('hist') or NOHIST, io=io)
    labels |= gradient_labels(case['F']) if cfg == 'F' else slip_labels(case)
    s0, _, _ = make_reference(am, hist, r, pbc, xt, rc, labels, False)
    s1, _, _ = make_current(am, dict(hist, build1=None), r, None, pos1, vects1, origin1, pbc, xt, rc, labels, False)
    storage_labels(s0, labels, 0)
    storage_labels(s1, labels, 1)
    if hist['decoy']:
        run_decoy(am)
        labels.add('decoy')
    # the transformed pair: renumber both alike, translate both by the same vector; 'origin': the cells move with
    # the atoms; 'wrap': the cells stay and the atoms are wrapped back (periodic axes only; for a slipped crystal
    # only in-plane, so that the two planes adjoining the slip plane stay the same atoms); 'both': cells move by one
    # vector, atoms by another, then wrapped
    perm = DR.permutation(N, case['perm2'])
    t_o = np.array(case['t2'], dtype=float) * S
    w = np.array(case['w2'], dtype=float)
    wmask = np.array(pbc, dtype=float)
    if cfg == 'slip':
        wmask[sd['cut']] = 0.0
    tm = case['tmode']
    t_cell = t_o if tm in ('origin', 'both') else np.zeros(3)
    t_at0 = t_cell + ((w * wmask) @ r.vects if tm in ('wrap', 'both') else 0.0)
    # a common translation t of the reference is F t of the deformed crystal's own frame only for cfg 'F' if the
    # deformation is kept as the same map x -> F x + c; "translated together" = same vector for both systems
    t_at1 = t_at0
    p0 = r.pos + t_at0
    p1 = pos1 + t_at1
    o0 = r.origin + t_cell
    o1 = origin1 + t_cell
    wpbc = [bool(x) for x in wmask]          # a slipped crystal is not re-wrapped along the cut axis (the halves are
    #                                          defined by position along it)
    p0, _ = DR.wrap(p0, r.vects, o0, wpbc) if tm != 'origin' else (p0, None)
    p1, _ = DR.wrap(p1, vects1, o1, wpbc) if tm != 'origin' else (p1, None)
    s0b = mk_system(p0[perm], r.atype[perm], r.vects, o0, pbc)
    s1b = mk_system(p1[perm], r.atype[perm], vects1, o1, pbc)
    if not all(box_kept(s, v, o) for s, v, o in ((s0, r.vects, r.origin), (s1, vects1, origin1), (s0b, r.vects, o0), (s1b, vects1, o1))):
        return labels | {'box_zeroed_skip'}
    slipinfo_b = None
    if slipinfo is not None:
        slipinfo_b = (slipinfo[0], slipinfo[1], slipinfo[2] + t_at0)
    # which atoms have a result that is determined stably (not by the treatment of a rank-deficient least-squares
    # problem or by a theta_max decision at rounding level): neighbour set spans 3-D, every current neighbour vector
    # is matched to its own reference vector with half a degree to spare
    I0, J0, D0, _ = pair_table(r.pos, r.vects, pbc, rc)
    per = group_by_atom(N, I0, J0, D0)
    if cfg == 'F':
        stable = np.array([rank_ok(v) for _, v in per])
        stable_nb = np.array([stable[i] and bool(np.all(stable[js])) for i, (js, _) in enumerate(per)])
    else:
        band = 1e-7 * rc
        Ib, Jb, Db, Lb = pair_table(pos1, vects1, pbc, rc + band)
        band_hit = np.zeros(N, dtype=bool)
        band_hit[Ib[Lb >= rc - band]] = True
        stable, stable_nb = stable_atoms(N, per, group_by_atom(N, Ib, Jb, Db), case['theta'], band_hit)
    Ic, _, _, _ = pair_table(pos1, vects1, pbc, rc)
    few = bool(np.any(np.bincount(I0, minlength=N) < 2) or np.any(np.bincount(Ic, minlength=N) < 2))
    blocked = slipinfo is not None and disreg_blocked(sd, r.pos, p0)
    for nm, sx in (('system_0', s0), ('system_1', s1), ('transformed system_0', s0b), ('transformed system_1', s1b)):
        led.add_system(sx, nm)
    for x in (slipinfo or ()) + (slipinfo_b or ()):
        led.add_input(x, 'm / n / planepos of disregistry()')
    # class A: everything the first pair's calls handed out is kept and re-judged bit for bit after the same tools ran on
    # the transformed pair (same number of atoms, same array shapes) - and the other way round when io.twin
    first, second = ((s0, s1, slipinfo, 'first pair: '), (s0b, s1b, slipinfo_b, 'transformed pair: '))
    A = _outputs(am, first[0], first[1], rc, case['theta'], case['ddref'], first[2], few, blocked, S, led, first[3])
    if io['twin']:
        run_decoy(am)
        labels.add('twin')
    B = _outputs(am, second[0], second[1], rc, case['theta'], case['ddref'], second[2], few, blocked, S, led, second[3])
    led.verify(labels, 'after the tools ran on the transformed pair of systems')
    scale = amax(p0) + amax(p1) + amax(r.pos) + amax(pos1)
    tol = 1e-8 * S + 256 * DR.EPS * scale                 # lengths
    tolD = tol / S                                        # dimensionless tensors; Nye (1/length): tolD / S
    what = 'after renumbering and translating both systems (%s)' % tm
    allat = np.ones(N, dtype=bool)
    # displacement() / disregistry() compare the 27 images within one cell of pos1 - pos0 (C02): only atoms whose two
    # copies are at most one cell apart in both pairs of systems are compared
    if slipinfo is not None:
        inv1 = np.linalg.inv(vects1)
        kA = np.rint(((pos1 - r.pos) - sd['u']) @ inv1)
        kB = np.rint(((p1 - p0) - sd['u']) @ inv1)
        near = (np.abs(kA).max(axis=1) <= 1) & (np.abs(kB).max(axis=1) <= 1)
    else:
        near = allat
    keys = [('G', stable), ('strain', stable), ('rotation', stable), ('inv', stable), ('nye', stable_nb)]
    if slipinfo is not None:
        keys += ([('slip', allat)] if A['slip'] is not None else []) + [('disp', near)]
    elif tm == 'origin':
        # under a homogeneous deformation the displacement field is not lattice periodic: moving a reference atom by a
        # cell vector changes its imposed displacement, so displacement() is only compared when nothing is re-wrapped
        keys += [('disp', allat)]
    # new atom k is old atom perm[k]
    for key, msk in keys:
        a, b = A[key], B[key]
        require(a.shape == b.shape, lambda: '%s: %s changed shape %r -> %r' % (what, key, a.shape, b.shape))
        if key in ('slip', 'disp'):
            tk = tol
        elif key == 'nye':
            tk = tolD * (max(1.0 / S, amax(a[msk])) if msk.any() else 1.0 / S)
        else:
            tk = tolD
        err = np.abs(b - a[perm]).reshape(N, -1).max(axis=1)
        err[~msk[perm]] = 0.0
        k = int(np.argmax(err))
        require(err[k] <= tk, lambda: '%s: %s of atom %d (was atom %d) changed by %.3g:\n%r\n->\n%r'
                % (what, key, k, perm[k], err[k], a[perm[k]], b[k]))
    if stable.any():
        labels.add('strain_compared')
    if stable_nb.any():
        labels.add('nye_compared')
    Ia, Ja, da = A['dd']
    Ib, Jb, db = B['dd']
    # pair (i, j) of the new numbering is pair (perm[i], perm[j]) of the old
    ka = (Ia * N + Ja)
    kb = (perm[Ib] * N + perm[Jb])
    require(len(ka) == len(kb) and set(ka.tolist()) == set(kb.tolist()), lambda: '%s: DifferentialDisplacement lists a different set of pairs (%d -> %d)' % (what, len(ka), len(kb)))
    oa, ob = np.argsort(ka, kind='stable'), np.argsort(kb, kind='stable')
    if len(ka):
        err = np.abs(da[oa] - db[ob]).max(axis=1)
        k = int(np.argmax(err))
        require(err[k] <= tol, lambda: '%s: ddvector of pair %r changed: %r -> %r' % (what, divmod(int(ka[oa][k]), N), da[oa][k].tolist(), db[ob][k].tolist()))
    if slipinfo is not None and not near.all():
        labels.add('disreg_not_compared')
    pending = A.get('pending') or B.get('pending')
    if slipinfo is not None and near.all() and pending is None:
        ca, dra = A['disreg']
        cb, drb = B['disreg']
        if tm == 'origin':
            # the coordinates move with the crystal; after re-wrapping atoms sit at other (equivalent) places, so there
            # only the values are compared
            shiftc = float(t_at0 @ slipinfo[0])
            d1 = np.abs((ca + shiftc)[:, None] - cb[None, :])
            require(d1.min(axis=1).max() <= tol * 10 and d1.min(axis=0).max() <= tol * 10,
                    lambda: '%s: disregistry coordinates changed (other than by m.t = %.6g): %r -> %r' % (what, shiftc, ca[:6].tolist(), cb[:6].tolist()))
            j = d1.argmin(axis=1)
            err = np.abs(dra - drb[j]).max(axis=1)
            k = int(np.argmax(err))
            require(err[k] <= tol, lambda: '%s: disregistry at coordinate %.6g changed: %r -> %r' % (what, ca[k], dra[k].tolist(), drb[j[k]].tolist()))
        else:
            require(len(cb) > 0 and len(ca) > 0, lambda: '%s: disregistry returned no coordinate' % what)
            lo, hi = dra.min(axis=0), dra.max(axis=0)
            require(np.all(drb >= lo - tol) and np.all(drb <= hi + tol),
                    lambda: '%s: disregistry values changed: before within [%r, %r], after %r' % (what, lo.tolist(), hi.tolist(), drb[:3].tolist()))
    labels.add('tmode_' + tm)
    if case['perm2']:
        labels.add('renumbered')
    if tm != 'origin' and (amax(p0 - (r.pos + t_at0)) > 0 or amax(p1 - (pos1 + t_at1)) > 0):
        labels.add('rewrapped')
    if case['perm2'] and (amax(t_at0) > 0 or amax(t_cell) > 0):
        labels.add('nt')
    if A.get('pending_sv') is not None:
        raise A['pending_sv']
    if pending is not None:
        raise pending
    return labels


# ----------------------------------------------------------------------------- enumerated option combinations

def oracle_options(case):
    """class H: one entry of the enumerated product of options that touch the same state (gens_c17.option_cases), judged by
    the oracle of the clause it belongs to"""
    kind = case['kind']
    labels = set({'displacement': oracle_displacement, 'strain': oracle_strain, 'slip': oracle_slip}[kind](case['case']))
    labels.add('opt_' + kind)
    return labels


CLAUSES = [
    Clause('displacement', oracle_displacement, G17.displacement_cases, quick=1200, thorough=22000,
           min_share={'nt': 0.3, 'rewrapped': 0.39, 'direct': 0.25, 'box_differs': 0.08, 'searched': 0.05,
                      'queried0': 0.35, 'queried1': 0.35, 'q_other_shells': 0.13, 'inplace_built': 0.22, 'ref_inplace_built': 0.11,
                      'cur_inplace_built': 0.16, 'decoy': 0.15, 'repeat': 0.18, 'int_pos': 0.008,
                      'unit_1': 0.14, 'unit_small': 0.14, 'unit_si': 0.07, 'unit_large': 0.03,
                      # cross-pollinated classes (half of the smallest share seen at seeds 1-4, less for the small ones)
                      'ledger': 0.49, 'ledger_same_shape': 0.49, 'twin': 0.095, 'scribbled': 0.17, 'stored_narrow': 0.075,
                      'stored_narrow_both': 0.045, 'stored_f4': 0.035, 'at_dtype_limit': 0.015,
                      'tiny_u': 0.035, 'near_face': 0.1, 'decades': 0.06, 'sperm': 0.11, 'vperm': 0.2, 'lefthanded': 0.1,
                      'structured_cell': 0.28},
           desc='displacement() = imposed displacement through the periodic boundaries (homogeneous F with deformed cell, rigid slip, '
                'random per-atom vectors up to 0.45 cell widths, translations by several cells), every box_reference setting, on '
                'System objects that were queried before and / or brought to their state in place'),
    Clause('strain', oracle_strain, G17.strain_cases, quick=940, thorough=15000,
           min_share={'nt': 0.15, 'F_both': 0.2, 'subset_dup': 0.06, 'wrapper': 0.1, 'surface': 0.15, 'axes_given': 0.08,
                      'nbr_neighbors': 0.1, 'twotype': 0.15, 'theta_given': 0.15,
                      'queried0': 0.35, 'queried1': 0.35, 'q_other_shells': 0.25, 'am_wrapped': 0.07, 'strain_resolved': 0.2,
                      'sh_inplace': 0.1, 'sh_pvec': 0.04, 'rs_solve': 0.07, 'derived_read_before': 0.2, 'derived_read_first': 0.4,
                      'stage0_judged': 0.10, 'dd_resolved': 0.22, 'nbr_attr': 0.1,
                      'unit_1': 0.14, 'unit_small': 0.14, 'unit_si': 0.07, 'unit_large': 0.03,
                      # cross-pollinated classes (cases in the class of the open finding KEY_PV_VIEW carry no labels)
                      'ledger': 0.48, 'ledger_same_shape': 0.48, 'twin': 0.12, 'pv_reused': 0.05, 'stored_narrow': 0.03,
                      'cutoff_f32': 0.08, 'theta_npscalar': 0.055, 'ref_scalar': 0.085, 'at_dtype_limit': 0.015,
                      'near_identity': 0.08, 'tiny_E': 0.065, 'tiny_R': 0.064, 'near_face': 0.12,
                      'sperm': 0.13, 'vperm': 0.25, 'lefthanded': 0.14, 'F_struct': 0.085},
           desc='homogeneous F: Strain.G = F^-T at every atom with a 3-D neighbour set, strain/rotation/invariants/angular velocity, '
                'zero Nye tensor, asdict, save_to_system, nye_tensor() function, (F-I).d0 differential displacements; for fresh '
                'objects and for Strain / DifferentialDisplacement objects in their second state (solved, read, changed, solved again)'),
    Clause('slip', oracle_slip, G17.slip_cases, quick=880, thorough=15000,
           min_share={'nt': 0.15, 'slip_generic': 0.2, 'nye_class_vs_function': 0.1, 'nye_nonuniform': 0.12, 'cut_periodic': 0.1,
                      'inplane_open': 0.1, 'ddref1': 0.15, 'both_halves_move': 0.2,
                      'queried0': 0.33, 'queried1': 0.33, 'q_other_shells': 0.22, 'q_r0': 0.07, 'inplace_built': 0.22,
                      'ref_inplace_built': 0.11, 'cur_inplace_built': 0.15, 'decoy': 0.15, 'repeat': 0.18, 'dd_resolved': 0.18,
                      'sv_attr': 0.07, 'int_pos': 0.008,
                      # (no guard on 'unit_si' here and below: on the unchanged code those cases end in the open finding
                      # KEY_DISREG_UNIT - after slip vector, differential displacements and Nye tensor were judged - and
                      # cases excluded by an open finding carry no labels)
                      'unit_1': 0.14, 'unit_small': 0.12, 'unit_large': 0.03,
                      # cross-pollinated classes (no guard on 'stored_narrow': on the unchanged code every such case ends in the
                      # open finding KEY_SV_DTYPE, after everything else was judged, and carries no labels)
                      'ledger': 0.5, 'ledger_same_shape': 0.5, 'twin': 0.11, 'scribbled': 0.17, 'cutoff_f32': 0.07, 'ref_scalar': 0.075,
                      'arg_spelled': 0.12,          # (the six spellings arg_form1-6 are 2-11 % each: too small for guards of their own)
                      'tiny_slip': 0.07, 'plane_near_atoms': 0.2, 'm_near_axis': 0.04, 'slip_near_axis': 0.04, 'near_face': 0.11,
                      'sperm': 0.12, 'vperm': 0.18, 'lefthanded': 0.1},
           desc='rigid slip: slip_vector = n_across x relative displacement of the own half, disregistry = slip at every coordinate, '
                'ddvectors = u_j - u_i per listed pair (both references), Nye tensor of class / function / own curl agree; on System '
                'objects with earlier neighbour-list queries / stale neighbors attributes / in-place construction, repeated calls'),
    Clause('invariance', oracle_invariance, G17.invariance_cases, quick=580, thorough=8500,
           min_share={'nt': 0.25, 'cfg_slip': 0.2, 'cfg_F': 0.2, 'nye_compared': 0.49, 'rewrapped': 0.2,
                      'queried0': 0.3, 'queried1': 0.29, 'q_other_shells': 0.23, 'decoy': 0.16,
                      'unit_1': 0.14, 'unit_small': 0.14, 'unit_large': 0.03,
                      # cross-pollinated classes
                      'ledger': 0.49, 'ledger_same_shape': 0.49, 'twin': 0.12, 'near_threshold': 0.15, 'near_identity': 0.025,
                      'sperm': 0.12, 'vperm': 0.2, 'lefthanded': 0.11, 'structured_cell': 0.28},
           desc='all results unchanged (per-atom arrays permuted, pair list mapped) under a common translation with or without '
                're-wrapping and a consistent renumbering; the first pair of objects has been used before, the second is fresh'),
    Clause('options', oracle_options, enumerate=G17.option_cases, quick=652, thorough=2664,
           min_share={'nt': 0.4, 'opt_strain': 0.2, 'opt_slip': 0.1, 'opt_displacement': 0.15},
           desc='enumerated (not sampled) combinations of the options that touch the same state, on fixed small crystals, judged by the '
                'oracles of the three clauses above: form of p_vectors x axes x neighbour-list route x second life of the Strain object; '
                'earlier state x property read in it x way of recomputing x first property read afterwards; every ordered pair of '
                'properties read first; slip_vector route x stale neighbors attributes; DifferentialDisplacement reference x list route x '
                'construction route x in-place history; cut axis x periodicity flags; box_reference x periodicity of either system'),
]
