"""C19 - A LAMMPS log is read back run by run, column by column, value by value."""
import io
import math
import os
import tempfile

import numpy as np
from hypothesis import strategies as st

from ..core import Clause, Violation, require
from ..oracles import lammps_log as L

RULE = ("logs synthesised from the documented LAMMPS output layout (pbt/oracles/lammps_log.py): optional version banner "
        "(with or without '- Update n'), echoed command/info lines and blank or whitespace-only lines, 0-5 run/minimize "
        "blocks with either memory-usage banner, thermo header of 2-8 keywords always starting with Step (ints, %g/%f/%e "
        "floats, negative and exponent forms, occasional nan/inf), 1-12 rows, 'Loop time of' footer, new-style / old-style / "
        "no timing breakdown, Nlocal tail, minimisation statistics; step windows per run continuing (boundary step printed "
        "twice), overlapping by several thermo rows, or disjoint after a forward reset_timestep; final block optionally cut "
        "at a line boundary (0..n-1 rows kept).  Given as text, path or binary stream.  Histories: Log(), Log(x), "
        "read(x, append=True|False) sequences of 1-4 logs.  Non-trivial: >=2 runs with different column sets or an "
        "overlapping step, or a truncated final block, or a history with append=False after an append")
ASSUMPTIONS = ["pandas float parsing is correct to 1e-12 relative", "Python int()/float() give the value of a printed token",
               "a run block cut before its thermo header line is outside the clause 'final block cut short' (at least the header line survives)"]
LEVEL_TEXT = ("synthesised LAMMPS logs (all banner/memory/timing layouts, arbitrary thermo keyword sets, overlapping and disjoint "
              "step windows, truncated final block, text/path/stream input) parsed by atomman.lammps.Log and compared run by run, "
              "column by column, value by value with the synthesiser's record; flatten('first'|'last'|'all', slices) against a "
              "step-keyed reference merge; read(append) histories against a list model")
TECHNIQUE = "reference-model oracle: independent log synthesiser + expected tables; history clause against a list model"
WALL = {'quick': 70, 'thorough': 600}

K_PANDAS = 'C19:pandas:delim_whitespace'
K_APPEND = 'C19:pandas:dataframe-append'
K_NOTIMING = 'C19:performance:nlocal-without-breakdown'

KEYWORDS = ['Temp', 'E_pair', 'E_mol', 'TotEng', 'Press', 'PotEng', 'KinEng', 'Volume', 'Lx', 'Ly', 'Lz', 'Atoms', 'Pxx', 'Pxy',
            'c_pe', 'c_st[1]', 'v_strain', 'f_avg[2]', 'Time', 'CPU', 'Fnorm', 'Fmax', 'Density', 'v_N', 'Elapsed']
INTCOLS = {'Atoms', 'v_N', 'Elapsed'}


# ----------------------------------------------------------------------------- generator

def _tok(rng, name):
    if name in INTCOLS:
        return str(int(rng.integers(-5, 100000)))
    k = int(rng.integers(0, 14))
    x = float(rng.normal()) * 10.0 ** int(rng.integers(-6, 7))
    if k <= 4:
        return '%.8g' % x
    if k <= 6:
        return '%.6f' % x
    if k <= 8:
        return '%.13e' % x
    if k == 9:
        return '0'
    if k == 10:
        return '%d' % int(rng.integers(-1000, 1000))       # an integer-looking value in a float column
    if k == 11:
        return '%.4e' % (x * 1e-300 if rng.integers(0, 2) else x * 1e200)
    if k == 12:
        return ['nan', '-nan', 'inf', '-inf'][int(rng.integers(0, 4))] if rng.integers(0, 4) == 0 else '%.10g' % x
    return '-%.5g' % abs(x)


@st.composite
def logs(draw, max_runs=5, allow_empty=True):
    nruns = draw(st.integers(0 if allow_empty else 1, max_runs))
    mem = draw(st.sampled_from(['new', 'new', 'old']))
    timing = draw(st.sampled_from(['new', 'new', 'old', 'none']))
    banner = None
    if draw(st.integers(0, 7)) != 0:
        banner = {'day': draw(st.integers(1, 28)), 'mon': draw(st.sampled_from(L.MONTHS)), 'year': draw(st.integers(2004, 2026)),
                  'update': draw(st.sampled_from([None, None, 1, 3, 'Development', 'Maintenance']))}
    echo = st.lists(st.integers(-4, len(L.ECHO) - 1), max_size=6)
    pre = draw(echo)
    runs = []
    step = draw(st.sampled_from([0, 0, 0, 100, 5000, 123456, 3000000000, 2 ** 53 + 1]))   # LAMMPS timesteps are 64-bit ('bigint')
    seed = draw(st.integers(0, 2 ** 32 - 1))
    rng = np.random.default_rng(seed)
    samecols = draw(st.booleans())
    cols0 = None
    for r in range(nruns):
        if samecols and cols0 is not None:
            cols = cols0
        else:
            cols = ['Step'] + draw(st.lists(st.sampled_from(KEYWORDS), min_size=1, max_size=7, unique=True))
            cols0 = cols
        nrows = draw(st.integers(1, 12)) if draw(st.integers(0, 29)) else draw(st.integers(40, 200))
        every = draw(st.sampled_from([1, 10, 100, 250]))
        rel = draw(st.sampled_from(['continue', 'continue', 'continue', 'overlap', 'overlap', 'disjoint', 'disjoint', 'same', 'same', 'backward'])) if r else 'start'
        if r:
            prev = runs[-1]['rows']
            p0, p1 = int(prev[0][0]), int(prev[-1][0])
            if rel == 'continue':
                step = p1
            elif rel == 'overlap':              # restart a few thermo rows before the end of the previous run (read_restart of an earlier snapshot)
                back = draw(st.integers(1, max(1, len(prev) - 1)))
                step = int(prev[max(0, len(prev) - 1 - back)][0]) if len(prev) > 1 else p1
                every = runs[-1]['every']
                nrows = max(nrows, back + 1 + draw(st.integers(0, 3)))   # window end does not precede the previous window end
            elif rel == 'backward':            # reset_timestep to an earlier step: window may end before the previous one ends
                step = max(0, p0 - draw(st.sampled_from([0, 1, 500]))) if draw(st.booleans()) else int(prev[len(prev) // 2][0])
            elif rel == 'disjoint':
                step = p1 + draw(st.sampled_from([1, 7, 1000]))
            else:                                # 'same': "run 0" repeated: the very same step printed again
                step = p1
                nrows = 1
        rows = []
        for i in range(nrows):
            rows.append([str(step + i * every)] + [_tok(rng, c) for c in cols[1:]])
        runs.append({'kind': draw(st.sampled_from(['run', 'run', 'minimize'])), 'mem': mem, 'cols': cols, 'rows': rows,
                     'timing': timing, 'nlocal': True, 'blank': draw(st.lists(st.integers(0, 3), max_size=2)),
                     'echo': draw(echo) if r else [], 'every': every, 'rel': rel})
    truncate = None
    if nruns and draw(st.integers(0, 3)) == 0:
        nlast = len(runs[-1]['rows'])
        truncate = 0 if (nlast == 1 or draw(st.integers(0, 3)) == 0) else draw(st.integers(1, nlast - 1))
    return {'banner': banner, 'pre': pre, 'runs': runs, 'truncate': truncate, 'seed': seed}


@st.composite
def parse_cases(draw):
    return {'log': draw(logs()), 'input': draw(st.sampled_from(['text', 'text', 'path', 'stream', 'bytesio', 'pathlib', 'bytes'])),
            'flat': draw(st.sampled_from(['first', 'last', 'all'])), 'sl': [draw(st.integers(0, 2)), draw(st.integers(0, 2))],
            'eol': draw(st.sampled_from(['lf', 'lf', 'lf', 'crlf'])), 'scribble': draw(st.sampled_from(['drop', 'overwrite', 'newcol']))}


@st.composite
def history_cases(draw):
    n = draw(st.integers(1, 4))
    ops = []
    for i in range(n):
        ops.append({'log': draw(logs(max_runs=3)), 'append': draw(st.sampled_from([True, True, False])),
                    'ctor': draw(st.booleans()) if i == 0 else False,
                    'input': draw(st.sampled_from(['text', 'path', 'stream'])),
                    'kw': draw(st.booleans())})
    return {'ops': ops}


# ----------------------------------------------------------------------------- oracle helpers

def _value(tok):
    try:
        return int(tok), True
    except ValueError:
        return float(tok), False


def _same(got, tok):
    exp, isint = _value(tok)
    if isint and isinstance(got, (int, np.integer)):
        return int(got) == exp              # exact, also beyond 2**53
    try:
        g = float(got)
    except (TypeError, ValueError):
        return False
    if isint:
        return g == float(exp)
    if math.isnan(exp):
        return math.isnan(g)
    if math.isinf(exp):
        return g == exp
    return abs(g - exp) <= 1e-12 * abs(exp) + 5e-324


def _check_table(df, exp_run, what):
    import pandas as pd
    require(isinstance(df, pd.DataFrame), lambda: '%s: thermo is %r, not a DataFrame' % (what, type(df)))
    cols = [str(c) for c in df.columns]
    require(cols == exp_run['cols'], lambda: '%s: column names %r, printed %r' % (what, cols, exp_run['cols']))
    require(len(df) == len(exp_run['rows']), lambda: '%s: %d rows read, %d printed (first steps read %r)' % (
        what, len(df), len(exp_run['rows']), df.iloc[:3, 0].tolist() if len(df) else []))
    vals = df.to_numpy()
    for i, row in enumerate(exp_run['rows']):
        for j, tok in enumerate(row):
            if not _same(vals[i, j], tok):
                raise Violation('%s: row %d column %s read as %r, printed %s' % (what, i, exp_run['cols'][j], vals[i, j], tok))


def _feed(kind, text, tmpdir):
    """returns (argument, closer)"""
    if kind == 'text':
        return text, lambda: None
    if kind == 'bytesio':
        return io.BytesIO(text.encode()), lambda: None
    if kind == 'bytes':
        return text.encode(), lambda: None
    path = os.path.join(tmpdir, 'log.lammps')
    with open(path, 'w', newline='') as f:
        f.write(text)
    if kind == 'path':
        return path, lambda: None
    if kind == 'pathlib':
        import pathlib
        return pathlib.Path(path), lambda: None
    fh = open(path, 'rb')
    return fh, fh.close


def _guard_known(e, text):
    """map the two pandas-3 incompatibilities and the unmatched-Nlocal crash to their keys"""
    msg = str(e)
    if isinstance(e, TypeError) and 'delim_whitespace' in msg:
        return K_PANDAS
    if isinstance(e, AttributeError) and "'DataFrame' object has no attribute 'append'" in msg:
        return K_APPEND
    return None


def _read(am_log_ctor, arg, text):
    try:
        return am_log_ctor(arg)
    except (TypeError, AttributeError) as e:
        k = _guard_known(e, text)
        if k:
            raise Violation('reading a well-formed log raised %s: %s' % (type(e).__name__, str(e)[:200]), k)
        raise


def _expected_flat(runs, style):
    """reference merge keyed by step; returns list of (step, {col: token}) in ascending step order, or in file order for 'all'"""
    if style == 'all':
        return [(int(r[0]), dict(zip(run['cols'], r))) for run in runs for r in run['rows']]
    table = {}
    for run in runs:
        for r in run['rows']:
            s = int(r[0])
            if style == 'first' and s in table:
                continue
            table[s] = dict(zip(run['cols'], r))
    return [(s, table[s]) for s in sorted(table)]


def _unambiguous(runs):
    """'first'/'last' have one reading only if consecutive non-empty runs have windows ordered in start and in end and print
    the same steps where their windows overlap (otherwise "the latest run containing the step" and "the latest run covering
    the step's window" differ: atomman implements the latter; the property does not decide) -> such merges are not judged"""
    prev = None
    for run in runs:
        if not run['rows']:
            continue
        cur = [int(r[0]) for r in run['rows']]
        if prev is not None:
            if cur[0] < prev[0] or cur[-1] < prev[-1]:
                return False
            if sorted(x for x in prev if x >= cur[0]) != sorted(x for x in cur if x <= prev[-1]):
                return False
        prev = cur
    return True


def _check_flat(log, exp_runs, style, first, last, labels):
    sel = exp_runs[first:last]
    if not sel:
        return
    if style != 'all' and not _unambiguous(sel):
        # both readings agree on this much: every printed timestep at most once, ascending or not, nothing invented,
        # and each row carries the values some selected run printed for that step
        labels.add('flat_ambiguous_weak')
        kw = {}
        if first is not None:
            kw['firstindex'] = first
        if last is not None:
            kw['lastindex'] = last
        df = log.flatten(style, **kw).thermo
        steps = [int(x) for x in df['Step'].tolist()] if len(df) else []
        what = 'flatten(%r, %r, %r)' % (style, first, last)
        require(len(set(steps)) == len(steps), lambda: '%s: a timestep appears more than once: %r (runs have steps %r)' % (
            what, steps, [[int(r[0]) for r in run['rows']] for run in sel]))
        printed = {}
        for run in sel:
            for r in run['rows']:
                printed.setdefault(int(r[0]), []).append(dict(zip(run['cols'], r)))
        require(set(steps) <= set(printed), lambda: '%s: steps %r were never printed' % (what, sorted(set(steps) - set(printed))))
        for i, s_ in enumerate(steps):
            ok = False
            for rec in printed[s_]:
                if all(_same(df[c].iloc[i], t) for c, t in rec.items() if c in df.columns):
                    ok = True
                    break
            require(ok, lambda: '%s: the row for step %d matches no run that printed it' % (what, s_))
        return
    kw = {}
    if first is not None:
        kw['firstindex'] = first
    if last is not None:
        kw['lastindex'] = last
    # a selected run whose block was cut before its first data row contributes no timestep
    sim = log.flatten(style, **kw)
    df = sim.thermo
    expect = _expected_flat(sel, style)
    what = 'flatten(%r, %r, %r)' % (style, first, last)
    allcols = []
    for run in sel:
        for c in run['cols']:
            if c not in allcols:
                allcols.append(c)
    got_cols = [str(c) for c in df.columns]
    needcols = []
    for run in sel:
        if run['rows']:
            needcols += [c for c in run['cols'] if c not in needcols]
    # columns of a block without any data row need not survive the merge
    require(set(needcols) <= set(got_cols) <= set(allcols) and len(set(got_cols)) == len(got_cols),
            lambda: '%s: columns %r, expected the union %r' % (what, got_cols, needcols))
    allcols = [c for c in allcols if c in got_cols]
    steps = [int(s) for s in df['Step'].tolist()] if len(df) else []
    require(steps == [s for s, _ in expect], lambda: '%s: steps %r, expected %r (runs have steps %r)' % (
        what, steps, [s for s, _ in expect], [[int(r[0]) for r in run['rows']] for run in sel]))
    for i, (s, rec) in enumerate(expect):
        for c in allcols:
            g = df[c].iloc[i]
            if c in rec:
                if not _same(g, rec[c]):
                    raise Violation('%s: step %d column %s is %r, expected printed value %s' % (what, s, c, g, rec[c]))
            else:
                require(g is None or (isinstance(g, float) and math.isnan(g)) or g != g,
                        lambda: '%s: step %d column %s (not printed in the run supplying that step) is %r, expected missing' % (what, s, c, g))
    labels.add('flat_' + style)


def _log_labels(lc, labels):
    runs = lc['runs']
    labels.add('runs%d' % min(len(runs), 3))
    if lc['truncate'] is not None:
        labels.update({'truncated', 'nt'})
        if lc['truncate'] == 0:
            labels.add('truncated_norows')
    if len(runs) >= 2:
        if any(runs[i]['cols'] != runs[i + 1]['cols'] for i in range(len(runs) - 1)):
            labels.update({'colsets_differ', 'nt'})
        if any(r['rel'] in ('continue', 'overlap', 'same', 'backward') for r in runs[1:]):
            labels.update({'overlap', 'nt'})
    if runs:
        labels.add('timing_' + runs[0]['timing']); labels.add('mem_' + runs[0]['mem'])
    if lc['banner'] is None:
        labels.add('nobanner')


def _check_log_object(log, exp, what):
    import datetime
    sims = log.simulations
    require(len(sims) == len(exp['runs']), lambda: '%s: %d simulations read, %d run/minimize blocks printed' % (what, len(sims), len(exp['runs'])))
    for i, (sim, er) in enumerate(zip(sims, exp['runs'])):
        _check_table(sim.thermo, er, '%s simulation %d' % (what, i))
    require(log.lammps_version == exp['version'], lambda: '%s: lammps_version %r, banner says %r' % (what, log.lammps_version, exp['version']))
    ed = datetime.date(*exp['date']) if exp['date'] else None
    require(log.lammps_date == ed, lambda: '%s: lammps_date %r, banner date %r' % (what, log.lammps_date, ed))


def _scribble(df, how):
    """what a caller does with a table it was handed: in-place edits"""
    if df is None:
        return
    if how == 'drop':
        df.drop(df.index, inplace=True)
    elif how == 'overwrite':
        for c in list(df.columns):
            df[c] = -7
    else:
        df['mine'] = 1.0
        if 'Step' in df.columns and len(df):
            df['Step'] -= int(df['Step'].iloc[0]) + 1


# ----------------------------------------------------------------------------- clauses

def oracle_parse(case):
    from atomman.lammps import Log
    lc = case['log']
    text, exp = L.synth(lc)
    labels = {'in_' + case['input']}
    if case.get('eol') == 'crlf':
        text = text.replace('\n', '\r\n')       # a log written by a Windows build
        labels.add('crlf')
    _log_labels(lc, labels)
    if any(len(r['rows']) >= 40 for r in exp['runs']):
        labels.add('long_run')
    if any(int(r['rows'][0][0]) >= 2 ** 31 for r in exp['runs'] if r['rows']):
        labels.add('bigint_steps')
    with tempfile.TemporaryDirectory(prefix='c19-') as tmp:
        arg, close = _feed(case['input'], text, tmp)
        try:
            log = _read(Log, arg, text)
        finally:
            close()
    _check_log_object(log, exp, 'Log(%s)' % case['input'])
    # the same log with the timing breakdown removed / in the other style gives the same thermo tables
    if lc['runs']:
        other = {'new': 'none', 'none': 'new', 'old': 'new'}[lc['runs'][0]['timing']]
        lc2 = dict(lc, runs=[dict(r, timing=other) for r in lc['runs']])
        text2, exp2 = L.synth(lc2)
        log2 = _read(Log, text2, text2)
        _check_log_object(log2, exp2, 'Log(text, timing=%s)' % other)
    # flatten
    nr = len(exp['runs'])
    if nr:
        first = None if case['sl'][0] == 0 else min(case['sl'][0], nr - 1)
        last = None if case['sl'][1] == 0 else max((first or 0) + 1, nr - case['sl'][1] + 1)
        for style in ('first', 'last', 'all'):
            _check_flat(log, exp['runs'], style, None, None, labels)
        if first is not None or last is not None:
            _check_flat(log, exp['runs'], case['flat'], first, last, labels)
            labels.add('flat_sliced')
        # flattening must leave the per-run records as they were, and give the same answer when asked again
        _check_log_object(log, exp, 'after flatten: Log(%s)' % case['input'])
        _check_flat(log, exp['runs'], case['flat'], None, None, labels)
        # the merged table is the caller's: editing it in place must not reach the per-run records nor a later merge
        for style in ('first', 'last', 'all'):
            _scribble(log.flatten(style).thermo, case.get('scribble', 'drop'))
        if first is not None or last is not None:
            kw = {}
            if first is not None:
                kw['firstindex'] = first
            if last is not None:
                kw['lastindex'] = last
            _scribble(log.flatten(case['flat'], **kw).thermo, case.get('scribble', 'drop'))
        labels.add('scribble_' + case.get('scribble', 'drop'))
        if len([r for r in exp['runs'] if r['rows']]) == 1 or len(exp['runs'][first:last]) == 1:
            labels.add('merge_of_one_run')
        _check_log_object(log, exp, 'after the caller edited the table returned by flatten() in place: Log(%s)' % case['input'])
        _check_flat(log, exp['runs'], case['flat'], None, None, labels)
    return labels


def oracle_history(case):
    from atomman.lammps import Log
    labels = set()
    model = {'runs': [], 'version': None, 'date': None}
    log = None
    appended = False
    with tempfile.TemporaryDirectory(prefix='c19-') as tmp:
        for k, op in enumerate(case['ops']):
            text, exp = L.synth(op['log'])
            arg, close = _feed(op['input'], text, tmp)
            try:
                if log is None and op['ctor']:
                    log = _read(Log, arg, text)
                    append = True
                else:
                    if log is None:
                        log = Log()
                        require(log.simulations == [] and log.lammps_version is None, 'Log() is not empty')
                    append = op['append']
                    try:
                        if append and not op['kw']:
                            log.read(arg)
                        else:
                            log.read(arg, append=append)
                    except (TypeError, AttributeError) as e:
                        key = _guard_known(e, text)
                        if key:
                            raise Violation('reading a well-formed log raised %s: %s' % (type(e).__name__, str(e)[:200]), key)
                        raise
            finally:
                close()
            if not append:
                if appended:
                    labels.update({'replace_after_append', 'nt'})
                model = {'runs': [], 'version': None, 'date': None}
            elif model['runs']:
                appended = True
            model['runs'] = model['runs'] + exp['runs']
            if model['version'] is None:
                model['version'], model['date'] = exp['version'], exp['date']
            _check_log_object(log, model, 'after op %d (%s, append=%r)' % (k, op['input'], append))
            _log_labels(op['log'], labels)
            if model['runs']:
                for style in ('first', 'last', 'all'):
                    _check_flat(log, model['runs'], style, None, None, labels)
                _check_log_object(log, model, 'after flatten following op %d' % k)
    labels.add('ops%d' % len(case['ops']))
    if len(case['ops']) >= 2:
        labels.add('multi')
    return labels


CLAUSES = [
    Clause('parse', oracle_parse, parse_cases, quick=4000, thorough=120000,
           min_share={'nt': 0.3, 'truncated': 0.08, 'colsets_differ': 0.1, 'overlap': 0.2, 'in_path': 0.05, 'in_stream': 0.05, 'in_pathlib': 0.041, 'in_bytes': 0.042,
                      'crlf': 0.078, 'long_run': 0.03, 'bigint_steps': 0.08, 'merge_of_one_run': 0.08},
           desc='one log: simulations = blocks in order; thermo columns/rows/values as printed; version and date; timing breakdown does not matter; flatten first/last/all and slices'),
    Clause('history', oracle_history, history_cases, quick=1500, thorough=30000, min_share={'multi': 0.34, 'replace_after_append': 0.03},
           desc='Log()/Log(x)/read(x, append) sequences against a list model after every step; version keeps the first seen; flatten over the history'),
]
